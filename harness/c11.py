"""C11 — save/load and the materialization cache round-trip losslessly.

Three case kinds (all frames come from harness/dfgen.py, all nine stypes):
  saveload  materialize, take a variant of the frame (whole / slice view / view of a view / index
            selection / row concatenation / column concatenation / zero rows), torch_frame.save ->
            torch_frame.load, compare everything a user can read
  history   a sequence of events over ONE cache path: materialize(path) / materialize() on the live
            Dataset, a new Dataset + materialize, a crash k bytes into a save, convert new rows
  trunc     write a cache file, cut it at k for all k (thorough) / a stratified subset (quick):
            torch_frame.load and Dataset.materialize(path) must raise.  This is the per-run
            validation of hypothesis H_load_prefix_fails of coq/Props/C11.v; the round trips of the
            other two kinds validate H_dec_enc.
"""
from __future__ import annotations

import atexit
import copy
import hashlib
import json
import os
import shutil
import tempfile

os.environ.setdefault("TQDM_DISABLE", "1")

import torch  # noqa: E402

import torch_frame  # noqa: E402
from harness import common as C  # noqa: E402
from harness import dfgen as G  # noqa: E402
from torch_frame.data import MultiEmbeddingTensor, MultiNestedTensor  # noqa: E402

PROP = "C11"
HEADER = "Require Import PF.Gen.Tables PF.Model.IO PF.Model.IORun PF.Model.IOSup PF.Model.IOSupRun."
MODEL_TARGETS = ["Model/IORun.vo", "Model/IOSupRun.vo"]
SHARD = 95
RULE = ("frames of 1-10 rows over all nine stypes (dict-valued text_tokenized, both tokenizer output formats) "
        "materialized by Dataset; saveload cases take the frame whole / as slice view / view of a view / index "
        "selection / row- and column-concatenation / zero rows / re-wrapped with an explicit num_rows, with and "
        "without target, with and without statistics, loaded with device omitted / 'cpu' / torch.device('cpu') "
        "(statistics compared by value AND container/scalar type), reuse cases saving 2-3 frames of different size "
        "onto ONE path, gens cases running 2-4 generations of select -> save -> load next to the same selections "
        "never saved, plus frames WITHOUT features that carry only an explicit "
        "num_rows (and y) and their selections / concatenations; history cases run 2-7 events, 30 % of them with every materialize given the statistics of a training set over "
        "another table (col_stats=), 30 % of the calls with device= (materialize with/without path, new Dataset + materialize, a "
        "new Dataset over ANOTHER table restoring itself from the cache, a derived dataset (slice / shuffle / "
        "index_select) calling materialize(path), the path handed to another table after it was loaded (file "
        "removed and rewritten / overwritten in place), the complete file cut short in place after it was loaded, crash k bytes into a save, convert new rows) over one cache path; trunc cases cut a written cache at "
        "every k (thorough) or 64 stratified k incl. 0, 1, len-1 and zip record boundaries (quick). distinct = "
        "distinct (kind, stype multiset, variant, shape, event/outcome sequence, file length); non-trivial = the "
        "frame has at least one feature column or at least one row and the run reached save/load (resp. at least one event touched "
        "the cache file, resp. at least one strict prefix was tried)")
TRUSTED = [
    "Coq 8.16.1 kernel + vm_compute",
    "hand-written model coq/Model/IO.v of utils/io.py, _MultiTensor.to_dict / keyword constructors, "
    "TensorFrame.validate and Dataset.materialize(path), tied to /repo by this run's observational correspondence",
    "torch.save / torch.load (zip + pickle byte format, incl. the weights_only=True / safe-globals fallback of "
    "io.load, which lives inside `dec`): NOT modelled; opaque enc/dec pair under the two section hypotheses H_dec_enc "
    "and H_load_prefix_fails, validated against the real torch on this run (round trips; truncation sweep)",
    "modelled primitives: validate() of MultiNestedTensor / MultiEmbeddingTensor (coq/Model/IORun.v), the fresh "
    "computation of materialize and the converter as a function of the statistics it holds (abstract)",
    "coq/Gen/Tables.v storage flags incl. use_multi_tensor, regenerated from /repo (fail-closed census of use_* flags)",
    "harness/c11.py + harness/dfgen.py (generator, plain-Python readers, reference cache automaton)",
]
ASSUMPTIONS = [
    "raise demands: the oracle demands a raise ONLY for 'a cache file cut short at any point raises an error instead of "
    "loading partial data' (keys trunc:*, hist:no-raise-on-cut-cache, hist:raise-but-materialized, hist:cut-file-loads). "
    "Everywhere else the current code's raises are NOT demanded: crafted inconsistent payloads and frames holding the "
    "wrong container class may raise or return something self-consistent / not silently different; statistics "
    "lacking a column may be refused or accepted self-consistently; a file of an older layout may be refused; a derived "
    "dataset's materialize(path) may be refused; convert on an unmaterialized dataset may work; in those cases the "
    "Coq term is not compared when the implementation returns normally where the model mirrors today's raise",
    "two clauses of the property rest on the Section hypotheses about torch's codec, not on a proof about bytes: "
    "'loading returns equal tensor CONTENTS and equal statistics VALUES' is H_dec_enc (tensors and statistics are "
    "opaque to the model) and 'a file cut short at any point raises' is H_load_prefix_fails "
    "(truncated_file_never_loads only pushes it through the first line of load); what is proved about repository code "
    "is deserialize . serialize = id per storage class over the generated flags, that validate accepts the result, and "
    "the materialize/cache state machine; both hypotheses are validated against the real torch on every run",
    "the cache path is written by a dataset over the SAME table its later readers use: a path written by a dataset "
    "over OTHER rows is a foreign/stale cache and outside the quantifier -- this includes a DERIVED dataset "
    "(ds[1:3], ds.shuffle(), materialized by inheritance) that calls materialize(path) while no file exists: it writes "
    "its row subset together with the PARENT's statistics, and a later full-table materialize(path) loads that "
    "(len(ds) 4, tensor_frame.num_rows 2, no error); the harness skips exactly that event and the model's live object "
    "always holds the fresh frame of the one table",
    "a crash during torch.save leaves a prefix of the complete file (sequential write, no atomic rename)",
    "the DataFrame and the Dataset configuration do not change between the process that wrote the cache and the one "
    "that reads it (a stale cache is outside the property)",
    "frames live on the CPU (device=None)",
    "statistics are compared through harness/dfgen.read_stats (numpy scalars / tensors / tuples normalised)",
]

# (clause of the property, oracle keys that report its failure, where the generator draws it)
CLAUSES = [
    ("save -> load returns an equal frame: every stype, views produced by slicing, empty frames, frames without target",
     "save-raises, load-raises [backed: 'loading it back RETURNS an equal frame' -- a raise cannot satisfy it], "
     "frame-differs:*, tf-neq, source-modified, device-differs, reuse:*, gens:* (incl. gens:selection-of-loaded-raises: "
     "the loaded frame must be 'equal', so it must support what the saved one supports)",
     "saveload + reuse + gens cases (variants whole/slice/slice2/index/catrows/catcols/catself/empty/featureless/"
     "handbuilt), boundary stream"),
    ("... and equal statistics (value AND container/scalar types)", "stats-differ, stats-types-differ",
     "same cases, with_stats on/off, load(device omitted | 'cpu' | torch.device)"),
    ("materializing with a cache path writes such a file", "hist:no-file-written[:supplied-stats], hist:cache-file-differs, "
     "trunc:write-failed, trunc:control", "history events mat/new/rewrite with path x fresh/materialized x col_stats= x device="),
    ("a later materialization with that path returns the same TensorFrame and statistics as a fresh computation",
     "hist:materialize-raises:* [backed: it 'RETURNS the same TensorFrame and statistics'], hist:cached-differs:*, "
     "hist:stale-after-rewrite, hist:derived-overwrote-cache, hist:restore-rewrote-cache, hist:file-touched",
     "history events new/newdf/derived/rewrite after mat(path)"),
    ("a dataset restored from the cache converts new data exactly like the original",
     "hist:convert-raises [backed: 'converts new data exactly like the original', which converts], "
     "hist:restored-converter-differs", "conv events (1 row, repeated row, all rows, shifted columns)"),
    ("a cache file cut short at any point raises an error instead of loading partial data",
     "the ONLY must-raise demands of this oracle, all backed by these words: trunc:load-partial, trunc:prefix-loads, "
     "trunc:materialize-partial, trunc:materialize-no-raise, hist:no-raise-on-cut-cache, hist:cut-file-loads; "
     "hist:raise-but-materialized [a dataset that reports is_materialized after the raise HAS loaded partial data]",
     "trunc cases (all k thorough / 64 stratified quick), crash and cut events"),
    ("(not in the statement) inconsistent payloads, wrong container classes, incomplete supplied statistics, older file "
     "layouts, derived datasets' materialize, convert before materialize",
     "NO raise demanded: crafted:inconsistent-frame / crafted:old-format-differs / malformed:silently-different / "
     "hist:incomplete-supplied-stats-inconsistent fire only when the call RETURNS something inconsistent with itself or "
     "silently different; a raise is always accepted (relaxed: crafted:old-format-rejected, "
     "hist:bad-supplied-stats-accepted, hist:failed-materialize-left-cache, hist:derived-materialize-raises, "
     "hist:cut-cache-rewritten, hist:convert-before-materialize were removed)",
     "crafted / malformed kinds, badstats / derived / conv events"),
]

# Boundaries of the dimensions in QUANTIFIED OVER (inputs x histories x crash points).  Each entry is hit
# DELIBERATELY by gen_boundaries() in every run, counted in stats()["boundaries"] and required by sanity().
BOUNDARIES = [
    # --- inputs: TensorFrames / statistics
    ("rows-0", "zero-row frame of all nine stypes (tf[0:0])"),
    ("rows-1", "one-row frame of all nine stypes"),
    ("rows-2", "two-row frame of all nine stypes"),
    ("cols-1-per-stype", "exactly one column per storage kind (num_cols == 1 containers)"),
    ("cols-2-equal-widths", "two embedding columns of EQUAL width and two ragged columns side by side"),
    ("ragged-all-empty", "every ragged cell empty: values.numel() == 0, offset all zeros (multicat / sequence / tokens)"),
    ("emb-width-1", "embedding column of width 1"),
    ("all-missing", "every cell of every column missing (NaN statistics, -1 codes, empty sequences)"),
    ("view-first-row", "slice view [0:1] (offset 0)"),
    ("view-last-row", "slice view [n-1:n] (largest non-zero storage offset)"),
    ("view-whole", "slice view [0:n] equal to its base"),
    ("view-through-empty", "selection of an EMPTY intermediate result (tf[n:][0:1])"),
    ("index-same-row-repeated", "tf[[1, 1, 1]]: the same row three times"),
    ("cat-same-object-twice", "torch_frame.cat([tf, tf]): the same object repeated"),
    ("cat-empty-part-first", "row concatenation whose first part has zero rows"),
    ("cat-empty-part-last", "row concatenation whose last part has zero rows"),
    ("no-target", "frame without y"),
    ("target-one-class", "categorical target with a single class, one row"),
    ("stats-none", "col_stats=None"),
    ("stats-empty-dict", "col_stats={} (feature-less frame)"),
    ("featureless-rows-0", "feature-less frame, num_rows=0"),
    ("featureless-rows-1-with-y", "feature-less frame, num_rows=1, y of one element"),
    ("explicit-rows-equal-feature-rows", "frame with features AND an explicit num_rows equal to the features' rows"),
    ("device-cpu-string", "load(path, device='cpu')"),
    ("device-torch-device", "load(path, device=torch.device('cpu'))"),
    ("reuse-same-frame-twice", "the same frame saved twice onto one path (equal file sizes)"),
    ("reuse-one-row-fewer", "a frame, then the same frame minus exactly one row, onto one path"),
    ("gens-select-of-loaded-featureless", "a feature-less frame is saved, loaded, a row selection of the LOADED frame is "
                                          "saved and loaded again (its row count must follow the selection)"),
    ("gens-through-empty", "generations passing through a zero-row generation"),
    ("gens-same-generation-twice", "the identical frame saved and loaded in two consecutive generations"),
    # --- histories
    ("hist-single-materialize", "the shortest history: one materialize(path)"),
    ("hist-same-object-twice", "materialize(path) twice on the SAME object (second call is a no-op)"),
    ("hist-new-twice", "two new Datasets in a row restore from the same file"),
    ("hist-one-row-table", "a table of exactly one row cached and restored"),
    ("hist-retry-after-raise", "materialize(path) raises on a cut file, is retried on the same object (raises again), then materialize() without path recovers"),
    ("hist-crash-0", "crash after 0 bytes (empty file exists)"),
    ("hist-crash-1", "crash after 1 byte"),
    ("hist-crash-len-1", "crash one byte before the end"),
    ("hist-crash-full", "crash after the complete file was written (k = len)"),
    ("hist-cut-0", "loaded cache file cut in place to 0 bytes"),
    ("hist-cut-len-1", "loaded cache file cut in place by exactly one byte"),
    ("hist-conv-one-row", "convert exactly one new row"),
    ("hist-conv-same-row-repeated", "convert the same row three times"),
    ("hist-conv-all-rows", "convert all rows (the cached table itself)"),
    ("hist-derived-0-rows", "derived dataset ds[:0] calls materialize(path)"),
    ("hist-derived-all-rows", "derived dataset ds[:n] (all rows) calls materialize(path)"),
    ("hist-rewrite-same-size-table", "the path handed to another table with the SAME number of rows"),
    ("hist-supplied-binary-target-unsorted", "statistics supplied list the two classes of a binary categorical target in "
                                             "NON-sorted order; cached, restored by a new Dataset, new rows converted"),
    ("hist-supplied-multiclass-target-unsorted", "the same with three classes in reversed order"),
    ("hist-supplied-binary-target-raw", "supplied target statistics raw from compute_col_stats (frequency order)"),
    ("hist-supplied-equals-own", "col_stats supplied are the table's OWN statistics (supplied == computed)"),
    # --- crash points
    ("trunc-smallest-file", "truncation sweep of the smallest cache (1 row, 1 column)"),
    ("trunc-saved-featureless", "truncation sweep of a saved feature-less frame (no tensor records in the archive)"),
    ("trunc-k-0-1-2", "k = 0, 1, 2"),
    ("trunc-k-len-1-len-2", "k = len-1, len-2"),
    ("trunc-k-eocd", "k = len-22, len-23: around the start of the zip end-of-central-directory record"),
    ("trunc-k-zip-records", "k on / next to every kind of zip record signature present in the file"),
]
BOUNDARY_NAMES = [b for b, _ in BOUNDARIES]

# Every raise / assert / try-except / special-case branch / dtype or container conversion of the anchored code
# (utils/io.py, the cache branches of Dataset.materialize, _MultiTensor.to_dict + keyword constructors,
# TensorFrame.validate as called by load): (site, generator kind that reaches it, oracle key that notices when it
# is removed, loosened or replaced by a default).  stats()["error_paths"] counts the reaching cases of each run and
# sanity() requires every reachable one.
ERROR_PATHS = [
    ("io.serialize_feat_dict: assert isinstance(feat, _MultiTensor) / dict / MultiNestedTensor / Tensor",
     "malformed:* (a stype holding the wrong container class)", "malformed:silently-different"),
    ("io.deserialize_feat_dict: assert isinstance(feat_serialized, Tensor)", "crafted:dense-stype-given-dict",
     "crafted:inconsistent-frame; model: check_crafted (Model/IO.v load on the same payload; theorem "
     "load_returns_only_wellformed_frames)"),
    ("MultiNestedTensor( **d ) / MultiEmbeddingTensor( **d ): TypeError on a missing key, validate() asserts",
     "crafted:mnt-missing-key, crafted:mnt-offset-too-short, crafted:met-as-mnt", "crafted:inconsistent-frame"),
    ("TensorFrame( **tf_dict ).validate(): key sets, num_cols, num_rows, len(y)",
     "crafted:names-keys-mismatch, crafted:y-length-mismatch", "crafted:inconsistent-frame"),
    ("io.load: `tf_dict, col_stats = ...` unpacking of the pickled pair", "crafted:payload-not-a-pair",
     "crafted:inconsistent-frame"),
    ("io.load: TensorFrame( **tf_dict ) default num_rows=None for files written before the key existed",
     "crafted:old-format-no-num_rows", "crafted:old-format-differs (a raise is accepted)"),
    ("io.load: try torch.load(weights_only=True) / except UnpicklingError with 'add_safe_globals' -> warn + "
     "weights_only=False", "saveload/reuse/history with statistics holding numpy scalars (error_paths: weights-only-fallback)",
     "load-raises, hist:materialize-raises:complete"),
    ("io.load: `else: raise e` (any other UnpicklingError) and every exception of torch.load propagating",
     "trunc (every k), crash / cut events", "trunc:load-partial, trunc:prefix-loads, hist:no-raise-on-cut-cache"),
    ("io.load: WITH_PT24 else-branch (torch < 2.4)", "UNREACHABLE with the pinned torch", "-"),
    ("io.load: .to(device)", "device None / 'cpu' / torch.device", "device-differs, stats-types-differ, frame-differs:*"),
    ("io.save / io.load: NO dtype or container conversion anywhere (tensors, y, statistics pass through)",
     "handbuilt frames of float64/float16/bfloat16/float32/int32/int16/int64/uint8/bool for every feature kind and y; "
     "embedders returning float64/float16; typed statistics", "frame-differs:feats|y (dtype code + exact bits), "
     "stats-types-differ"),
    ("io.save: 'num_rows': tensor_frame._num_rows", "featureless / explicit_rows variants, gens", "frame-differs:n, load-raises"),
    ("Dataset.materialize: `if self.is_materialized: if path is not None and not osp.isfile(path): save`",
     "mat(path) on a materialized object x file absent/present, derived events", "hist:no-file-written, "
     "hist:derived-overwrote-cache"),
    ("Dataset.materialize: `if path is not None and osp.isfile(path)`: load, rebuild converter, mark materialized",
     "new/newdf events x file complete/corrupt/absent", "hist:materialize-raises:*, hist:cached-differs:*, "
     "hist:raise-but-materialized, hist:convert-raises, hist:restored-converter-differs"),
    ("Dataset.materialize: binary categorical target classes sorted ONLY in the computed-statistics branch",
     "force_target + supplied statistics in reversed / raw order (error_paths: unsorted-supplied-target)",
     "hist:cached-differs:stats|y, hist:restored-converter-differs"),
    ("Dataset.materialize: asserts on supplied col_stats (column missing / required statistic missing)",
     "badstats events", "hist:incomplete-supplied-stats-inconsistent (raise OR self-consistent; no bare must-raise)"),
    ("Dataset.materialize: `if path is not None: save` after the computation (both statistics sources)",
     "mat/new/rewrite with path x col_stats=", "hist:no-file-written[:supplied-stats]"),
    ("Dataset._update_col_stats: int(emb_dim_list[i]) into the statistics before they are cached",
     "text_embedded / image_embedded / embedding columns in histories", "hist:cached-differs:stats, stats-types-differ"),
]

_TMP = None


def tmpdir():
    global _TMP
    if _TMP is None:
        _TMP = tempfile.mkdtemp(prefix="c11_", dir=C.BUILD)
        atexit.register(shutil.rmtree, _TMP, True)
    return _TMP


_COUNTER = [0]


def fresh_path(tag):
    _COUNTER[0] += 1
    return os.path.join(tmpdir(), f"{tag}_{os.getpid()}_{_COUNTER[0]}.pt")


def rm(*paths):
    for p in paths:
        try:
            os.remove(p)
        except OSError:
            pass


# ------------------------------------------------------------------ generation
def gen_desc(rng, big=False):
    n = rng.wpick([(1, 1), (2, 2), (3, 3), (4, rng.randint(4, 10))])
    if big:
        n = rng.randint(3, 8)
    desc = G.gen_frame(rng, n=n)
    for c in desc["cols"]:
        if c["stype"] == "text_tokenized":
            c["tok_fmt"] = rng.pick(["list", "dict"])
        if c["stype"] in ("text_embedded", "image_embedded") and rng.chance(0.35):
            c["emb_dtype"] = rng.pick(["float64", "float16"])       # embedders need not return float32
    return desc


def gen_variant(rng, n):
    r = rng.random()
    if r < 0.22:
        return {"v": "whole"}
    if r < 0.42:
        a = rng.randint(0, n)
        b = rng.randint(a, n)
        if rng.chance(0.7) and n >= 2:        # a proper non-empty window with a non-zero offset when possible
            a = rng.randint(1, n - 1)
            b = rng.randint(a + 1, n)
        return {"v": "slice", "a": a, "b": b}
    if r < 0.52:
        a = rng.randint(0, max(0, n - 1))
        return {"v": "slice2", "a": a, "c": rng.randint(0, 1), "d": rng.randint(1, 3)}
    if r < 0.67:
        k = rng.randint(1, 4)
        return {"v": "index", "idx": [rng.randint(0, n - 1) for _ in range(k)]}
    if r < 0.80:
        return {"v": "catrows", "parts": [gen_part(rng, n) for _ in range(rng.randint(2, 3))]}
    if r < 0.90:
        return {"v": "catcols"}
    return {"v": "empty", "how": rng.pick(["slice", "index", "mask"])}


def gen_featureless(rng):
    """A frame without features: only an explicit num_rows and possibly y."""
    n = rng.wpick([(1, 0), (2, 1), (4, rng.randint(2, 9))])
    yk = rng.pick(["none", "float", "int"])
    y = None if yk == "none" else [rng.randint(-9, 9) + (0.5 if yk == "float" else 0) for _ in range(n)]
    op = rng.wpick([(3, {"v": "whole"}), (2, gen_part(rng, max(n, 1)) if n else {"v": "whole"}),
                    (2, {"v": "catrows", "parts": [gen_part(rng, n) for _ in range(2)]} if n else {"v": "whole"}),
                    (1, {"v": "catcols"})])
    return {"kind": "saveload", "frame": {"n": n, "cols": [], "target": None, "index": "range", "col_order": []},
            "variant": {"v": "featureless", "n": n, "y": y, "op": op}, "with_stats": rng.chance(0.5)}


def gen_part(rng, n):
    if rng.chance(0.5):
        a = rng.randint(0, n)
        return {"v": "slice", "a": a, "b": rng.randint(a, n)}
    return {"v": "index", "idx": [rng.randint(0, n - 1) for _ in range(rng.randint(0, 3))]}


def gen_k(rng):
    return rng.wpick([(2, {"t": "abs", "v": 0}), (1, {"t": "abs", "v": 1}), (2, {"t": "end", "v": 1}),
                      (1, {"t": "end", "v": rng.randint(2, 40)}), (5, {"t": "frac", "v": rng.randint(1, 999)}),
                      (2, {"t": "full"})])


def gen_conv(rng, n):
    return {"e": "conv", "rows": [rng.randint(0, n - 1) for _ in range(rng.randint(1, 4))], "shift": rng.chance(0.4)}


def gen_derived(rng, n):
    """a dataset DERIVED from the live one (they count as materialized) calls materialize(path)"""
    op = rng.wpick([(3, {"t": "slice", "k": rng.randint(0, max(0, n - 1))}), (2, {"t": "shuffle"}),
                    (2, {"t": "index", "idx": [rng.randint(0, n - 1) for _ in range(rng.randint(1, 3))]})])
    return {"e": "derived", "op": op, "path": not rng.chance(0.2)}


def gen_newdf(rng, n):
    """a new Dataset over ANOTHER table of the same schema (new data) restores itself from the cache"""
    return {"e": "newdf", "rows": [rng.randint(0, n - 1) for _ in range(rng.randint(2, 5))], "shift": rng.chance(0.7)}


def gen_rewrite(rng, n):
    """the cache path is handed to ANOTHER table: old file removed (or overwritten in place by a complete file)"""
    return {"e": "rewrite", "how": rng.pick(["remove", "remove", "overwrite", "save", "save"]),
            "rows": [rng.randint(0, n - 1) for _ in range(rng.randint(2, 5))], "shift": rng.chance(0.7)}


def gen_cut(rng):
    """the complete cache file (possibly loaded before in this process) is cut short IN PLACE"""
    return {"e": "cut", "k": rng.wpick([(2, {"t": "abs", "v": 0}), (1, {"t": "abs", "v": 1}), (2, {"t": "end", "v": 1}),
                                        (6, {"t": "frac", "v": rng.randint(1, 999)}), (1, {"t": "full"})])}


def gen_events(rng, n):
    r = rng.random()
    if r < 0.10:      # one path reused within the process after it has been loaded
        ev = [{"e": "mat", "path": True}, {"e": "new", "path": True}, gen_rewrite(rng, n), {"e": "new", "path": True}]
        if rng.chance(0.6):
            ev.append(gen_conv(rng, n))
        return ev
    if r < 0.20:
        ev = [{"e": "mat", "path": True}, {"e": "new", "path": True}, gen_cut(rng),
              rng.pick([{"e": "new", "path": True}, gen_newdf(rng, n)])]
        if rng.chance(0.3):
            ev += [gen_rewrite(rng, n), {"e": "new", "path": True}]
        return ev
    r = rng.random()
    if r < 0.12:
        ev = [{"e": "mat", "path": rng.chance(0.8)}]
        if not ev[0]["path"]:
            ev.append({"e": "mat", "path": True})
        ev += [gen_derived(rng, n), {"e": "new", "path": True}]
        if rng.chance(0.5):
            ev.append(gen_conv(rng, n))
        return ev
    if r < 0.24:
        strict = rng.wpick([(2, {"t": "abs", "v": 0}), (2, {"t": "end", "v": 1}), (6, {"t": "frac", "v": rng.randint(1, 999)})])
        ev = [{"e": "crash", "k": strict}, gen_newdf(rng, n)]
        ev += rng.sample([{"e": "new", "path": True}, gen_newdf(rng, n), gen_conv(rng, n), {"e": "mat", "path": True}],
                         rng.randint(1, 2))
        return ev
    if r < 0.32:
        return [{"e": "mat", "path": True}, gen_newdf(rng, n), gen_conv(rng, n)]
    if r < 0.47:
        ev = [{"e": "mat", "path": True}, {"e": "new", "path": True}, gen_conv(rng, n)]
        if rng.chance(0.4):
            ev.append(gen_conv(rng, n))
        return ev
    if r < 0.57:
        return [{"e": "mat", "path": False}, {"e": "mat", "path": True}, {"e": "new", "path": True}, gen_conv(rng, n)]
    if r < 0.72:
        ev = [{"e": "crash", "k": gen_k(rng)}, {"e": "new", "path": True}]
        ev += rng.sample([{"e": "new", "path": False}, gen_conv(rng, n), {"e": "mat", "path": True},
                          {"e": "new", "path": True}], rng.randint(1, 3))
        return ev
    ev = []
    for _ in range(rng.randint(2, 7)):
        ev.append(rng.wpick([(3, {"e": "mat", "path": True}), (2, {"e": "mat", "path": False}),
                             (3, {"e": "new", "path": True}), (1, {"e": "new", "path": False}),
                             (2, {"e": "crash", "k": gen_k(rng)}), (3, gen_conv(rng, n)),
                             (2, gen_derived(rng, n)), (2, gen_newdf(rng, n)), (2, gen_rewrite(rng, n)),
                             (1, {"e": "badstats", "drop": rng.pick(["column", "statkey"])}),
                             (2, gen_cut(rng))]))
    return ev


def gen_device(rng):
    """the `device` argument of torch_frame.load: omitted, a string, a torch.device (CPU only here)"""
    return rng.pick([None, None, "cpu", "torch.device"])


def dev_of(d):
    return None if d is None else ("cpu" if d == "cpu" else torch.device("cpu"))


def gen_op(rng):
    return rng.wpick([(4, {"v": "slice", "a": rng.randint(0, 9), "b": rng.randint(0, 9)}),
                      (3, {"v": "index", "idx": [rng.randint(0, 9) for _ in range(rng.randint(0, 4))]}),
                      (1, {"v": "catself"})])


def gen_gens(rng, featureless_base=False):
    """2-4 generations of select -> save -> load, all onto one path"""
    if featureless_base:
        c = gen_featureless(rng)
        c["variant"]["op"] = {"v": "whole"}
    else:
        desc = gen_desc(rng, big=rng.chance(0.5))
        c = {"frame": desc, "variant": {"v": "whole"}, "with_stats": rng.chance(0.7)}
        if rng.chance(0.2):
            c["explicit_rows"] = True
    c.update(kind="gens", ops=[gen_op(rng) for _ in range(rng.randint(2, 4))],
             devices=[gen_device(rng) for _ in range(2)])
    return c


def gen_reuse(rng):
    """Several saves onto ONE path (larger then smaller, smaller then larger, with/without statistics),
    each followed by a load that must return exactly the frame just saved."""
    big = gen_desc(rng, big=True)
    small = G.gen_frame(rng, n=rng.randint(1, 2), stypes=[rng.pick(["numerical", "categorical", "embedding",
                                                                     "multicategorical", "text_tokenized"])])
    small["cols"] = small["cols"][:1] + [c for c in small["cols"][1:] if c["name"] == small["target"]]
    small["col_order"] = [n for n in small["col_order"] if n in [c["name"] for c in small["cols"]]]

    def step(desc, shrink_rows):
        n = desc["n"]
        v = {"v": "whole"}
        if shrink_rows:      # index selection copies (a slice view would still carry the whole storage)
            v = rng.pick([{"v": "index", "idx": [rng.randint(0, n - 1)]}, {"v": "empty", "how": "index"}])
        return {"frame": desc, "variant": v, "with_stats": rng.chance(0.6), "device": gen_device(rng)}
    order = rng.pick([[big, small], [small, big], [big, small, big], [big, big], [small, big, small]])
    steps = []
    for j, d in enumerate(order):
        steps.append(step(d, shrink_rows=(j > 0 and order[j - 1] is d) or rng.chance(0.15)))
    return {"kind": "reuse", "frame": big, "steps": steps}


ALL_STYPES = ["numerical", "categorical", "multicategorical", "sequence_numerical", "timestamp", "embedding",
              "text_embedded", "image_embedded", "text_tokenized"]
_NAMES = ["alpha", "beta", "gamma", "delta", "eps", "zeta", "eta", "theta", "iota", "kappa", "lam", "mu"]


def make_desc(rng, stypes, n, target=None, miss_p=0.0):
    """a frame description with EXACTLY these columns"""
    cols = [G.gen_col(rng, _NAMES[i], st, n, miss_p) for i, st in enumerate(stypes)]
    for c in cols:
        if c["stype"] == "text_tokenized":
            c["tok_fmt"] = rng.pick(["list", "dict"])
    if target is not None:
        cols.append(G.gen_col(rng, "tgt", target, n, 0.0, for_target=True))
    return {"n": n, "index": "range", "cols": cols, "target": "tgt" if target else None,
            "col_order": [c["name"] for c in cols]}


def gen_boundaries(rng):
    """The dedicated boundary stream: one (or more) case per entry of BOUNDARIES, in every run."""
    out = []

    def sl(name, desc, variant, with_stats=True, device=None, **kw):
        out.append(dict({"kind": "saveload", "frame": desc, "variant": variant, "with_stats": with_stats,
                         "device": device, "boundary": name}, **kw))

    for n, name in ((1, "rows-1"), (2, "rows-2")):
        sl(name, make_desc(rng, ALL_STYPES, n, target="numerical"), {"v": "whole"})
    d9 = make_desc(rng, ALL_STYPES, 4, target="categorical")
    sl("rows-0", d9, {"v": "slice", "a": 0, "b": 0})
    sl("cols-1-per-stype", make_desc(rng, ["numerical", "multicategorical", "embedding", "text_tokenized"], 3), {"v": "whole"})
    d = make_desc(rng, ["embedding", "embedding", "multicategorical", "multicategorical", "sequence_numerical",
                        "sequence_numerical"], 3)
    d["cols"][1]["width"] = d["cols"][0]["width"]
    d["cols"][1]["cells"] = [[G.dyadic(rng, -8, 8) for _ in range(d["cols"][0]["width"])] for _ in range(3)]
    sl("cols-2-equal-widths", d, {"v": "whole"})
    d = make_desc(rng, ["multicategorical", "sequence_numerical", "text_tokenized"], 3)
    d["cols"][0].update(sep=None, dtype="object", cells=[[], [], []])
    d["cols"][1]["cells"] = [[], [], []]
    d["cols"][2].update(cells=["", "", ""], tok_fmt="list")      # the dict format pads to width >= 1
    sl("ragged-all-empty", d, {"v": "whole"})
    d = make_desc(rng, ["embedding", "numerical"], 3)
    d["cols"][0].update(width=1, cells=[[G.dyadic(rng, -8, 8)] for _ in range(3)])
    sl("emb-width-1", d, {"v": "whole"})
    sl("all-missing", make_desc(rng, ["numerical", "categorical", "multicategorical", "sequence_numerical", "timestamp"],
                                3, miss_p=1.0), {"v": "whole"})
    n = d9["n"]
    sl("view-first-row", d9, {"v": "slice", "a": 0, "b": 1})
    sl("view-last-row", d9, {"v": "slice", "a": n - 1, "b": n})
    sl("view-whole", d9, {"v": "slice", "a": 0, "b": n})
    sl("view-through-empty", d9, {"v": "slice2", "a": n, "c": 0, "d": 1})
    sl("index-same-row-repeated", d9, {"v": "index", "idx": [1, 1, 1]})
    sl("cat-same-object-twice", d9, {"v": "catself"})
    sl("cat-empty-part-first", d9, {"v": "catrows", "parts": [{"v": "slice", "a": 0, "b": 0}, {"v": "slice", "a": 0, "b": n}]})
    sl("cat-empty-part-last", d9, {"v": "catrows", "parts": [{"v": "slice", "a": 1, "b": n}, {"v": "index", "idx": []}]})
    sl("no-target", make_desc(rng, ["numerical", "text_tokenized", "multicategorical"], 3), {"v": "whole"})
    d = make_desc(rng, ["numerical"], 1, target="categorical")
    sl("target-one-class", d, {"v": "whole"})
    sl("stats-none", d9, {"v": "whole"}, with_stats=False)
    fl = lambda nn, y: {"n": nn, "cols": [], "target": None, "index": "range", "col_order": []}   # noqa: E731
    sl("stats-empty-dict", fl(3, None), {"v": "featureless", "n": 3, "y": None, "op": {"v": "whole"}}, with_stats=True)
    sl("featureless-rows-0", fl(0, None), {"v": "featureless", "n": 0, "y": None, "op": {"v": "whole"}}, with_stats=False)
    sl("featureless-rows-1-with-y", fl(1, [2.5]), {"v": "featureless", "n": 1, "y": [2.5], "op": {"v": "whole"}},
       with_stats=False)
    sl("explicit-rows-equal-feature-rows", d9, {"v": "whole"}, explicit_rows=True)
    sl("device-cpu-string", d9, {"v": "whole"}, device="cpu")
    sl("device-torch-device", d9, {"v": "slice", "a": 1, "b": 3}, device="torch.device")
    st = lambda desc, v, ws=True: {"frame": desc, "variant": v, "with_stats": ws, "device": None}   # noqa: E731
    out.append({"kind": "reuse", "frame": d9, "steps": [st(d9, {"v": "whole"}), st(d9, {"v": "whole"})],
                "boundary": "reuse-same-frame-twice"})
    out.append({"kind": "reuse", "frame": d9, "boundary": "reuse-one-row-fewer",
                "steps": [st(d9, {"v": "whole"}), st(d9, {"v": "index", "idx": list(range(n - 1))}), st(d9, {"v": "whole"})]})

    out.append({"kind": "gens", "frame": fl(5, None), "variant": {"v": "featureless", "n": 5, "y": [1, 2, 3, 4, 5],
                                                                    "op": {"v": "whole"}},
                "with_stats": False, "devices": [None, "cpu"], "boundary": "gens-select-of-loaded-featureless",
                "ops": [{"v": "slice", "a": 0, "b": 5}, {"v": "slice", "a": 1, "b": 2}, {"v": "index", "idx": [1, 0, 1]}]})
    out.append({"kind": "gens", "frame": d9, "variant": {"v": "whole"}, "with_stats": True, "devices": [None],
                "boundary": "gens-through-empty",
                "ops": [{"v": "slice", "a": 1, "b": 2}, {"v": "slice", "a": 0, "b": 0}, {"v": "index", "idx": []},
                        {"v": "catself"}]})
    out.append({"kind": "gens", "frame": d9, "variant": {"v": "whole"}, "with_stats": True, "devices": ["torch.device"],
                "boundary": "gens-same-generation-twice",
                "ops": [{"v": "slice", "a": 0, "b": 4}, {"v": "slice", "a": 0, "b": 4}]})

    # histories
    def hist(name, desc, events, **kw):
        out.append(dict({"kind": "history", "frame": desc, "events": events, "boundary": name}, **kw))
    dh = make_desc(rng, ["categorical", "multicategorical", "numerical", "text_embedded", "text_tokenized"], 5,
                   target="categorical")
    M, N, MN = {"e": "mat", "path": True}, {"e": "new", "path": True}, {"e": "mat", "path": False}
    conv = lambda rows, shift=False: {"e": "conv", "rows": rows, "shift": shift}   # noqa: E731
    hist("hist-single-materialize", dh, [dict(M)])
    out.append({"kind": "history", "frame": dh, "events": [{"e": "badstats", "drop": "column"}, {"e": "badstats", "drop": "statkey"},
                                                           dict(M), dict(N)]})
    hist("hist-same-object-twice", dh, [dict(M), dict(M), conv([0, 3])])
    hist("hist-new-twice", dh, [dict(M), dict(N), dict(N), conv([4, 2], True)])
    hist("hist-one-row-table", make_desc(rng, ["categorical", "sequence_numerical", "embedding"], 1),
         [dict(M), dict(N), conv([0])])
    hist("hist-retry-after-raise", dh, [{"e": "crash", "k": {"t": "frac", "v": 500}}, dict(N), dict(M), dict(M),
                                        dict(MN), conv([1])])
    for name, k in (("hist-crash-0", {"t": "abs", "v": 0}), ("hist-crash-1", {"t": "abs", "v": 1}),
                    ("hist-crash-len-1", {"t": "end", "v": 1}), ("hist-crash-full", {"t": "full"})):
        hist(name, dh, [{"e": "crash", "k": k}, dict(N), {"e": "new", "path": False}])
    for name, k in (("hist-cut-0", {"t": "abs", "v": 0}), ("hist-cut-len-1", {"t": "end", "v": 1})):
        hist(name, dh, [dict(M), dict(N), {"e": "cut", "k": k}, dict(N), gen_newdf(rng, 5)])
    hist("hist-conv-one-row", dh, [dict(M), dict(N), conv([2])])
    hist("hist-conv-same-row-repeated", dh, [dict(M), dict(N), conv([3, 3, 3])])
    hist("hist-conv-all-rows", dh, [dict(M), dict(N), conv([0, 1, 2, 3, 4])])
    hist("hist-derived-0-rows", dh, [dict(M), {"e": "derived", "op": {"t": "slice", "k": 0}, "path": True}, dict(N)])
    hist("hist-derived-all-rows", dh, [dict(M), {"e": "derived", "op": {"t": "slice", "k": 5}, "path": True}, dict(N)])
    hist("hist-rewrite-same-size-table", dh, [dict(M), dict(N), {"e": "rewrite", "how": "remove", "rows": [4, 3, 2, 1, 0],
                                                                 "shift": True}, dict(N), conv([0, 1])])
    dbin = force_target(make_desc(rng, ["numerical", "categorical", "text_embedded"], 5), ["a", "b"])
    dtri = force_target(make_desc(rng, ["numerical", "multicategorical"], 6), ["x", "m", "b"])
    own = {"rows": [0, 1, 2, 3, 4], "shift": False}
    hist("hist-supplied-binary-target-unsorted", dbin, [dict(M), dict(N), conv([0, 1, 4]), gen_newdf(rng, 5), conv([1, 0])],
         supplied_first=dict(own, order="reverse"))
    hist("hist-supplied-multiclass-target-unsorted", dtri, [dict(M), dict(N), conv([0, 1, 2, 5])],
         supplied_first=dict(rows=[0, 1, 2, 3, 4, 5], shift=False, order="reverse"))
    hist("hist-supplied-binary-target-raw", dbin, [dict(MN), dict(M), dict(N), conv([0, 4])],
         supplied_first=dict(own, order="raw"))
    hist("hist-supplied-equals-own", dh, [dict(M), dict(N), conv([1, 4], True)],
         supplied_first={"rows": [0, 1, 2, 3, 4], "shift": False})

    # crash points
    tr = lambda name, desc, **kw: out.append(dict({"kind": "trunc", "frame": desc, "ks": "strat", "mat_ks": 6,   # noqa: E731
                                                   "seed": rng.randint(0, 10 ** 6), "boundary": name}, **kw))
    small = make_desc(rng, ["numerical"], 1)
    tr("trunc-smallest-file", small)
    tr("trunc-saved-featureless", fl(3, None), source={"v": "featureless", "n": 3, "y": [1, 2, 3], "op": {"v": "whole"}})
    tr("trunc-k-0-1-2", dh)
    for name in ("trunc-k-len-1-len-2", "trunc-k-eocd", "trunc-k-zip-records"):
        out[-1]["boundary"] += "," + name       # one sweep serves the four point-boundaries; stats() checks each
    return out


REQUIRED_SEED = 1101


def required_stream():
    rq = C.Rng(REQUIRED_SEED)
    cases = gen_boundaries(rq)
    nofr = {"n": 0, "cols": [], "target": None, "index": "range", "col_order": []}
    cases += [{"kind": "crafted", "what": w, "frame": nofr} for w in CRAFTED]
    cases += [{"kind": "malformed", "what": w, "frame": nofr} for w in MALFORMED]
    cases += [gen_handbuilt(rq, dtype=dt) for dt in TORCH_DT]          # every numeric backing in every run
    # the kinds sanity() requires that no boundary case happens to produce
    d = make_desc(rq, ALL_STYPES, 4, target="numerical")
    for v in ({"v": "catcols"}, {"v": "empty", "how": "slice"}, {"v": "empty", "how": "index"}, {"v": "empty", "how": "mask"},
              {"v": "slice2", "a": 1, "c": 1, "d": 2}, {"v": "catrows", "parts": [{"v": "slice", "a": 2, "b": 4},
                                                                                  {"v": "index", "idx": [0, 0]}]}):
        cases.append({"kind": "saveload", "frame": d, "variant": v, "with_stats": True, "device": None})
    for dt in ("float64", "float16"):                  # embedders that do not return float32
        e = make_desc(rq, ["text_embedded", "image_embedded"], 3)
        for c in e["cols"]:
            c["emb_dtype"] = dt
        cases.append({"kind": "saveload", "frame": e, "variant": {"v": "whole"}, "with_stats": True, "device": None})
        cases.append({"kind": "history", "frame": e, "events": [{"e": "mat", "path": True}, {"e": "new", "path": True},
                                                                {"e": "conv", "rows": [0, 2], "shift": False}]})
    small = make_desc(rq, ["numerical"], 1)
    st = lambda desc: {"frame": desc, "variant": {"v": "whole"}, "with_stats": True, "device": None}   # noqa: E731
    cases.append({"kind": "reuse", "frame": d, "steps": [st(d), st(small), st(d)]})     # smaller after larger, larger after smaller
    cases.append({"kind": "history", "frame": d, "events": [
        {"e": "mat", "path": False, "device": "cpu"}, {"e": "mat", "path": True, "device": "torch.device"},
        {"e": "new", "path": True, "device": "cpu"}, {"e": "derived", "op": {"t": "shuffle"}, "path": True, "device": "cpu"},
        {"e": "conv", "rows": [1, 3], "shift": True}]})
    return cases


def generate(rng, tier):
    n_sl, n_h, n_t = (160, 90, 4) if tier == "quick" else (6000, 3000, 60)
    # The REQUIRED stream: deterministic (its own constant seed, independent of VERIF_SEED and of the tier).
    # It alone satisfies every requirement of sanity(); the run's seed only drives the random stream after it.
    cases = required_stream()
    for i in range(n_sl):
        if i % 8 == 3:
            cases.append(gen_featureless(rng))
            continue
        desc = gen_desc(rng)
        if i % 7 == 0:
            desc = gen_desc(rng, big=True)
        case = {"kind": "saveload", "frame": desc, "variant": gen_variant(rng, desc["n"]),
                "with_stats": not rng.chance(0.12), "device": gen_device(rng)}
        if i % 8 == 5:     # the same frame, re-wrapped with an explicitly given num_rows
            case["explicit_rows"] = True
        cases.append(case)
    for _ in range(n_sl // 8):
        cases.append(gen_handbuilt(rng))
    for _ in range(n_sl // 8):
        cases.append(gen_reuse(rng))
    for j in range(n_sl // 8):
        cases.append(gen_gens(rng, featureless_base=(j % 4 == 0)))
    for _ in range(n_h):
        desc = gen_desc(rng)
        evs = gen_events(rng, desc["n"])
        for e in evs:                 # materialize(device=..., path=...) hands the device to torch_frame.load
            if e["e"] in ("mat", "new", "derived") and rng.chance(0.3):
                e["device"] = rng.pick(["cpu", "torch.device"])
            if e["e"] == "rewrite" and rng.chance(0.4):
                e["supplied"] = True       # materialize(path=p, col_stats=<statistics of the table before>)
                e["order"] = rng.pick([None, "reverse", "raw"])
        if desc["n"] >= 3 and rng.chance(0.3):      # binary / multiclass categorical target, majority class last
            desc = force_target(desc, rng.pick([["a", "b"], ["a", "b"], ["x", "m", "b"], [3, 1], ["b", "a"]]))
        case = {"kind": "history", "frame": desc, "events": evs}
        if rng.chance(0.3):               # every materialize of the history is given a training set's statistics
            case["supplied_first"] = {"rows": [rng.randint(0, desc["n"] - 1) for _ in range(rng.randint(2, 5))],
                                      "shift": rng.chance(0.7), "order": rng.pick([None, "reverse", "raw"])}
            if rng.chance(0.4):           # ... the table's own rows: every class is seen
                case["supplied_first"].update(rows=list(range(desc["n"])), shift=False)
        cases.append(case)
    for _ in range(n_t):
        desc = gen_desc(rng, big=rng.chance(0.5))
        cases.append({"kind": "trunc", "frame": desc, "ks": "strat" if tier == "quick" else "all",
                      "mat_ks": 8 if tier == "quick" else 48, "seed": rng.randint(0, 10 ** 6)})
    return cases


# ------------------------------------------------------------------ readers
DT = {torch.float32: 1, torch.float64: 2, torch.int64: 3, torch.int32: 4, torch.bool: 5, torch.int16: 6,
      torch.int8: 7, torch.uint8: 8, torch.float16: 9, torch.bfloat16: 10}


def enc_tensor(t):
    """dtype code, shape, flat data; floats as the integer of their bit pattern, NaN canonical."""
    t = t.detach().cpu()
    code = DT.get(t.dtype, 20)
    shape = [int(s) for s in t.shape]
    flat = t.contiguous().reshape(-1)
    if t.dtype == torch.float32:
        bits = flat.view(torch.int32).clone()
        bits[torch.isnan(flat)] = 0x7FC00000
        data = bits.tolist()
    elif t.dtype == torch.float64:
        bits = flat.view(torch.int64).clone()
        bits[torch.isnan(flat)] = 0x7FF8000000000000
        data = bits.tolist()
    elif t.dtype.is_floating_point:
        bits = flat.to(torch.float64).view(torch.int64).clone()
        bits[torch.isnan(flat)] = 0x7FF8000000000000
        data = bits.tolist()
    else:
        data = [int(x) for x in flat.tolist()]
    return [code, shape, data]


def kind_of(feat):
    if isinstance(feat, dict):
        return "dict"
    if isinstance(feat, MultiNestedTensor):
        return "nested"
    if isinstance(feat, MultiEmbeddingTensor):
        return "embed"
    if isinstance(feat, torch.Tensor):
        return "tensor"
    return "other:" + type(feat).__name__


def raw_multi(m):
    return {"r": int(m.num_rows), "c": int(m.num_cols), "v": enc_tensor(m.values), "o": enc_tensor(m.offset)}


def raw_frame(tf):
    """The object as the model takes it: public attributes of the containers.  Python dicts compare
    regardless of insertion order (so does TensorFrame.__eq__): stypes and dict keys are listed sorted."""
    feats = []
    for st, feat in sorted(tf.feat_dict.items(), key=lambda p: p[0].value):
        k = kind_of(feat)
        if k == "dict":
            payload = [[name, raw_multi(m)] for name, m in sorted(feat.items())]
        elif k in ("nested", "embed"):
            payload = raw_multi(feat)
        elif k == "tensor":
            payload = enc_tensor(feat)
        else:
            payload = None
        feats.append([st.value, k, payload])
    return {"feats": feats, "names": names_of(tf),
            "y": None if tf.y is None else enc_tensor(tf.y),
            "num_rows": getattr(tf, "_num_rows", None)}


def names_of(tf):
    return [[st.value, list(v)] for st, v in sorted(tf.col_names_dict.items(), key=lambda p: p[0].value)]


def cells_api(m):
    """cells through the public API m[i, j]"""
    return [int(DT.get(m.dtype, 20)), int(m.num_rows), int(m.num_cols),
            [[enc_tensor(m[i, j])[2] for j in range(m.num_cols)] for i in range(m.num_rows)]]


def obs_frame(tf):
    """What a user sees: class, dtype, sizes, every cell; names; y; num_rows."""
    feats = []
    for st, feat in sorted(tf.feat_dict.items(), key=lambda p: p[0].value):
        k = kind_of(feat)
        if k == "dict":
            payload = [[name, cells_api(m)] for name, m in sorted(feat.items())]
        elif k in ("nested", "embed"):
            payload = cells_api(feat)
        elif k == "tensor":
            payload = enc_tensor(feat)
        else:
            payload = None
        feats.append([st.value, k, payload])
    return {"n": int(tf.num_rows), "feats": feats, "names": names_of(tf),
            "y": None if tf.y is None else enc_tensor(tf.y)}


def cells_from_raw(kind, m):
    """Independent plain-Python reading of a ragged container from its raw attributes."""
    vals, offs = m["v"][2], m["o"][2]
    r, c = m["r"], m["c"]
    if kind == "nested":
        return [[vals[offs[i * c + j]:offs[i * c + j + 1]] for j in range(c)] for i in range(r)]
    shape = m["v"][1]
    D = shape[1] if len(shape) > 1 else 0
    return [[vals[i * D:(i + 1) * D][offs[j]:offs[j + 1]] for j in range(c)] for i in range(r)]


def plain_frame(raw):
    """raw_frame -> the same shape as obs_frame, computed without the library."""
    feats = []
    for st, k, p in raw["feats"]:
        if k == "dict":
            q = [[name, [m["v"][0], m["r"], m["c"], cells_from_raw("nested", m)]] for name, m in p]
        elif k in ("nested", "embed"):
            q = [p["v"][0], p["r"], p["c"], cells_from_raw(k, p)]
        else:
            q = p
        feats.append([st, k, q])
    n = raw["num_rows"]
    if n is None:
        if not raw["feats"]:
            n = 0
        else:
            st, k, p = raw["feats"][0]
            n = p[0][1]["r"] if k == "dict" else (p["r"] if k in ("nested", "embed") else p[1][0])
    return {"n": n, "feats": feats, "names": raw["names"], "y": raw["y"]}


def typed(v):
    """A value with its container / scalar TYPES spelled out (tuple vs list, python float vs numpy scalar vs
    tensor, enum keys): what `==` on read_stats cannot see."""
    import enum
    import numpy as np
    if isinstance(v, torch.Tensor):
        return ["tensor", str(v.dtype), str(v.device), list(v.shape), enc_tensor(v)[2]]
    if isinstance(v, dict):
        return ["dict", sorted(([typed(k), typed(x)] for k, x in v.items()), key=lambda p: json.dumps(p[0]))]
    if isinstance(v, tuple):
        return ["tuple", [typed(x) for x in v]]
    if isinstance(v, list):
        return ["list", [typed(x) for x in v]]
    if isinstance(v, enum.Enum):
        return ["enum", type(v).__name__, v.name]
    if isinstance(v, np.ndarray):
        return ["ndarray", str(v.dtype), [typed(x) for x in v.tolist()]]
    if isinstance(v, np.generic):
        x = v.item()
        return ["numpy", type(v).__name__, G.fnum(x) if isinstance(x, float) else (x if isinstance(x, (int, str, bool)) else repr(x))]
    if isinstance(v, float):
        return ["float", G.fnum(v)]
    if v is None or isinstance(v, (bool, int, str)):
        return [type(v).__name__, v]
    return ["other", type(v).__module__ + "." + type(v).__name__, repr(v)]


def type_diff(a, b, where="col_stats"):
    """first place where two typed() values differ"""
    if a == b:
        return None
    if a[0] != b[0] or a[0] not in ("dict", "tuple", "list") or len(a[1]) != len(b[1]):
        return f"{where}: saved {json.dumps(a)[:120]} loaded {json.dumps(b)[:120]}"
    for x, y in zip(a[1], b[1]):
        if x != y:
            if a[0] == "dict":
                if x[0] != y[0]:
                    return f"{where}: key {json.dumps(x[0])} became {json.dumps(y[0])}"
                return type_diff(x[1], y[1], f"{where}[{x[0][-1]}]")
            return type_diff(x, y, where + "[.]")
    return where


def devices_of(tf):
    out = set()
    for feat in tf.feat_dict.values():
        for m in (feat.values() if isinstance(feat, dict) else [feat]):
            if isinstance(m, torch.Tensor):
                out.add(str(m.device))
            else:
                out.update((str(m.values.device), str(m.offset.device)))
    if tf.y is not None:
        out.add(str(tf.y.device))
    return sorted(out)


def stats_json(col_stats):
    return None if col_stats is None else G.read_stats(col_stats)


def digest(js):
    s = json.dumps(js, sort_keys=True, default=str)
    return int.from_bytes(hashlib.sha256(s.encode()).digest()[:7], "big")


# ------------------------------------------------------------------ running
TORCH_DT = {"float64": torch.float64, "float16": torch.float16, "bfloat16": torch.bfloat16, "float32": torch.float32,
            "int32": torch.int32, "uint8": torch.uint8, "bool": torch.bool, "int16": torch.int16, "int64": torch.int64}


class DtypeTextEmbedder(G.StubTextEmbedder):
    """stub embedder whose output is NOT float32 (values not representable in a narrower / wider dtype)"""
    def __init__(self, w, dtype):
        super().__init__(w)
        self.dtype = dtype

    def __call__(self, xs):
        out = super().__call__(xs).to(torch.float64) / 3.0 + 0.1
        return out.to(TORCH_DT[self.dtype])


class DtypeImageEmbedder(G.StubImageEmbedder):
    def __init__(self, w, dtype):
        super().__init__(w)
        self.dtype = dtype

    def forward_embed(self, images):
        out = super().forward_embed(images).to(torch.float64) / 3.0 + 0.1
        return out.to(TORCH_DT[self.dtype])


def build_ds(desc, df=None, **kw):
    """G.build_dataset with the columns' embedder output dtype honoured (`emb_dtype`)"""
    stubs = {}
    for c in desc["cols"]:
        if c.get("emb_dtype"):
            stubs[c["name"]] = (DtypeTextEmbedder(3, c["emb_dtype"]) if c["stype"] == "text_embedded"
                                else DtypeImageEmbedder(2, c["emb_dtype"]))
    return G.build_dataset(desc, df=df, stubs=stubs, **kw)


def materialized(desc, df=None):
    ds, _ = build_ds(desc, df=df)
    ds.materialize()
    return ds


def select(tf, part):
    if part["v"] == "slice":
        return tf[part["a"]:part["b"]]
    return tf[torch.tensor(part["idx"], dtype=torch.long)]


def featureless(v):
    n, y = v["n"], v["y"]
    yt = None if y is None else torch.tensor(y, dtype=torch.float32 if any(isinstance(x, float) for x in y)
                                             else torch.long).reshape(n)
    base = torch_frame.TensorFrame({}, {}, y=yt, num_rows=n)
    op = v["op"]
    if op["v"] == "whole":
        return base
    if op["v"] in ("slice", "index"):
        return select(base, op)
    if op["v"] == "catrows":
        return torch_frame.cat([select(base, p) for p in op["parts"]], dim=0)
    return torch_frame.cat([base, torch_frame.TensorFrame({}, {}, num_rows=n)], dim=1)


def apply_variant(case, ds):
    tf = ds.tensor_frame
    if case.get("explicit_rows"):
        tf = torch_frame.TensorFrame(tf.feat_dict, tf.col_names_dict, tf.y, num_rows=tf.num_rows)
    v = case["variant"]
    n = tf.num_rows
    if v["v"] == "whole":
        return tf
    if v["v"] in ("slice", "index"):
        return select(tf, v)
    if v["v"] == "slice2":
        return tf[v["a"]:][v["c"]:v["c"] + v["d"]]
    if v["v"] == "catrows":
        return torch_frame.cat([select(tf, p) for p in v["parts"]], dim=0)
    if v["v"] == "catself":
        return torch_frame.cat([tf, tf], dim=0)
    if v["v"] == "catcols":
        # two datasets over a split of the columns (the target stays in the first), re-joined column-wise
        desc = case["frame"]
        names = [c["name"] for c in desc["cols"] if c["name"] != desc["target"]]
        if len(names) < 2:
            return tf
        h = len(names) // 2
        df = G.build_df(desc)
        a = [c for c in df.columns if c in names[:h] or c == desc["target"]]
        b = [c for c in df.columns if c in names[h:]]
        d1 = dict(desc)
        d2 = dict(desc, target=None)
        ds1, _ = build_ds(d1, df=df[a])
        ds2, _ = build_ds(d2, df=df[b])
        ds1.materialize()
        ds2.materialize()
        return torch_frame.cat([ds1.tensor_frame, ds2.tensor_frame], dim=1)
    if v["v"] == "empty":
        if v["how"] == "slice":
            return tf[n:n]
        if v["how"] == "index":
            return tf[torch.tensor([], dtype=torch.long)]
        return tf[torch.zeros(n, dtype=torch.bool)]
    raise ValueError(v)


def handbuilt(v):
    """A TensorFrame built directly from tensors of ONE dtype for every feature kind and y (values that a cast
    to another floating dtype would change)."""
    from torch_frame import stype as ST
    dt, n = TORCH_DT[v["dtype"]], v["n"]

    def mk(shape, salt):
        k = 1
        for d in shape:
            k *= d
        base = (torch.arange(k, dtype=torch.float64) * 7 + salt) % 11
        t = (base / 3.0 + 0.1) if dt.is_floating_point else base
        return t.reshape(shape).to(dt)

    def mnt(nc, salt):
        lens = [(i * 3 + j + salt) % 3 for i in range(n) for j in range(nc)]
        off = torch.tensor([0] + list(__import__("itertools").accumulate(lens)), dtype=torch.long)
        return MultiNestedTensor(num_rows=n, num_cols=nc, values=mk([int(off[-1])], salt), offset=off)
    feats, names = {}, {}
    for k in v["kinds"]:
        if k == "numerical":
            feats[ST.numerical], names[ST.numerical] = mk([n, 2], 1), ["a", "b"]
        elif k == "categorical":
            feats[ST.categorical], names[ST.categorical] = mk([n, 1], 2), ["c"]
        elif k == "timestamp":
            feats[ST.timestamp], names[ST.timestamp] = mk([n, 1, 7], 3), ["t"]
        elif k == "multicategorical":
            feats[ST.multicategorical], names[ST.multicategorical] = mnt(2, 4), ["d", "e"]
        elif k == "sequence_numerical":
            feats[ST.sequence_numerical], names[ST.sequence_numerical] = mnt(1, 5), ["f"]
        elif k == "embedding":
            feats[ST.embedding] = MultiEmbeddingTensor(num_rows=n, num_cols=2, values=mk([n, 3], 6),
                                                       offset=torch.tensor([0, 1, 3]))
            names[ST.embedding] = ["h", "i"]
        elif k == "text_tokenized":
            feats[ST.text_tokenized] = {"input_ids": mnt(1, 7), "attention_mask": mnt(1, 8)}
            names[ST.text_tokenized] = ["j"]
    y = None if v.get("ydtype") is None else mk([n], 9).to(TORCH_DT[v["ydtype"]])
    tf = torch_frame.TensorFrame(feats, names, y=y)
    if v.get("rows") is not None:
        tf = tf[v["rows"][0]:v["rows"][1]]
    return tf


HAND_KINDS = ["numerical", "categorical", "timestamp", "multicategorical", "sequence_numerical", "embedding",
              "text_tokenized"]


def gen_handbuilt(rng, dtype=None, boundary=None):
    dtype = dtype or rng.pick(list(TORCH_DT))
    n = rng.pick([0, 1, 3, 4])
    kinds = HAND_KINDS if rng.chance(0.5) else rng.sample(HAND_KINDS, rng.randint(1, 4))
    v = {"v": "handbuilt", "dtype": dtype, "n": n, "kinds": kinds,
         "ydtype": rng.pick([None, dtype, "float64", "int64", "float16", "bool"]),
         "rows": None if n < 3 or rng.chance(0.6) else [1, 3]}
    c = {"kind": "saveload", "frame": {"n": n, "cols": [{"name": k, "stype": k} for k in kinds], "target": None,
                                       "index": "range", "col_order": list(kinds)},
         "variant": v, "with_stats": False, "device": gen_device(rng)}
    if boundary:
        c["boundary"] = boundary
    return c


def prepare(case):
    if case["variant"]["v"] == "handbuilt":
        return handbuilt(case["variant"]), None
    if case["variant"]["v"] == "featureless":
        return featureless(case["variant"]), ({} if case["with_stats"] else None)
    ds = materialized(case["frame"])
    return apply_variant(case, ds), (ds.col_stats if case["with_stats"] else None)


def save_load_once(case, tf, stats, p, keep=None):
    """torch_frame.save(tf, stats, p) -> torch_frame.load(p[, device]); everything a user can read, before/after"""
    obs = {"raw": raw_frame(tf), "pre": obs_frame(tf), "pre_tf": G.read_tf(tf), "pre_stats": stats_json(stats),
           "pre_typed": typed(stats), "pre_devices": devices_of(tf),
           "file_before": os.path.getsize(p) if os.path.isfile(p) else None}
    try:
        torch_frame.save(tf, stats, p)
    except Exception as ex:
        obs.update(ok=False, stage="save", exc=C.exc_name(ex), msg=str(ex)[:300])
        return obs
    obs["file_len"] = os.path.getsize(p)
    obs["src_after_save"] = obs_frame(tf) == obs["pre"]
    dev = case.get("device")
    try:
        tf2, stats2 = torch_frame.load(p) if dev is None else torch_frame.load(p, device=dev_of(dev))
    except Exception as ex:
        obs.update(ok=False, stage="load", exc=C.exc_name(ex), msg=str(ex)[:300])
        return obs
    if keep is not None:
        keep.append(tf2)
    obs.update(ok=True, post=obs_frame(tf2), post_raw=raw_frame(tf2), post_tf=G.read_tf(tf2),
               post_stats=stats_json(stats2), post_typed=typed(stats2), post_devices=devices_of(tf2),
               eq_lr=bool(tf == tf2), eq_rl=bool(tf2 == tf), stats_none=stats2 is None)
    return obs


def run_saveload(case):
    try:
        tf, stats = prepare(case)
    except Exception as ex:   # not C11's business (C01 / C07 / C08 own these steps)
        return {"skip": f"preparation raised {C.exc_name(ex)}: {str(ex)[:200]}"}
    p = fresh_path("sl")
    try:
        return save_load_once(case, tf, stats, p)
    finally:
        rm(p)


def apply_op(tf, op):
    """a row operation of a generation, positions taken modulo the current number of rows"""
    n = tf.num_rows
    if op["v"] == "catself":
        return torch_frame.cat([tf, tf], dim=0)
    if op["v"] == "slice":
        a = op["a"] % (n + 1)
        return tf[a:a + op["b"] % (n - a + 1)]
    return tf[torch.tensor([i % n for i in op["idx"]] if n else [], dtype=torch.long)]


def run_gens(case):
    """generations: select from the LOADED frame, save, load, select from that, ... -- next to the same chain
    of selections that never touches the disk"""
    try:
        tf, stats = prepare(case)
    except Exception as ex:
        return {"skip": f"preparation raised {C.exc_name(ex)}: {str(ex)[:200]}"}
    p = fresh_path("g")
    obs = {"steps": []}
    pure = cur = tf
    try:
        for j, op in enumerate(case["ops"]):
            try:
                pure = apply_op(pure, op)
            except Exception as ex:
                obs["stopped"] = f"the selection itself raises ({C.exc_name(ex)}): C07's business"
                break
            try:
                sel = apply_op(cur, op)
            except Exception as ex:
                obs["steps"].append({"ok": False, "stage": "select-of-loaded", "exc": C.exc_name(ex), "msg": str(ex)[:300]})
                break
            keep = []
            o = save_load_once({"device": case["devices"][j % len(case["devices"])]}, sel, stats, p, keep)
            o["sel_same"] = obs_frame(sel) == obs_frame(pure) and raw_frame(sel)["num_rows"] == raw_frame(pure)["num_rows"]
            o["pure"] = obs_frame(pure)
            obs["steps"].append(o)
            if not o["ok"]:
                break
            cur = keep[0]
        return obs
    finally:
        rm(p)


def small_frame():
    return handbuilt({"dtype": "float32", "n": 3, "kinds": ["numerical", "multicategorical", "embedding"],
                      "ydtype": "int64"})


CRAFTED = ["old-format-no-num_rows", "dense-stype-given-dict", "mnt-offset-too-short", "mnt-missing-key", "met-as-mnt",
           "names-keys-mismatch", "y-length-mismatch", "payload-not-a-pair"]
MALFORMED = ["numerical-holds-mnt", "multicategorical-holds-tensor", "tokenized-holds-mnt"]


def run_crafted(case):
    """a file written with torch.save directly: the current format minus a key (must load), or an inconsistent
    payload (load must raise or at least never hand back an inconsistent frame)"""
    from torch_frame import stype as ST
    from torch_frame.utils.io import serialize_feat_dict
    tf = small_frame()
    d = {"y": tf.y, "col_names_dict": {k: list(v) for k, v in tf.col_names_dict.items()},
         "feat_serialized_dict": serialize_feat_dict(tf.feat_dict), "num_rows": None}
    ser = d["feat_serialized_dict"]
    w = case["what"]
    payload = (d, None)
    if w == "old-format-no-num_rows":
        del d["num_rows"]
    elif w == "dense-stype-given-dict":
        ser[ST.numerical] = dict(ser[ST.multicategorical])
    elif w == "mnt-offset-too-short":
        ser[ST.multicategorical] = dict(ser[ST.multicategorical], offset=ser[ST.multicategorical]["offset"][:-2])
    elif w == "mnt-missing-key":
        ser[ST.multicategorical] = {k: v for k, v in ser[ST.multicategorical].items() if k != "num_cols"}
    elif w == "met-as-mnt":
        ser[ST.embedding] = dict(ser[ST.multicategorical])
    elif w == "names-keys-mismatch":
        del d["col_names_dict"][ST.embedding]
    elif w == "y-length-mismatch":
        d["y"] = tf.y[:-1]
    elif w == "payload-not-a-pair":
        payload = d
    p = fresh_path("cr")
    obs = {"expected": obs_frame(tf)}

    def tree(v):
        if isinstance(v, torch.Tensor):
            return {"t": "tensor", "v": enc_tensor(v)}
        if isinstance(v, dict):
            return {"t": "dict", "v": [[k, tree(x)] for k, x in v.items()]}
        return {"t": "int", "v": int(v)}
    if payload is not d:
        obs["payload"] = {"y": None if d["y"] is None else enc_tensor(d["y"]),
                          "names": sorted([k.value, list(v)] for k, v in d["col_names_dict"].items()),
                          "ser": sorted(([k.value, tree(v)] for k, v in ser.items()), key=lambda kv: kv[0]),
                          "num_rows": d.get("num_rows")}
    try:
        torch.save(payload, p)
        try:
            tf2, st2 = torch_frame.load(p)
        except Exception as ex:
            obs.update(raised=True, exc=C.exc_name(ex), msg=str(ex)[:200])
            return obs
        obs["raised"] = False
        try:
            tf2.validate()
            o2 = obs_frame(tf2)
            rows = {p_[1] if k in ("nested", "embed") else (p_[1][0] if k == "tensor" else None)
                    for _, k, p_ in o2["feats"] if k != "dict"}
            obs.update(consistent=rows <= {o2["n"]}, got=o2, got_stats=stats_json(st2))
        except Exception as ex:
            obs.update(consistent=False, why=C.exc_name(ex) + ": " + str(ex)[:200])
        return obs
    finally:
        rm(p)


def oracle_crafted(case, obs):
    w = case["what"]
    if w == "old-format-no-num_rows":
        if obs["raised"]:
            return None        # nothing in the statement demands that files of an older layout keep loading
        if obs.get("got") != obs["expected"]:
            return dict(key="crafted:old-format-differs", what="a cache file without the 'num_rows' key loads to a "
                        "different frame", expected=obs["expected"], observed=obs.get("got"))
        return None
    if not obs["raised"] and not obs["consistent"]:
        return dict(key="crafted:inconsistent-frame", what=f"torch_frame.load of an inconsistent payload ({w}) did not "
                    f"raise and handed back a frame that is not consistent with itself ({obs.get('why', 'row counts')})",
                    expected="raise", observed=obs.get("got"))
    return None


def run_malformed(case):
    """a frame whose stype holds the wrong container class: save/load may raise, never change the data silently"""
    from torch_frame import stype as ST
    tf = small_frame()
    mnt, dense = tf.feat_dict[ST.multicategorical], tf.feat_dict[ST.numerical]
    w = case["what"]
    if w == "numerical-holds-mnt":
        bad = torch_frame.TensorFrame({ST.numerical: mnt}, {ST.numerical: ["d", "e"]})
    elif w == "multicategorical-holds-tensor":
        bad = torch_frame.TensorFrame({ST.multicategorical: dense}, {ST.multicategorical: ["a", "b"]})
    else:
        bad = torch_frame.TensorFrame({ST.text_tokenized: mnt}, {ST.text_tokenized: ["d", "e"]})
    p = fresh_path("mf")
    try:
        pre = obs_frame(bad)
        try:
            torch_frame.save(bad, None, p)
            tf2, _ = torch_frame.load(p)
        except Exception as ex:
            return {"raised": True, "exc": C.exc_name(ex)}
        return {"raised": False, "same": obs_frame(tf2) == pre, "pre": pre, "post": obs_frame(tf2)}
    finally:
        rm(p)


def oracle_malformed(case, obs):
    if not obs["raised"] and not obs["same"]:
        return dict(key="malformed:silently-different", what=f"a frame whose stype holds the wrong container "
                    f"({case['what']}) was saved and loaded without an error but came back different",
                    expected=obs["pre"], observed=obs["post"])
    return None


def run_reuse(case):
    """all steps save onto the SAME path (never removed in between)"""
    try:
        prepared = [prepare(st) for st in case["steps"]]
    except Exception as ex:
        return {"skip": f"preparation raised {C.exc_name(ex)}: {str(ex)[:200]}"}
    p = fresh_path("ru")
    obs = {"steps": []}
    try:
        for st, (tf, stats) in zip(case["steps"], prepared):
            o = save_load_once(st, tf, stats, p)
            obs["steps"].append(o)
            if not o["ok"]:
                break
        return obs
    finally:
        rm(p)


def resolve_k(spec, length):
    if spec["t"] == "abs":
        return min(spec["v"], length)
    if spec["t"] == "end":
        return max(0, length - spec["v"])
    if spec["t"] == "frac":
        return min(length - 1, max(0, (length * spec["v"]) // 1000))
    return length


def file_state(path, fresh_obs, fresh_stats):
    if not os.path.isfile(path):
        return "absent"
    try:
        tf, st = torch_frame.load(path)
    except Exception:
        return "corrupt"
    if obs_frame(tf) == fresh_obs and stats_json(st) == fresh_stats:
        return "complete"
    return "other"


def conv_df(df, ev):
    """rows of df by position (taken modulo its length: tables change size along a history)"""
    d2 = df.iloc[[r % len(df) for r in ev["rows"]]].copy()
    if ev["shift"] and len(d2) > 1:
        import pandas as pd
        for j, col in enumerate(list(d2.columns)):
            vals = list(d2[col])
            s = j % len(vals)
            vals = vals[s:] + vals[:s]
            d2[col] = pd.Series(vals, index=d2.index, dtype=d2[col].dtype)
    return d2


def file_sha(path):
    if not os.path.isfile(path):
        return None
    with open(path, "rb") as f:
        return hashlib.sha256(f.read()).hexdigest()


def other_table(df, ev):
    """new data of the same schema: a re-drawn, column-wise shifted selection of the rows"""
    d2 = conv_df(df, {"rows": ev["rows"], "shift": ev["shift"]})
    return d2.reset_index(drop=True)


def derive(ds, op):
    n = len(ds)
    if op["t"] == "slice":
        return ds[:op["k"] % (n + 1)]
    if op["t"] == "shuffle":
        return ds.shuffle()
    return ds.index_select(torch.tensor([i % n for i in op["idx"]], dtype=torch.long))


def reorder_target(stats, desc, train_df, order):
    """Statistics a user supplies need not list a categorical target's classes in sorted order (materialize sorts
    a BINARY target's classes only when it computes the statistics itself): reversed, or raw from compute_col_stats."""
    from torch_frame.data.stats import StatType, compute_col_stats
    t = desc["target"]
    if order is None or t is None or StatType.COUNT not in stats.get(t, {}):
        return stats
    if order == "raw":
        stats[t] = compute_col_stats(train_df[t], torch_frame.categorical)
    else:
        idx, val = stats[t][StatType.COUNT]
        stats[t][StatType.COUNT] = (list(idx)[::-1], list(val)[::-1])
    return stats


def force_target(desc, classes):
    """a categorical target with exactly these classes; the LAST class is the most frequent one, so that
    frequency order, sorted order and reversed order all differ where they can"""
    n = desc["n"]
    cells = [classes[i] if i < len(classes) - 1 else classes[-1] for i in range(n)]
    cols = [c for c in desc["cols"] if c["name"] != desc["target"]]
    cols.append({"name": "tgt", "stype": "categorical", "dtype": "object", "sep": None, "fmt": None, "width": None,
                 "cells": cells, "nan_kind": "none"})
    return dict(desc, cols=cols, target="tgt",
                col_order=[x for x in desc["col_order"] if x != desc["target"] and x != "tgt"] + ["tgt"])


class Ref:
    """The table the cache path currently stands for -- and, when the history materializes with statistics
    SUPPLIED by the user (`materialize(col_stats=...)`, e.g. the training set's), those statistics -- with its
    fresh computation (same keyword arguments, no path involved)."""
    def __init__(self, desc, df, refs, supplied=None):
        self.desc, self.df, self.supplied = desc, df, supplied
        self.fresh = build_ds(desc, df=df)[0]
        self.fresh.materialize(**self.kw())
        self.obs, self.stats = obs_frame(self.fresh.tensor_frame), stats_json(self.fresh.col_stats)
        self.id = len(refs)
        refs.append({"raw": raw_frame(self.fresh.tensor_frame), "obs": self.obs, "stats": self.stats,
                     "typed": typed(self.fresh.col_stats), "supplied": supplied is not None})

    def kw(self):
        # a private copy each time: materialize keeps (and _update_col_stats mutates) the dict it is given
        return {} if self.supplied is None else {"col_stats": copy.deepcopy(self.supplied)}

    def new(self):
        return build_ds(self.desc, df=self.df)[0]


def run_history(case):
    desc = case["frame"]
    obs = {"refs": [], "steps": []}
    try:
        df0 = G.build_df(desc)
        supplied = None
        if case.get("supplied_first") is not None:     # statistics of a "training" dataset over another table
            train_df = other_table(df0, case["supplied_first"])
            supplied = reorder_target(copy.deepcopy(materialized(desc, df=train_df).col_stats), desc, train_df,
                                      case["supplied_first"].get("order"))
        ref = Ref(desc, df0, obs["refs"], supplied)
    except Exception as ex:
        return {"skip": f"preparation raised {C.exc_name(ex)}: {str(ex)[:200]}"}
    path, path2 = fresh_path("h"), fresh_path("h2")
    cur = ref.new()

    def observe(st, ds, call):
        try:
            call()
            st.update(ok=True, tf=obs_frame(ds.tensor_frame), stats=stats_json(ds.col_stats),
                      typed=typed(ds.col_stats), devices=devices_of(ds.tensor_frame))
        except Exception as ex:
            st.update(ok=False, exc=C.exc_name(ex), msg=str(ex)[:200], still_unmaterialized=not ds.is_materialized)

    try:
        for i, ev in enumerate(case["events"]):
            before = file_state(path, ref.obs, ref.stats)
            st = {"before": before, "ref_before": ref.id}
            if ev["e"] in ("mat", "new"):
                if ev["e"] == "new":
                    cur = ref.new()
                kw = dict(ref.kw(), **({} if ev.get("device") is None else {"device": dev_of(ev["device"])}))
                st["cur_was_materialized"] = bool(cur.is_materialized)
                observe(st, cur, lambda: cur.materialize(path=path if ev["path"] else None, **kw))
            elif ev["e"] == "newdf":
                # only meaningful when there is a cache to restore from (without one the other table
                # would legitimately become the cache's content)
                if before == "absent":
                    st["skipped"] = "no cache file"
                else:
                    sha = file_sha(path)
                    cur = build_ds(desc, df=other_table(ref.df, ev))[0]
                    observe(st, cur, lambda: cur.materialize(path=path, **ref.kw()))
                    if not st["ok"]:
                        cur = ref.new()
                    st["file_unchanged"] = file_sha(path) == sha
            elif ev["e"] == "rewrite":
                # the cache path is given to ANOTHER table: the old file is removed (or overwritten by a
                # complete file written elsewhere) -- from here on the path stands for the other table
                try:
                    # optionally the other table is materialized with the statistics of the table before it
                    sup = (reorder_target(copy.deepcopy(ref.fresh.col_stats), desc, ref.df, ev.get("order"))
                           if ev.get("supplied") else None)
                    ref2 = Ref(desc, other_table(ref.df, ev), obs["refs"], sup)
                except Exception as ex:
                    st["skipped"] = f"other table does not materialize: {C.exc_name(ex)}"
                    ref2 = None
                if ref2 is not None:
                    ref = ref2
                    if ev["how"] == "remove":
                        rm(path)
                        cur = ref.new()
                        observe(st, cur, lambda: cur.materialize(path=path, **ref.kw()))
                    elif ev["how"] == "save":
                        # torch_frame.save of the other table's frame straight onto the existing cache file
                        w = ref.fresh
                        observe(st, w, lambda: torch_frame.save(w.tensor_frame, w.col_stats, path))
                        cur = ref.new()
                    else:
                        w = ref.new()
                        observe(st, w, lambda: w.materialize(path=path2, **ref.kw()))
                        if st["ok"] and not os.path.isfile(path2):
                            st["writer_wrote_no_file"] = True
                            rm(path)           # the old file must not pass for the new table's cache
                        elif st["ok"]:
                            with open(path2, "rb") as f:
                                data = f.read()
                            with open(path, "wb") as f:           # overwrite in place
                                f.write(data)
                        rm(path2)
                        cur = ref.new()
            elif ev["e"] == "badstats":
                # materialize(path, col_stats=<statistics lacking a column / a required statistic>): the current
                # code raises; the statement demands nothing here, so either a raise or a self-consistent result
                if before != "absent":
                    st["skipped"] = "a cache file exists (the statistics argument is then ignored)"
                else:
                    from torch_frame.data.stats import StatType
                    bad = copy.deepcopy(ref.fresh.col_stats)
                    cols = [c for c in bad if StatType.stats_for_stype(ref.fresh.col_to_stype[c])]
                    if ev["drop"] == "statkey" and cols:
                        c0 = cols[0]
                        del bad[c0][StatType.stats_for_stype(ref.fresh.col_to_stype[c0])[0]]
                    else:
                        del bad[next(iter(bad))]
                    d = ref.new()
                    try:
                        d.materialize(path=path, col_stats=copy.deepcopy(bad))
                        st.update(ok=True, tf=obs_frame(d.tensor_frame), stats=stats_json(d.col_stats))
                        # accepted: then the cache must hold exactly what this call returned, and the same
                        # call without a path must return the same
                        st["file"] = file_state(path, st["tf"], st["stats"])
                        d0 = ref.new()
                        try:
                            d0.materialize(col_stats=copy.deepcopy(bad))
                            st["same_without_path"] = (obs_frame(d0.tensor_frame) == st["tf"] and
                                                       stats_json(d0.col_stats) == st["stats"])
                        except Exception as ex:
                            st["without_path_raises"] = C.exc_name(ex)
                    except Exception as ex:
                        st.update(ok=False, exc=C.exc_name(ex))
                    st.update(materialized_after=bool(d.is_materialized), file_after=os.path.isfile(path))
                    rm(path)
            elif ev["e"] == "cut":
                # the complete file is cut short IN PLACE (it may have been loaded before); the process restarts
                if before != "complete":
                    st["skipped"] = "no complete cache file"
                else:
                    length = os.path.getsize(path)
                    k = resolve_k(ev["k"], length)
                    os.truncate(path, k)
                    st.update(len=length, k=k)
                    cur = ref.new()
            elif ev["e"] == "derived":
                # With no file yet, a derived dataset would WRITE the cache: its row subset plus the parent's
                # statistics.  That path then belongs to other rows than its later readers' table -- a
                # foreign cache, outside the property's quantifier (see ASSUMPTIONS); the event is skipped.
                if before == "absent" or not cur.is_materialized:
                    st["skipped"] = "no cache file" if before == "absent" else "live dataset not materialized"
                else:
                    sha = file_sha(path)
                    try:
                        d = derive(cur, ev["op"])
                        pre = obs_frame(d.tensor_frame)
                    except Exception as ex:     # selection of datasets is C09's business
                        st["skipped"] = f"derivation raised {C.exc_name(ex)}"
                        d = None
                    if d is not None:
                        try:
                            kw = dict(ref.kw(), **({} if ev.get("device") is None else {"device": dev_of(ev["device"])}))
                            d.materialize(path=path if ev.get("path", True) else None, **kw)
                            st.update(ok=True, own_frame_kept=obs_frame(d.tensor_frame) == pre,
                                      derived_rows=pre["n"])
                        except Exception as ex:
                            st.update(ok=False, exc=C.exc_name(ex), msg=str(ex)[:200])
                        st["file_unchanged"] = file_sha(path) == sha
            elif ev["e"] == "crash":
                try:
                    cur.materialize(path=path, **ref.kw())
                    st["raised"] = False
                except Exception as ex:
                    st.update(raised=True, exc=C.exc_name(ex))
                st["saved"] = before == "absent" and os.path.isfile(path)
                if st["saved"]:
                    length = os.path.getsize(path)
                    k = resolve_k(ev["k"], length)
                    os.truncate(path, k)
                    st.update(len=length, k=k)
                cur = ref.new()                              # the process is gone
            else:
                d2 = conv_df(ref.df, ev)
                st["cur_was_materialized"] = bool(cur.is_materialized)
                try:
                    want = G.read_tf(ref.fresh.convert_to_tensor_frame(d2))
                except Exception as ex:
                    st["fresh_raises"] = C.exc_name(ex)
                    want = None
                try:
                    got = G.read_tf(cur.convert_to_tensor_frame(d2))
                    st.update(ok=True, same=(got == want))
                    if got != want:
                        st.update(got=got, want=want)
                except Exception as ex:
                    st.update(ok=False, exc=C.exc_name(ex), msg=str(ex)[:200])
            st["ref"] = ref.id
            st["after"] = file_state(path, ref.obs, ref.stats)
            obs["steps"].append(st)
    finally:
        rm(path, path2)
    return obs


ZIP_SIGS = (b"PK\x03\x04", b"PK\x01\x02", b"PK\x05\x06", b"PK\x06\x06", b"PK\x06\x07", b"PK\x07\x08")


def zip_boundaries(b):
    out = set()
    for sig in ZIP_SIGS:
        i = b.find(sig)
        while i >= 0:
            out.update((i - 1, i, i + 1, i + 4))
            i = b.find(sig, i + 1)
    return {k for k in out if 0 <= k < len(b)}


def trunc_points(case, b):
    n = len(b)
    if case["ks"] == "all":
        return list(range(n))
    rng = C.Rng(case["seed"])
    ks = {0, 1, 2, n - 1, n - 2, n - 22, n - 23, n // 2} & set(range(n))
    for sig in ZIP_SIGS:                          # every kind of zip record present: its first and last occurrence
        for i in (b.find(sig), b.rfind(sig)):
            if i >= 0:
                ks.update(k for k in (i - 1, i, i + 1) if 0 <= k < n)
    zb = sorted(zip_boundaries(b))
    rng.shuffle(zb)
    ks.update(zb[:16])
    strata = 64 - len(ks)
    for s in range(strata):                      # one point per stratum of the remaining budget
        lo, hi = (n * s) // strata, max((n * (s + 1)) // strata - 1, (n * s) // strata)
        ks.add(rng.randint(lo, hi))
    return sorted(k for k in ks if 0 <= k < n)


def run_trunc(case):
    desc = case["frame"]
    src = case.get("source")          # a frame written by torch_frame.save directly instead of a Dataset's cache
    try:
        if src is not None:
            tf0 = featureless(src)
            f_obs, f_stats = obs_frame(tf0), stats_json({})
        else:
            df = G.build_df(desc)
            fresh = materialized(desc, df=df)
            f_obs, f_stats = obs_frame(fresh.tensor_frame), stats_json(fresh.col_stats)
    except Exception as ex:
        return {"skip": f"preparation raised {C.exc_name(ex)}: {str(ex)[:200]}"}
    p, q = fresh_path("t"), fresh_path("tq")
    obs = {}
    try:
        try:
            if src is not None:
                torch_frame.save(tf0, {}, p)
            else:
                build_ds(desc, df=df)[0].materialize(path=p)
        except Exception as ex:
            return {"ok": False, "exc": C.exc_name(ex), "msg": str(ex)[:300]}
        if not os.path.isfile(p):
            return {"ok": False, "exc": "no-file", "msg": "materialize(path) wrote no file"}
        b = open(p, "rb").read()
        ks = trunc_points(case, b)
        nb = len(b)
        zb = zip_boundaries(b)
        obs.update(ok=True, len=len(b), tried=len(ks),
                   special={"0": 0 in ks, "1": 1 in ks, "2": 2 in ks, "len-1": nb - 1 in ks, "len-2": nb - 2 in ks,
                            "len-22": nb - 22 in ks, "len-23": nb - 23 in ks,
                            "zip-records": len(zb & set(ks)),
                            "zip-kinds-present": sorted(sig.hex() for sig in ZIP_SIGS if sig in b),
                            "zip-kinds-hit": sorted(sig.hex() for sig in ZIP_SIGS
                                                    if sig in b and {b.find(sig) - 1, b.find(sig), b.find(sig) + 1} <=
                                                    (set(ks) | {-1}))},
                   control=file_state(p, f_obs, f_stats), load_returned=[],
                   mat_returned=[], exc_types={})
        for k in ks:
            with open(q, "wb") as f:
                f.write(b[:k])
            try:
                tf, st = torch_frame.load(q)
                obs["load_returned"].append({"k": k, "complete": obs_frame(tf) == f_obs and stats_json(st) == f_stats})
            except Exception as ex:
                nm = C.exc_name(ex)
                obs["exc_types"][nm] = obs["exc_types"].get(nm, 0) + 1
        rng = C.Rng(case["seed"] + 1)
        if src is not None:
            obs["mat_tried"] = 0
            return obs
        mks = sorted(set(rng.sample(ks, min(case["mat_ks"], len(ks))) + [ks[0], ks[-1]]))
        obs["mat_tried"] = len(mks)
        n = desc["n"]
        df2 = other_table(df, {"rows": [rng.randint(0, n - 1) for _ in range(max(2, n))], "shift": True})
        for j, k in enumerate(mks):
            with open(q, "wb") as f:
                f.write(b[:k])
            other = j % 2 == 1                    # new data: a silent recomputation shows as different statistics
            ds = build_ds(desc, df=df2 if other else df)[0]
            try:
                ds.materialize(path=q)
                obs["mat_returned"].append({"k": k, "other_table": other,
                                            "complete": obs_frame(ds.tensor_frame) == f_obs and
                                            stats_json(ds.col_stats) == f_stats})
            except Exception:
                if ds.is_materialized:
                    obs["mat_returned"].append({"k": k, "complete": False, "raised_but_materialized": True})
        return obs
    finally:
        rm(p, q)


def run(case):
    torch.manual_seed(0)
    if case["kind"] == "saveload":
        return run_saveload(case)
    if case["kind"] == "reuse":
        return run_reuse(case)
    if case["kind"] == "gens":
        return run_gens(case)
    if case["kind"] == "crafted":
        return run_crafted(case)
    if case["kind"] == "malformed":
        return run_malformed(case)
    if case["kind"] == "history":
        return run_history(case)
    return run_trunc(case)


# ------------------------------------------------------------------ oracle
def frame_diff(a, b):
    """first differing part of two obs_frame / read_tf values"""
    for k in a:
        if a[k] != b.get(k):
            return k
    return None


def oracle_saveload(case, obs):
    v = case["variant"]["v"]
    if not obs["ok"]:
        return dict(key=f"{obs['stage']}-raises", what=f"torch_frame.{obs['stage']} raised {obs['exc']}: {obs['msg']} "
                    f"on a {v} frame", expected="round trip", observed=obs["exc"])
    # the harness's two readings of the source agree (library indexing vs plain offsets): else C05 territory
    if plain_frame(obs["raw"]) != obs["pre"]:
        return dict(key="harness-readers-disagree", what="plain reading of the source frame differs from feat[i, j]",
                    expected=plain_frame(obs["raw"]), observed=obs["pre"])
    if not obs["src_after_save"]:
        return dict(key="source-modified", what="torch_frame.save modified the frame it saved")
    d = frame_diff(obs["pre_tf"], obs["post_tf"])
    if d is not None:
        return dict(key=f"frame-differs:{d}", what=f"loaded frame differs from the saved {v} frame in {d}",
                    expected=obs["pre_tf"], observed=obs["post_tf"])
    d = frame_diff(obs["pre"], obs["post"])
    if d is not None:
        return dict(key=f"frame-differs:{d}", what=f"loaded frame differs from the saved {v} frame in {d} "
                    "(class / dtype / cells)", expected=obs["pre"], observed=obs["post"])
    if plain_frame(obs["post_raw"]) != obs["pre"]:
        return dict(key="frame-differs:raw", what="loaded containers, read from their raw values/offset, differ from "
                    "the saved frame", expected=obs["pre"], observed=plain_frame(obs["post_raw"]))
    if not (obs["eq_lr"] and obs["eq_rl"]):
        return dict(key="tf-neq", what=f"tf == load(save(tf)) is False for a {v} frame",
                    expected=True, observed=[obs["eq_lr"], obs["eq_rl"]])
    if obs["pre_stats"] != obs["post_stats"]:
        return dict(key="stats-differ", what="loaded col_stats differ from the saved ones",
                    expected=obs["pre_stats"], observed=obs["post_stats"])
    dev = case.get("device")
    if obs["pre_typed"] != obs["post_typed"]:
        return dict(key="stats-types-differ",
                    what=f"torch_frame.load(path{'' if dev is None else ', device=' + dev}) returned col_stats equal in "
                         f"value but not in type: {type_diff(obs['pre_typed'], obs['post_typed'])}",
                    expected=obs["pre_typed"], observed=obs["post_typed"])
    if obs["post_devices"] != obs["pre_devices"]:
        return dict(key="device-differs", what=f"loaded tensors live on {obs['post_devices']}, saved ones on "
                    f"{obs['pre_devices']}", expected=obs["pre_devices"], observed=obs["post_devices"])
    return None


def oracle_gens(case, obs):
    for j, o in enumerate(obs["steps"]):
        if o.get("stage") == "select-of-loaded":
            return dict(key="gens:selection-of-loaded-raises", what=f"generation {j + 1}: {case['ops'][j]} applied to the "
                        f"LOADED frame raised {o['exc']} ({o['msg']}) where the same selection of the never-saved frame works")
        if not o["sel_same"]:
            return dict(key="gens:selection-of-loaded-differs",
                        what=f"generation {j + 1}: {case['ops'][j]} applied to the frame loaded the generation before "
                             "differs from the same selection of the frame that was never saved",
                        expected=o["pure"], observed=o["pre"])
        f = oracle_saveload({"variant": {"v": f"generation-{j + 1}"}, "device": case["devices"][j % len(case["devices"])]}, o)
        if f is not None:
            f["key"] = "gens:" + f["key"]
            f["what"] = f"generation {j + 1} of {len(case['ops'])} ({case['ops'][j]}): " + f["what"]
            return f
    return None


def oracle_reuse(case, obs):
    sizes = []
    for j, (st, o) in enumerate(zip(case["steps"], obs["steps"])):
        f = oracle_saveload(st, o)
        if f is not None:
            f["key"] = "reuse:" + f["key"]
            f["what"] = (f"save #{j + 1} onto one and the same path (file had {o['file_before']} bytes before, earlier "
                         f"files {sizes}): " + f["what"])
            return f
        sizes.append(o.get("file_len"))
    if len(obs["steps"]) != len(case["steps"]):
        return dict(key="reuse:short-run", what="run stopped early")
    return None


def oracle_history(case, obs):
    f = oracle_history_events(case, obs)
    if f is not None:
        return f
    for i, (ev, st) in enumerate(zip(case["events"], obs["steps"])):
        if "other" in (st["before"], st["after"]):
            return dict(key="hist:cache-file-differs", what=f"after event {i} the cache file loads to something else "
                        "than the fresh computation", event=ev)
    return None


def oracle_history_events(case, obs):
    mat = False                     # reference automaton: is the live object materialized
    for i, (ev, st) in enumerate(zip(case["events"], obs["steps"])):
        before, after = st["before"], st["after"]
        if "skipped" in st:
            continue
        fresh = obs["refs"][st["ref"]]     # the table the cache path stands for at this event
        if ev["e"] == "badstats":
            # NOT backed by the statement as a must-raise: a raise is fine; an accepted call must be self-consistent
            # ("materializing with a cache path writes such a file ... same TensorFrame and statistics")
            if st["ok"] and (st["file"] != "complete" or st.get("same_without_path") is False):
                return dict(key="hist:incomplete-supplied-stats-inconsistent",
                            what=f"event {i}: materialize(path, col_stats=<statistics lacking a {ev['drop']}>) returned "
                                 f"normally but its cache file is {st['file']} w.r.t. what it returned"
                                 f"{'' if st.get('same_without_path') is not False else ' and the same call without a path returns other data'}",
                            event=ev)
            continue
        if ev["e"] == "cut":
            mat = False
            if st["k"] < st["len"] and after != "corrupt":
                return dict(key="hist:cut-file-loads", what=f"event {i}: the cache file cut in place at {st['k']} of "
                            f"{st['len']} bytes is {after} (torch_frame.load accepts a strict prefix)", event=ev)
            continue
        if ev["e"] == "rewrite":
            # the path now belongs to another table; the writer computes from scratch
            if not st["ok"]:
                return dict(key="hist:materialize-raises:rewrite", what=f"event {i}: materialize(path) of a dataset over "
                            f"another table, with no file at its path, raised {st['exc']} ({st['msg']})", event=ev)
            if st["tf"] != fresh["obs"] or st["stats"] != fresh["stats"]:
                return dict(key="hist:stale-after-rewrite", what=f"event {i}: after the old cache file was removed, "
                            "materialize(path) of a dataset over another table returned data that differs from its own "
                            "fresh computation", expected={"tf": fresh["obs"], "stats": fresh["stats"]},
                            observed={"tf": st["tf"], "stats": st["stats"]}, event=ev)
            if after != "complete":
                sup = " (materialize(path, col_stats=<supplied statistics>))" if fresh.get("supplied") else ""
                return dict(key="hist:no-file-written" + (":supplied-stats" if sup else ""),
                            what=f"event {i}: after the rewrite{sup} the cache file is {after}", event=ev)
            mat = ev["how"] == "remove"
            continue
        if ev["e"] == "derived":
            if not st["file_unchanged"]:
                return dict(key="hist:derived-overwrote-cache",
                            what=f"event {i}: a derived dataset ({ev['op']}, {st.get('derived_rows')} rows) called "
                                 f"materialize(path) and the existing cache file ({before}) was rewritten; it is now "
                                 f"{after}", expected="file untouched", observed=after, event=ev)
            if not st["ok"]:
                continue           # derived datasets are outside the statement: refusing to cache them is acceptable
            if not st["own_frame_kept"]:
                return dict(key="hist:derived-frame-replaced", what=f"event {i}: materialize(path) replaced the frame "
                            "of an already materialized derived dataset", event=ev)
            continue
        if ev["e"] in ("mat", "new", "newdf"):
            if ev["e"] in ("new", "newdf"):
                mat = False
            path_given = True if ev["e"] == "newdf" else ev["path"]
            uses_file = path_given and not mat and before != "absent"
            if uses_file and before == "corrupt":
                # a cache file cut short raises an error -- never partial data, never a silent recomputation
                if st["ok"]:
                    same = st["tf"] == fresh["obs"] and st["stats"] == fresh["stats"]
                    return dict(key="hist:no-raise-on-cut-cache",
                                what=f"event {i} {ev['e']}: materialize(path) on a cache file cut short did not raise; it "
                                     f"returned data that {'equals' if same else 'DIFFERS from'} the fresh computation "
                                     f"of the cached table and left the file {after}",
                                expected="raise", observed={"tf": st["tf"], "stats": st["stats"]}, event=ev)
                if not st.get("still_unmaterialized", True):
                    return dict(key="hist:raise-but-materialized", what=f"event {i}: materialize raised on the cut "
                                "cache yet the dataset reports is_materialized", event=ev)
                continue
            if not st["ok"]:
                return dict(key=f"hist:materialize-raises:{before}",
                            what=f"event {i} {ev}: materialize raised {st['exc']} ({st['msg']}) with the cache file "
                                 f"{before} and the object {'materialized' if mat else 'fresh'}",
                            expected="fresh computation", observed=st["exc"])
            if st["tf"] != fresh["obs"] or st["stats"] != fresh["stats"]:
                part = "stats" if st["tf"] == fresh["obs"] else frame_diff(fresh["obs"], st["tf"])
                stale = any(st["tf"] == r["obs"] and st["stats"] == r["stats"] for r in obs["refs"][:st["ref"]])
                return dict(key=f"hist:cached-differs:{part}",
                            what=f"event {i} {ev} (cache file {before}): materialize returned data that differs from a "
                                 f"fresh computation of the table the file was written from in {part}" +
                                 (" -- it is the content of an EARLIER file at this path" if stale else ""),
                            expected={"tf": fresh["obs"], "stats": fresh["stats"]},
                            observed={"tf": st["tf"], "stats": st["stats"]})
            if st["typed"] != fresh["typed"]:
                return dict(key="hist:cached-differs:stats-types",
                            what=f"event {i} {ev} (cache file {before}): col_stats equal the fresh ones in value but not "
                                 f"in type: {type_diff(fresh['typed'], st['typed'])}",
                            expected=fresh["typed"], observed=st["typed"], event=ev)
            if st["devices"] not in ([], ["cpu"]):
                return dict(key="hist:device", what=f"event {i}: tensors on {st['devices']}", event=ev)
            mat = True
            if ev["e"] == "newdf":
                if not st["file_unchanged"]:
                    return dict(key="hist:restore-rewrote-cache", what=f"event {i}: restoring a new dataset from the "
                                f"complete cache rewrote the file (now {after})", event=ev)
                continue
            if ev["path"] and before == "absent" and after != "complete":
                sup = " and col_stats=<supplied statistics>" if fresh.get("supplied") else ""
                return dict(key="hist:no-file-written" + (":supplied-stats" if sup else ""),
                            what=f"event {i} {ev}: materialize with a path{sup} and no cache file left the file "
                                 f"{after} (it must hold this TensorFrame and these statistics)",
                            expected="complete", observed=after)
            if not ev["path"] and after != before:
                return dict(key="hist:file-touched", what=f"event {i}: materialize() without path changed the cache "
                            f"file from {before} to {after}")
        elif ev["e"] == "crash":
            mat = False
        else:
            if "fresh_raises" in st:
                continue
            if not mat:
                continue           # convert on an unmaterialized dataset: the statement demands nothing
            if not st["ok"]:
                return dict(key="hist:convert-raises", what=f"event {i}: the converter of the (restored) dataset raised "
                            f"{st['exc']} ({st['msg']}) where the original converts", event=ev)
            if not st["same"]:
                return dict(key="hist:restored-converter-differs", what=f"event {i}: the (restored) dataset converts "
                            "new rows differently from the original", expected=st.get("want"), observed=st.get("got"),
                            event=ev)
    if len(obs["steps"]) != len(case["events"]):
        return dict(key="hist:short-run", what="history stopped early")
    return None


def oracle_trunc(case, obs):
    if not obs["ok"]:
        return dict(key="trunc:write-failed", what=f"materialize(path) failed: {obs['exc']} {obs['msg']}")
    if obs["control"] != "complete":
        return dict(key="trunc:control", what=f"the complete cache file is {obs['control']}")
    for r in obs["load_returned"]:
        if not r["complete"]:
            return dict(key="trunc:load-partial", what=f"torch_frame.load returned partial data from the first {r['k']} "
                        f"of {obs['len']} bytes", expected="raise", observed=r)
    for r in obs["mat_returned"]:
        if not r["complete"]:
            return dict(key="trunc:materialize-partial", what=f"Dataset.materialize(path) on the first {r['k']} of "
                        f"{obs['len']} bytes did not raise and holds data that differs from the cached table's "
                        f"({'another table of the same schema was given' if r.get('other_table') else 'same table'})",
                        expected="raise", observed=r)
    for r in obs["mat_returned"]:
        return dict(key="trunc:materialize-no-raise", what=f"Dataset.materialize(path) on the first {r['k']} of "
                    f"{obs['len']} bytes did not raise (silent recomputation)", expected="raise", observed=r)
    for r in obs["load_returned"]:
        return dict(key="trunc:prefix-loads", what=f"torch_frame.load accepted the first {r['k']} of {obs['len']} bytes "
                    "(complete data): hypothesis H_load_prefix_fails of Props/C11.v does not hold for this torch",
                    expected="raise", observed=r)
    return None


def oracle(case, obs):
    if "harness_exc" in obs:
        return dict(key="harness-exc", what="harness failed to run the case: " + obs["harness_exc"], tb=obs.get("tb"))
    if "skip" in obs:
        return None
    if case["kind"] == "saveload":
        return oracle_saveload(case, obs)
    if case["kind"] == "reuse":
        return oracle_reuse(case, obs)
    if case["kind"] == "gens":
        return oracle_gens(case, obs)
    if case["kind"] == "crafted":
        return oracle_crafted(case, obs)
    if case["kind"] == "malformed":
        return oracle_malformed(case, obs)
    if case["kind"] == "history":
        return oracle_history(case, obs)
    return oracle_trunc(case, obs)


# ------------------------------------------------------------------ shrinking
def shrink_frame(desc):
    cols = desc["cols"]
    for k, c in enumerate(cols):
        if c["name"] != desc["target"] and len([x for x in cols if x["name"] != desc["target"]]) > 1:
            yield dict(desc, cols=cols[:k] + cols[k + 1:], col_order=[n for n in desc["col_order"] if n != c["name"]])
    if desc["target"] is not None:
        yield dict(desc, cols=[c for c in cols if c["name"] != desc["target"]], target=None,
                   col_order=[n for n in desc["col_order"] if n != desc["target"]])
    if desc["index"] != "range":
        yield dict(desc, index="range")


def shrink(case):
    if case["kind"] == "history":
        ev = case["events"]
        for k in range(len(ev)):
            yield dict(case, events=ev[:k] + ev[k + 1:])
    if case["kind"] == "gens":
        ops = case["ops"]
        for k in range(len(ops)):
            if len(ops) > 1:
                yield dict(case, ops=ops[:k] + ops[k + 1:])
        if any(d is not None for d in case["devices"]):
            yield dict(case, devices=[None])
        if case["variant"]["v"] != "featureless":
            for d in shrink_frame(case["frame"]):
                yield dict(case, frame=d)
        return
    if case["kind"] == "reuse":
        st = case["steps"]
        for k in range(len(st)):
            if len(st) > 1:
                yield dict(case, steps=st[:k] + st[k + 1:])
        for k in range(len(st)):
            if st[k].get("device") is not None:
                yield dict(case, steps=st[:k] + [dict(st[k], device=None)] + st[k + 1:])
            for d in shrink_frame(st[k]["frame"]):
                if st[k]["variant"]["v"] in ("whole", "empty"):
                    yield dict(case, steps=st[:k] + [dict(st[k], frame=d)] + st[k + 1:])
        return
    if case["kind"] == "saveload":
        if case["variant"]["v"] != "whole":
            yield dict(case, variant={"v": "whole"})
        if not case["with_stats"]:
            yield dict(case, with_stats=True)
        if case.get("device") is not None:
            yield dict(case, device=None)
    if case["kind"] == "history":
        if case.get("supplied_first") is not None:
            yield {k: v for k, v in case.items() if k != "supplied_first"}
        ev = case["events"]
        for k in range(len(ev)):
            if ev[k].get("supplied"):
                yield dict(case, events=ev[:k] + [{x: y for x, y in ev[k].items() if x != "supplied"}] + ev[k + 1:])
            if ev[k].get("device") is not None:
                yield dict(case, events=ev[:k] + [{x: y for x, y in ev[k].items() if x != "device"}] + ev[k + 1:])
    for d in shrink_frame(case["frame"]):
        yield dict(case, frame=d)


# ------------------------------------------------------------------ evidence helpers
def stypes_of(case):
    frames = [st["frame"] for st in case["steps"]] if case["kind"] == "reuse" else [case["frame"]]
    return sorted(c["stype"] for f in frames for c in f["cols"] if c["name"] != f["target"])


def nontrivial_sig(case, obs):
    if obs is None or "skip" in obs or "harness_exc" in obs:
        return None
    if case["kind"] in ("crafted", "malformed"):
        return json.dumps([case["kind"], case["what"], obs.get("raised")])
    sig = [case["kind"], stypes_of(case), case["frame"]["target"] is not None]
    if case["kind"] == "saveload":
        if "file_len" not in obs or not (obs["raw"]["feats"] or obs["pre"]["n"] > 0):
            return None
        sig += [case["variant"]["v"], case["variant"].get("op", {}).get("v"), bool(case.get("explicit_rows")),
                obs["pre"]["n"], obs["pre"]["y"] is not None, case["with_stats"], obs["file_len"], case.get("device")]
    elif case["kind"] == "gens":
        if len([o for o in obs["steps"] if o.get("ok")]) < 2:
            return None
        sig += [case["variant"]["v"], [(op["v"], o.get("pre", {}).get("n"), o.get("file_len"))
                                       for op, o in zip(case["ops"], obs["steps"])], case["devices"]]
    elif case["kind"] == "reuse":
        if len(obs["steps"]) < 2:
            return None
        sig += [[(st["variant"]["v"], st["with_stats"], st.get("device"), o.get("file_len"))
                 for st, o in zip(case["steps"], obs["steps"])]]
    elif case["kind"] == "history":
        if not any(s["before"] != "absent" or s["after"] != "absent" for s in obs["steps"]):
            return None
        sig += [case.get("supplied_first") is not None,
                [(e["e"], e.get("path"), e.get("device"), e.get("how"), e.get("supplied"), s.get("ok", s.get("raised")), "skipped" in s,
                  s["before"], s["after"])
                 for e, s in zip(case["events"], obs["steps"])]]
    else:
        if not obs.get("ok") or obs["tried"] == 0:
            return None
        sig += [obs["len"], obs["tried"]]
    return json.dumps(sig)


def stats(cases, obss):
    d = {"kinds": {}, "variants": {}, "stypes": {}, "events": {}, "file_states_seen": {}, "skipped": 0,
         "rows": {}, "without_target": 0, "without_stats": 0, "truncation_points": 0, "truncation_files": 0,
         "truncation_exc_types": {}, "materialize_on_cut_file": 0, "raises_in_histories": 0, "file_len": []}
    d["boundaries"] = {}
    ep = d["error_paths"] = {}

    def hit(k):
        ep[k] = ep.get(k, 0) + 1
    for c, o in zip(cases, obss):
        if c is None or o is None:
            continue
        if c["kind"] in ("crafted", "malformed"):
            hit(c["kind"] + ":" + c["what"] + (":raised" if o.get("raised") else ":returned"))
            d["kinds"][c["kind"]] = d["kinds"].get(c["kind"], 0) + 1
            continue
        if c["kind"] == "saveload" and o.get("ok"):
            if c["variant"]["v"] == "handbuilt":
                hit("handbuilt-dtype:" + c["variant"]["dtype"])
            for st_, k_, p_ in o["raw"]["feats"]:
                if k_ == "embed" and p_["v"][0] in (2, 9) and c["variant"]["v"] != "handbuilt":
                    hit("embedder-dtype:" + ("float64" if p_["v"][0] == 2 else "float16"))
            if json.dumps(o["pre_typed"]).find('"numpy"') >= 0:
                hit("weights-only-fallback")
        if c["kind"] == "history" and "refs" in o:
            for e_, s_ in zip(c["events"], o["steps"]):
                if e_["e"] == "badstats" and "skipped" not in s_:
                    hit("badstats:" + e_["drop"])
            for r_ in o["refs"]:
                if r_.get("supplied") and target_order(r_) is not None and len(target_order(r_)) >= 2 and \
                        target_order(r_) != sorted(target_order(r_), key=str):
                    hit("unsorted-supplied-target:" + ("binary" if len(target_order(r_)) == 2 else "multiclass"))
        for b in (c.get("boundary") or "").split(","):
            if b and boundary_hit(b, c, o):
                d["boundaries"][b] = d["boundaries"].get(b, 0) + 1
        d["kinds"][c["kind"]] = d["kinds"].get(c["kind"], 0) + 1
        if "skip" in o:
            d["skipped"] += 1
            continue
        for s in stypes_of(c):
            d["stypes"][s] = d["stypes"].get(s, 0) + 1
        if c["frame"]["target"] is None:
            d["without_target"] += 1
        if c["kind"] == "gens":
            d["generations"] = d.get("generations", 0) + len([x for x in o["steps"] if x.get("ok")])
        if c["kind"] == "reuse":
            lens = [x.get("file_len") for x in o["steps"]]
            d["reuse_saves"] = d.get("reuse_saves", 0) + len(lens)
            for a_, b_ in zip(lens, lens[1:]):
                if a_ and b_:
                    k_ = "reuse_smaller_after_larger" if b_ < a_ else "reuse_larger_after_smaller" if b_ > a_ else "reuse_same_size"
                    d[k_] = d.get(k_, 0) + 1
            for st_ in c["steps"]:
                k_ = "load_device:" + str(st_.get("device"))
                d[k_] = d.get(k_, 0) + 1
        if c["kind"] == "saveload":
            k_ = "load_device:" + str(c.get("device"))
            d[k_] = d.get(k_, 0) + 1
            v = c["variant"]["v"]
            d["variants"][v] = d["variants"].get(v, 0) + 1
            n = o.get("pre", {}).get("n")
            d["rows"][n] = d["rows"].get(n, 0) + 1
            d["without_stats"] += 0 if c["with_stats"] else 1
            if "file_len" in o:
                d["file_len"].append(o["file_len"])
        elif c["kind"] == "history":
            for e, s in zip(c["events"], o.get("steps", [])):
                d["events"][e["e"]] = d["events"].get(e["e"], 0) + 1
                if e.get("device") is not None:
                    d["materialize_with_device"] = d.get("materialize_with_device", 0) + 1
                if "skipped" not in s and e["e"] in ("mat", "new", "rewrite", "derived", "newdf"):
                    sup_ = o["refs"][s["ref"]].get("supplied")
                    state_ = ("derived" if e["e"] == "derived" else
                              "materialized" if s.get("cur_was_materialized") else "fresh")
                    k_ = (f"kw:{'path' if e.get('path', True) else 'nopath'}"
                          f"{'+col_stats' if sup_ else ''}{'+device' if e.get('device') else ''}|{state_}|file-{s['before']}")
                    d.setdefault("materialize_calls", {})
                    d["materialize_calls"][k_] = d["materialize_calls"].get(k_, 0) + 1
                    if sup_ and e.get("path", True) and e["e"] != "derived" and state_ == "fresh" and (
                            s["before"] == "absent" or e["e"] == "rewrite"):
                        d["supplied_stats_cache_writes"] = d.get("supplied_stats_cache_writes", 0) + 1
                d["file_states_seen"][s["before"]] = d["file_states_seen"].get(s["before"], 0) + 1
                if "skipped" in s:
                    d["events_skipped"] = d.get("events_skipped", 0) + 1
                elif e["e"] in ("mat", "new", "newdf") and not s.get("ok"):
                    d["raises_in_histories"] += 1
        elif o.get("ok"):
            d["truncation_files"] += 1
            d["truncation_points"] += o["tried"]
            d["materialize_on_cut_file"] += o["mat_tried"]
            d["file_len"].append(o["len"])
            for k, v in o["exc_types"].items():
                d["truncation_exc_types"][k] = d["truncation_exc_types"].get(k, 0) + v
    fl = d.pop("file_len")
    d["file_len_min_max"] = [min(fl), max(fl)] if fl else None
    return d


def target_order(ref):
    return (ref["stats"].get("tgt", {}).get("COUNT") or [None])[0]


def unsorted_classes(ref, k):
    o = target_order(ref)
    return bool(ref.get("supplied")) and o is not None and len(o) == k and o != sorted(o, key=str)


def boundary_hit(name, case, obs):
    """Was the boundary REALLY reached by this run of its dedicated case (not only drawn)?"""
    if obs is None or "skip" in obs or "harness_exc" in obs:
        return False
    k = case["kind"]
    if k == "saveload":
        if "file_len" not in obs:
            return False
        raw, n = obs["raw"], obs["pre"]["n"]
        multis = [m for _, kind, p in raw["feats"] for m in ([x[1] for x in p] if kind == "dict" else [p])
                  if kind in ("nested", "embed", "dict")]
        checks = {
            "rows-0": n == 0 and len(raw["feats"]) >= 6, "rows-1": n == 1, "rows-2": n == 2,
            "cols-1-per-stype": bool(multis) and all(m["c"] == 1 for m in multis),
            "ragged-all-empty": bool(multis) and all(m["v"][2] == [] and set(m["o"][2]) == {0} for m in multis),
            "emb-width-1": any(kind == "embed" and p["o"][2] == [0, 1] for _, kind, p in raw["feats"]),
            "view-through-empty": n == 0, "view-whole": n == case["frame"]["n"],
            "index-same-row-repeated": n == 3, "cat-same-object-twice": n == 2 * case["frame"]["n"],
            "no-target": raw["y"] is None, "stats-none": obs["pre_stats"] is None,
            "stats-empty-dict": obs["pre_stats"] == {}, "featureless-rows-0": n == 0 and not raw["feats"],
            "featureless-rows-1-with-y": n == 1 and raw["y"] is not None and not raw["feats"],
            "explicit-rows-equal-feature-rows": raw["num_rows"] == n and bool(raw["feats"]),
            "all-missing": n == 3,
        }
        return checks.get(name, True)
    if k == "gens":
        ns = [o.get("pre", {}).get("n") for o in obs["steps"] if o.get("ok")]
        if len(ns) != len(case["ops"]):
            return False
        return {"gens-select-of-loaded-featureless": ns == [5, 2, 3], "gens-through-empty": 0 in ns,
                "gens-same-generation-twice": ns[0] == ns[1]}.get(name, True)
    if k == "reuse":
        lens = [o.get("file_len") for o in obs["steps"]]
        if name == "reuse-same-frame-twice":
            return len(lens) == 2 and lens[0] == lens[1]
        return len(lens) == 3 and obs["steps"][1]["pre"]["n"] == obs["steps"][0]["pre"]["n"] - 1
    if k == "history":
        steps = obs["steps"]
        if len(steps) != len(case["events"]) or any("skipped" in s for s in steps):
            return False
        cr = [s for e, s in zip(case["events"], steps) if e["e"] in ("crash", "cut")]
        checks = {
            "hist-crash-0": lambda: cr[0].get("k") == 0, "hist-crash-1": lambda: cr[0].get("k") == 1,
            "hist-crash-len-1": lambda: cr[0].get("k") == cr[0]["len"] - 1,
            "hist-crash-full": lambda: cr[0].get("k") == cr[0]["len"],
            "hist-cut-0": lambda: cr[0]["k"] == 0, "hist-cut-len-1": lambda: cr[0]["k"] == cr[0]["len"] - 1,
            "hist-retry-after-raise": lambda: [s.get("ok") for s in steps[1:5]] == [False, False, False, True],
            "hist-derived-0-rows": lambda: steps[1].get("derived_rows") == 0,
            "hist-derived-all-rows": lambda: steps[1].get("derived_rows") == case["frame"]["n"],
            "hist-rewrite-same-size-table": lambda: obs["refs"][1]["obs"]["n"] == obs["refs"][0]["obs"]["n"],
            "hist-supplied-equals-own": lambda: obs["refs"][0]["supplied"],
            "hist-supplied-binary-target-unsorted": lambda: unsorted_classes(obs["refs"][0], 2),
            "hist-supplied-multiclass-target-unsorted": lambda: unsorted_classes(obs["refs"][0], 3),
            "hist-supplied-binary-target-raw": lambda: unsorted_classes(obs["refs"][0], 2),
            "hist-one-row-table": lambda: obs["refs"][0]["obs"]["n"] == 1,
        }
        return checks.get(name, lambda: True)()
    if not obs.get("ok"):
        return False
    sp = obs["special"]
    checks = {
        "trunc-k-0-1-2": sp["0"] and sp["1"] and sp["2"], "trunc-k-len-1-len-2": sp["len-1"] and sp["len-2"],
        "trunc-k-eocd": sp["len-22"] and sp["len-23"],
        "trunc-k-zip-records": bool(sp["zip-kinds-present"]) and sp["zip-kinds-hit"] == sp["zip-kinds-present"],
        "trunc-saved-featureless": obs["mat_tried"] == 0,
    }
    return checks.get(name, True)


def sanity(cases, obss):
    """Fail-closed distribution check: a run that did not draw what the property quantifies over is not green."""
    probs = []
    ev_run, variants, sts, states = {}, set(), set(), set()
    featureless = featureless_rows = trunc = 0
    special = {"0": 0, "1": 0, "len-1": 0}
    strict_cut_then_read = 0
    for c, o in zip(cases, obss):
        if c is None or o is None or "skip" in o or "harness_exc" in o:
            continue
        sts.update(stypes_of(c))
        if c["kind"] == "saveload":
            variants.add(c["variant"]["v"])
            if c["variant"]["v"] == "featureless":
                featureless += 1
                featureless_rows += 1 if o.get("pre", {}).get("n", 0) > 0 else 0
        elif c["kind"] == "history":
            steps = o.get("steps", [])
            for j, (e, s) in enumerate(zip(c["events"], steps)):
                states.add(s["before"])
                if "skipped" not in s:
                    ev_run[e["e"]] = ev_run.get(e["e"], 0) + 1
                    if e["e"] in ("new", "newdf") and s["before"] == "corrupt":
                        strict_cut_then_read += 1
        elif o.get("ok"):
            trunc += 1
            for k in special:
                special[k] += 1 if o["special"][k] else 0
    d = stats(cases, obss)
    need = (["crafted:" + w for w in CRAFTED] + ["malformed:" + w for w in MALFORMED] +
            ["handbuilt-dtype:" + k for k in TORCH_DT] + ["embedder-dtype:float64", "embedder-dtype:float16",
             "weights-only-fallback", "badstats:column", "badstats:statkey", "unsorted-supplied-target:binary",
             "unsorted-supplied-target:multiclass"])
    for k in need:
        if not any(x == k or x.startswith(k + ":") for x in d["error_paths"]):
            probs.append(f"error path {k} not reached")
    for b in BOUNDARY_NAMES:
        if d["boundaries"].get(b, 0) == 0:
            probs.append(f"boundary {b} not reached")
    for k in ("reuse_smaller_after_larger", "reuse_larger_after_smaller", "load_device:None", "load_device:cpu",
              "load_device:torch.device", "materialize_with_device", "supplied_stats_cache_writes", "generations"):
        if d.get(k, 0) == 0:
            probs.append(f"{k} never drawn")
    for k in ("mat", "new", "newdf", "derived", "rewrite", "cut", "crash", "conv"):
        if ev_run.get(k, 0) == 0:
            probs.append(f"history event kind {k!r} never executed")
    for st in ("absent", "complete", "corrupt"):
        if st not in states:
            probs.append(f"no history event met the cache file in state {st!r}")
    if strict_cut_then_read == 0:
        probs.append("no new Dataset.materialize(path) ran against a cache file cut short")
    for v in ("whole", "slice", "slice2", "index", "catrows", "catcols", "empty", "featureless"):
        if v not in variants:
            probs.append(f"save/load variant {v!r} never drawn")
    if featureless == 0 or featureless_rows == 0:
        probs.append("no feature-less frame with an explicit num_rows > 0 drawn")
    for st in ("numerical", "categorical", "multicategorical", "sequence_numerical", "timestamp", "embedding",
               "text_embedded", "image_embedded", "text_tokenized"):
        if st not in sts:
            probs.append(f"stype {st} never drawn")
    if trunc == 0:
        probs.append("no truncation sweep ran")
    for k, v in special.items():
        if trunc and v == 0:
            probs.append(f"truncation point {k} never tried")
    return probs


# ------------------------------------------------------------------ Coq side
def coq_ct(t):
    code, shape, data = t
    return f"(CT {C.cnat(code)} {C.clist(shape, C.cnat)} {C.clist(data, C.cz)})"


def coq_multi(m):
    return f"(@MkMulti ctensor {C.cnat(m['r'])} {C.cnat(m['c'])} {coq_ct(m['v'])} {coq_ct(m['o'])})"


def coq_st(s):
    return "st_" + s


def coq_feat(k, p):
    if k == "tensor":
        return f"(@FTensor ctensor {coq_ct(p)})"
    if k == "nested":
        return f"(@FNested ctensor {coq_multi(p)})"
    if k == "embed":
        return f"(@FEmbed ctensor {coq_multi(p)})"
    if k == "dict":
        return "(@FDict ctensor " + C.clist(p, lambda nm: f"({C.cstr(nm[0])}, {coq_multi(nm[1])})") + ")"
    raise ValueError(k)


def coq_names(names):
    return C.clist(names, lambda p: f"({coq_st(p[0])}, {C.clist(p[1], C.cstr)})")


def coq_frame(raw):
    feats = C.clist(raw["feats"], lambda f: f"({coq_st(f[0])}, {coq_feat(f[1], f[2])})")
    nr = C.copt(raw["num_rows"], C.cnat)
    return f"(@MkTF ctensor {feats} {coq_names(raw['names'])} {C.copt(raw['y'], coq_ct)} {nr})"


def coq_mobs(m):
    dt, r, c, cells = m
    cs = C.clist(cells, lambda row: C.clist(row, lambda cell: C.clist(cell, C.cz)))
    return f"({C.cnat(dt)}, {C.cnat(r)}, {C.cnat(c)}, {cs})"


def coq_fobs(k, p):
    if k == "tensor":
        return f"(ODense {coq_ct(p)})"
    if k == "nested":
        return f"(ONested {coq_mobs(p)})"
    if k == "embed":
        return f"(OEmbed {coq_mobs(p)})"
    if k == "dict":
        return "(ODict " + C.clist(p, lambda nm: f"({C.cstr(nm[0])}, {coq_mobs(nm[1])})") + ")"
    raise ValueError(k)


def coq_frame_obs(o):
    feats = C.clist(o["feats"], lambda f: f"({coq_st(f[0])}, {coq_fobs(f[1], f[2])})")
    return f"({C.cnat(o['n'])}, {feats}, {coq_names(o['names'])}, {C.copt(o['y'], coq_ct)})"


def ascii_ok(raw):
    names = [n for _, ns in raw["names"] for n in ns]
    names += [nm for _, k, p in raw["feats"] if k == "dict" for nm, _ in p]
    return all(isinstance(n, str) and n.isascii() and '"' not in n for n in names) and \
        all(k in ("tensor", "nested", "embed", "dict") for _, k, _ in raw["feats"])


def coq_ser(t):
    if t["t"] == "tensor":
        return f"(@STensor ctensor {coq_ct(t['v'])})"
    if t["t"] == "int":
        return f"(@SInt ctensor {C.cnat(t['v'])})"
    return "(@SDict ctensor " + C.clist(t["v"], lambda kv: f"({C.cstr(kv[0])}, {coq_ser(kv[1])})") + ")"


def coq_term(case, obs):
    if obs is None or "skip" in obs or "harness_exc" in obs:
        return None
    if case["kind"] == "crafted":
        # Model/IO.v load on the crafted payload (class dispatch, keyword constructors, both validate()s)
        pl = obs.get("payload")
        if pl is None or (not obs["raised"] and not obs.get("consistent")):
            return None
        ser = C.clist(pl["ser"], lambda kv: f"({coq_st(kv[0])}, {coq_ser(kv[1])})")
        td = (f"(@MkTD ctensor {C.copt(pl['y'], coq_ct)} {coq_names(pl['names'])} {ser} "
              f"{C.copt(pl['num_rows'], C.cnat)})")
        iobs = "IRaise" if obs["raised"] else f"(IMat {coq_frame_obs(obs['got'])} {C.cz(digest(obs['got_stats']))})"
        return f"check_crafted ({td}, {C.cz(digest(None))}) {iobs}"
    if case["kind"] == "saveload":
        if not ascii_ok(obs["raw"]):
            return None
        cs = digest(obs["pre_stats"])
        if obs["ok"]:
            iobs = f"(IMat {coq_frame_obs(obs['post'])} {C.cz(digest(obs['post_stats']))})"
        else:
            iobs = "IRaise"
        return f"check_save_load {coq_frame(obs['raw'])} {C.cz(cs)} {iobs}"
    if case["kind"] == "gens":
        # Model/IOSup.v `generations`, evaluated on the frames the implementation saved at each generation
        steps = obs["steps"]
        if not steps or not all(o.get("ok") for o in steps) or not all(ascii_ok(o["raw"]) for o in steps):
            return None
        cs = digest(steps[0]["pre_stats"])
        last = steps[-1]
        iobs = f"(IMat {coq_frame_obs(last['post'])} {C.cz(digest(last['post_stats']))})"
        return f"check_generations {C.clist([coq_frame(o['raw']) for o in steps])} {C.cz(cs)} {iobs}"
    if case["kind"] == "reuse":
        terms = [coq_term(dict(st, kind="saveload"), o) for st, o in zip(case["steps"], obs["steps"])]
        if not terms or any(t is None for t in terms):
            return None
        # Model/IOSup.v: all the saves onto ONE path (truncating open), then load = the last one
        if len(obs["steps"]) == len(case["steps"]) and all(o.get("ok") for o in obs["steps"]):
            seq = C.clist(obs["steps"], lambda o: f"({coq_frame(o['raw'])}, {C.cz(digest(o['pre_stats']))})")
            last = obs["steps"][-1]
            terms.append(f"check_reuse {seq} (IMat {coq_frame_obs(last['post'])} {C.cz(digest(last['post_stats']))})")
        return "(" + " && ".join(terms) + ")"
    if case["kind"] == "history":
        if not all(ascii_ok(r["raw"]) for r in obs["refs"]) or len(obs["steps"]) != len(case["events"]):
            return None
        # The model speaks about ONE table and one process-independent file.  A history is cut into segments
        # at the events that give the path to another table or damage the file in place; each segment is the
        # model run from its initial world, opened by the model event that produces the segment's start state.
        segs = [[0, [], []]]                      # [ref id, events, implementation observations]
        km_of = lambda st: 0 if st["k"] == 0 else (2 if st["k"] >= st["len"] else 1)  # noqa: E731
        # (the toy codec's complete file has 2 "bytes": 0 = nothing written, 1 = cut, 2 = complete)
        for i, (ev, st) in enumerate(zip(case["events"], obs["steps"])):
            if "skipped" in st:
                continue
            # an observation equal to the segment's fresh frame is written as the shared binding `fo<ref>`
            mat_obs = lambda: ((f"(IMat {'fo%d' % st['ref'] if st['tf'] == obs['refs'][st['ref']]['obs'] else coq_frame_obs(st['tf'])} "   # noqa: E731
                                f"{C.cz(digest(st['stats']))})") if st["ok"] else "IRaise")
            if ev["e"] == "badstats":
                continue                          # a failed call on a throw-away object: the world is unchanged
            if ev["e"] == "derived":
                # Model/IOSup.v: d = cur[sel]; d.materialize(path or None, col_stats=...).  The harness runs it
                # only while the file exists, where the selection itself cannot matter (identity stands for it).
                if not st["ok"]:
                    return None                   # the model mirrors the current no-op; a refusal is not compared
                segs[-1][1].append(f"DER {C.cbool(ev.get('path', True))}")
                segs[-1][2].append("(IDerived false)")
                continue
            if ev["e"] == "rewrite":
                if ev["how"] == "remove":         # no file, new object over the other table, materialize(path)
                    segs.append([st["ref"], ["NewDatasetMaterialize crows true"], [mat_obs()]])
                elif st["ok"]:                    # a complete file of the other table appears, fresh object
                    segs.append([st["ref"], ["CrashDuringSave crows 2%nat"], ["ICrash"]])
                else:
                    return None
                continue
            if ev["e"] == "cut":                  # the complete file becomes its k-prefix, fresh object
                segs.append([st["ref"], [f"CrashDuringSave crows {C.cnat(km_of(st))}"], ["ICrash"]])
                continue
            evs, ios = segs[-1][1], segs[-1][2]
            if ev["e"] == "newdf":
                # the file exists, so the compute branch (the only place the table enters) is not reached
                evs.append("NewDatasetMaterialize crows true")
                ios.append(mat_obs())
            elif ev["e"] == "mat":
                evs.append(f"Materialize crows {C.cbool(ev['path'])}")
                ios.append(mat_obs())
            elif ev["e"] == "new":
                evs.append(f"NewDatasetMaterialize crows {C.cbool(ev['path'])}")
                ios.append(mat_obs())
            elif ev["e"] == "crash":
                evs.append(f"CrashDuringSave crows {C.cnat(km_of(st) if st.get('saved') else 1)}")
                ios.append("ICrash")
            else:
                if "fresh_raises" in st:
                    return None
                if st["ok"] and not st.get("cur_was_materialized", True):
                    return None                   # the model mirrors the current raise; the statement does not demand it
                evs.append(f"@Convert crows {C.cnat(i)}")
                ios.append(f"(IConv {C.cbool(bool(st.get('same')))} {C.cnat(i)})" if st["ok"] else "IRaise")
        terms = []
        used = sorted({rid for rid, _, _ in segs} | {st["ref"] for st in obs["steps"] if "ref" in st})
        binds = "".join(f"let fo{rid} : frame_obs := {coq_frame_obs(obs['refs'][rid]['obs'])} in "
                        f"let fr{rid} : tframe ctensor := {coq_frame(obs['refs'][rid]['raw'])} in " for rid in used)
        for rid, evs, ios in segs:
            r = obs["refs"][rid]
            fresh = f"(fr{rid}, {C.cz(digest(r['stats']))})"
            # every materialize of the segment is handed the same statistics argument (Model/IOSup.v)
            sup = f"(Some {C.cz(digest(['supplied', r['stats']]))})" if r.get("supplied") else "None"
            evsS = [f"DerivedMat (fun t => t) {e[4:]} {sup}" if e.startswith("DER ") else f"EvS {sup} ({e})" for e in evs]
            iosS = [i_ if i_.startswith("(IDerived") else f"(II {i_})" for i_ in ios]
            terms.append(f"check_historyS {sup} {fresh} {C.clist(evsS)} {C.clist(iosS)}")
        return "(" + binds + "(" + " && ".join(terms) + "))"
    return None
