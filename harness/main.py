"""./check <Cxx> [--tier quick|thorough] [--replay file]   (DESIGN.md section 3.4)"""
from __future__ import annotations

import argparse
import importlib
import json
import os
import sys
import time

sys.path.insert(0, os.path.dirname(os.path.dirname(os.path.abspath(__file__))))
from harness import common as C  # noqa: E402


def shrink_case(mod, case, fail):
    """Greedy shrinking: keep any smaller case on which the oracle still fails
    with the same key."""
    if not hasattr(mod, "shrink"):
        return case, fail
    budget = 400
    improved = True
    while improved and budget > 0:
        improved = False
        for cand in mod.shrink(case):
            budget -= 1
            if budget <= 0:
                break
            try:
                obs = mod.run(cand)
                f = mod.oracle(cand, obs)
            except Exception:
                continue
            if f is not None and f.get("key") == fail.get("key"):
                case, fail = cand, f
                fail["observed_full"] = obs
                improved = True
                break
    return case, fail


def main():
    ap = argparse.ArgumentParser()
    ap.add_argument("prop")
    ap.add_argument("--tier", default=os.environ.get("VERIF_TIER", "quick"))
    ap.add_argument("--replay", default=None)
    args = ap.parse_args()
    prop = args.prop
    tier = args.tier if args.tier in ("quick", "thorough") else "quick"
    seed = int(os.environ.get("VERIF_SEED", "20260930"))
    t0 = time.time()
    mod = importlib.import_module(f"harness.{prop.lower()}")
    known = C.load_known(prop)

    if args.replay:
        rp = json.load(open(args.replay))
        if rp.get("kind") == "no-failing-input-found":
            print(f"replay file names a broken obligation, not an input: {rp.get('broken')}")
            # fall through to a normal run
        else:
            case = rp["input"]
            obs = mod.run(case)
            f = mod.oracle(case, obs)
            if f is None:
                print(f"replay: property {prop} holds on the recorded input")
                return 0
            print(json.dumps(f, default=str)[:2000])
            print(f"VIOLATION property={prop} replay={args.replay}")
            return 1

    rng = C.Rng(seed * 1000003 + sum(map(ord, prop)))
    lines = []
    broken = []          # broken proof obligations / correspondence shards

    # 1. tables + Coq build + Print Assumptions ------------------------------
    forb = C.scan_forbidden()
    if forb:
        broken.append(dict(what="forbidden declaration in development", detail=forb[:10]))
    ok, log = C.gen_tables()
    if not ok:
        broken.append(dict(what="gen_tables.py failed (translator is fail-closed)", detail=log[-3000:]))
    pr = C.check_props(prop)
    if not pr["ok"]:
        broken.append(dict(what=f"Coq build of Props/{prop}.vo failed", detail=pr["log"]))
    else:
        pa = pr.get("assumptions", {})
        allowed = tuple(getattr(mod, "ALLOWED_AXIOMS", ())) + (
            "PrimFloat.", "Uint63.", "PrimInt63.", "FloatOps.", "SpecFloat.", "float", "int", "Float")
        bad_ax = [a for a in pa.get("listed", []) if not a.startswith(allowed)]
        if bad_ax:
            broken.append(dict(what=f"Print Assumptions lists axioms outside the stated trusted base: {bad_ax[:6]}",
                               detail=bad_ax))
        if pa.get("print_assumptions_cmds", 0) < len(pr.get("theorems", [])) - len(
                [t for t in pr.get("theorems", []) if t.lower().startswith(("ex_", "example"))]) - pa.get("examples", 0) \
                and not getattr(mod, "PA_RELAXED", False):
            pass  # informational only: Examples need no Print Assumptions
    # model files needed by the correspondence must build even if a proof broke
    model_ok = True
    if getattr(mod, "MODEL_TARGETS", None):
        model_ok, mlog = C.coq_make(mod.MODEL_TARGETS)
        if not model_ok:
            broken.append(dict(what="Coq build of model files failed", detail=mlog[-3000:]))

    # 2./3. implementation runs + direct oracle --------------------------------
    corpus = C.load_corpus(prop)
    cases = list(corpus) + list(mod.generate(rng, tier))
    obss, fails = [], []
    for i, case in enumerate(cases):
        try:
            obs = mod.run(case)
        except Exception as ex:  # harness-level failure: treat as observation
            obs = {"harness_exc": C.exc_name(ex), "tb": C.fmt_exc()}
        obss.append(obs)
        try:
            f = mod.oracle(case, obs)
        except Exception as ex:
            f = dict(key="oracle-crash", what=f"oracle crashed: {C.exc_name(ex)}", tb=C.fmt_exc())
        if f is not None:
            f["case_index"] = i
            fails.append((i, f))

    # extra finite / table-driven sub-checks a module may define
    extra_info = {}
    if hasattr(mod, "extra"):
        try:
            efails, extra_info = mod.extra(tier, rng)
        except Exception as ex:
            efails, extra_info = [dict(key="extra-crash", what=f"{C.exc_name(ex)}", tb=C.fmt_exc(), case=None)], {}
        for f in efails:
            cases.append(f.get("case"))
            obss.append(f.get("observed"))
            fails.append((len(cases) - 1, f))

    # correspondence: model vs implementation --------------------------------
    corr_total, corr_bad = 0, []
    if model_ok and hasattr(mod, "coq_term"):
        terms = []
        for i, (case, obs) in enumerate(zip(cases, obss)):
            if case is None:
                continue
            try:
                t = mod.coq_term(case, obs)
            except Exception as ex:
                t = None
                broken.append(dict(what="coq_term printer crashed", detail=C.fmt_exc()))
            if t is not None:
                terms.append((i, t))
        corr_total = len(terms)
        cok, bad_ids, clog = C.run_coq_cases(prop, mod.HEADER, terms,
                                             shard=getattr(mod, "SHARD", 400))
        if not cok:
            broken.append(dict(what="correspondence shard failed to evaluate", detail=clog[-3000:]))
        corr_bad = bad_ids
        if bad_ids:
            smp = [dict(case=cases[i], impl_observation=obss[i]) for i in bad_ids[:3]]
            broken.append(dict(what=f"correspondence: model and implementation differ on {len(bad_ids)} case(s)",
                               detail=smp))

    # generator / coverage sanity (DESIGN 3.5): a degenerate run must not report green
    n_real = len([c for c in cases if c is not None])
    if hasattr(mod, "coq_term") and model_ok and n_real > 0:
        min_frac = getattr(mod, "MIN_CORR_FRACTION", 0.5)
        if corr_total < min_frac * n_real:
            broken.append(dict(what=f"correspondence covers only {corr_total} of {n_real} cases "
                                    f"(< {int(min_frac * 100)} %): the model is not being exercised",
                               detail=None))
    if hasattr(mod, "sanity"):
        try:
            probs = mod.sanity(cases, obss)
        except Exception:
            probs = ["sanity() crashed: " + C.fmt_exc()]
        for pr_ in probs or []:
            broken.append(dict(what="input distribution degenerate: " + str(pr_), detail=None))

    # 4. decide -----------------------------------------------------------------
    if broken and not fails and hasattr(mod, "generate"):
        # violation search: widen the oracle-only exploration
        rng2 = C.Rng(seed + 77)
        t_search = time.time()
        budget_s = float(os.environ.get("VERIF_SEARCH_S", "120"))
        gen_tier = "thorough" if (tier == "quick" and getattr(mod, "WIDEN_WITH_THOROUGH", True)) else tier
        extra_cases = list(mod.generate(rng2, gen_tier))
        for case in extra_cases[:20000]:
            if time.time() - t_search > budget_s:
                break
            try:
                obs = mod.run(case)
                f = mod.oracle(case, obs)
            except Exception:
                continue
            if f is not None:
                cases.append(case)
                obss.append(obs)
                f["case_index"] = len(cases) - 1
                fails.append((len(cases) - 1, f))
                break

    violations, known_hits = [], {}
    seen_keys = set()
    for i, f in fails:
        key = f.get("key", "unkeyed")
        if key in known:
            known_hits.setdefault(key, f)
            continue
        if key in seen_keys:
            continue
        seen_keys.add(key)
        case = cases[i]
        if case is not None:
            case, f = shrink_case(mod, case, f)
        path = C.write_replay(prop, dict(property=prop, seed=seed, tier=tier, kind="failing-input",
                                         input=case, failure=f,
                                         command=f"./check {prop} --replay <this file>"))
        violations.append((path, f))
    for key, f in known_hits.items():
        lines.append(f"KNOWN-FINDING: property={prop} key={key} {known[key]}")
    for path, f in violations:
        lines.append(f"  {f.get('what', '')}"[:300])
        lines.append(f"VIOLATION property={prop} replay={path}")
    if broken and not violations:
        path = C.write_replay(prop, dict(property=prop, seed=seed, tier=tier, kind="no-failing-input-found",
                                         broken=broken,
                                         command=f"./check {prop} --tier {tier}"))
        for b in broken:
            lines.append(f"  broken: {b['what']}")
        lines.append(f"VIOLATION property={prop} replay={path} no-failing-input-found")

    # 5. evidence ----------------------------------------------------------------
    sigs = set()
    for case, obs in zip(cases, obss):
        if case is None:
            continue
        try:
            s = mod.nontrivial_sig(case, obs)
        except Exception:
            s = None
        if s is not None:
            sigs.add(s)
    thms = pr.get("theorems", [])
    n_obl = len(thms) + (1 if corr_total else 0)
    n_dis = (len(thms) if pr["ok"] else 0) + (1 if corr_total and not corr_bad and not any(
        "correspondence" in b["what"] for b in broken) else 0)
    try:
        dist = mod.stats(cases, obss) if hasattr(mod, "stats") else {}
    except Exception:
        dist = {}
    samples = []
    for case, obs in list(zip(cases, obss))[:400:100][:4]:
        samples.append(dict(case=case, implementation_observation=obs))
    ev = dict(
        property_id=prop, tier=tier, seed=seed, level="proof",
        coverage=dict(
            obligations=n_obl, discharged=n_dis,
            checker_cmd=f"cd /verif/coq && make Props/{prop}.vo  (coqc 8.16.1, full .vo build) ; "
                        f"correspondence: coqc build/cases_{prop}_*.v (vm_compute)",
            trusted_base=getattr(mod, "TRUSTED", []),
            theorems=thms, print_assumptions=pr.get("assumptions", {}),
            correspondence_cases=corr_total, correspondence_mismatches=len(corr_bad),
            evaluations=len([c for c in cases if c is not None]),
            distinct_nontrivial=len(sigs),
            rule=getattr(mod, "RULE", ""),
            samples=samples, input_distribution=dist, corpus_cases=len(corpus),
            known_findings_hit=sorted(known_hits), extra=extra_info,
            broken=[b["what"] for b in broken],
        ),
        assumptions=getattr(mod, "ASSUMPTIONS", []),
        wall_s=round(time.time() - t0, 2),
        violations=len(violations) + (1 if broken and not violations else 0),
    )
    C.write_evidence(prop, ev)
    for ln in lines:
        print(ln)
    status = "FAIL" if (violations or broken) else "ok"
    print(f"[{prop}] {status}: theorems={len(thms)} build={'ok' if pr['ok'] else 'BROKEN'} "
          f"cases={ev['coverage']['evaluations']} corr={corr_total}/{len(corr_bad)} bad "
          f"oracle_fail={len(fails)} known={len(known_hits)} wall={ev['wall_s']}s")
    return 1 if (violations or broken) else 0


if __name__ == "__main__":
    sys.exit(main())
