"""C05 — ragged containers: every selection equals the selection on nested lists."""
from __future__ import annotations

import itertools
import json

import torch

from harness import common as C
from harness import ragged as R

PROP = "C05"
HEADER = "Require Import PF.Lib.PySlice PF.Model.Ragged PF.Model.RaggedRun."
MODEL_TARGETS = ["Model/RaggedRun.vo"]
SHARD = 300
RULE = ("programs of 1-6 selections (rows / columns / pair access / single cell) over containers built by the "
        "public constructors with unique-id payloads; distinct = distinct (container kind, dtype, shape, "
        "sequence of (axis, index kind, ok/err, result shape)); non-trivial = at least one step returned a "
        "non-empty result or an expected error")
TRUSTED = [
    "Coq 8.16.1 kernel + vm_compute (no native_compute)",
    "hand-written model coq/Model/Ragged.v of multi_tensor.py / multi_nested_tensor.py / multi_embedding_tensor.py, "
    "tied to /repo by this run's observational correspondence",
    "modelled primitives: torch 1-D/2-D indexing, slicing (clamping), cumsum, repeat_interleave, reshape, nonzero",
    "harness/c05.py + harness/ragged.py (generator, nested-list oracle, Coq literal printer)",
]
ASSUMPTIONS = [
    "storage aliasing (a step-1 slice is a view) and device placement are outside the pure model",
    "payload scalars are opaque: ints and float64 (NaN included) are moved, never computed on",
    "index expressions that are not 'supported selections' in the property's sense - a boolean mask whose length differs "
    "from the axis, an axis other than rows / columns (dim 2, -1, 3, -4), narrow with a negative start - are generated "
    "(the current code raises on all of them, and the model mirrors that) but the oracle demands nothing there: a "
    "rewrite that accepts them is not reported",
    "narrow(dim, start, length) called directly is exercised for windows that fit the axis, for start == 0 with any "
    "length, for non-positive lengths and for start < 0 (must raise); a window overshooting the axis from start > 0 is "
    "OUTSIDE the quantifier (narrow is not an IndexSelectType; torch.narrow rejects it, the library does not check and "
    "MultiEmbeddingTensor then returns a container whose num_rows exceeds its storage) and is never generated",
]

# clause of the property statement -> oracle key(s) that judge it / generator kind(s) that exercise it
CLAUSES = [
    ("both containers, int and float payloads", "all keys carry the container kind", "kinds mnt|met x int|float (sanity)"),
    ("integer / slice (+step, out-of-range and negative bounds) / int list / range / int tensor with negatives / mask",
     "wrong-cells:*, raises:*, no-raise:*", "sel0(k), sel1(k) for the six index kinds (sanity); exhaustive sweep (thorough)"),
    ("along rows, columns or both", "wrong-cells:*:pair(...)", "op pair with every index-kind combination"),
    ("single-cell access", "wrong-cell:*", "pair(int,int)"),
    ("entry points: t[...], t.select(idx, dim), t.index_select(tensor, dim), t.narrow(dim, start, len); dim 0/1/-3/-2",
     "same keys; selBadDim for dims that must raise", "via getitem|select|index_select, op narrow (sanity)"),
    ("size(dim) / len / shape / dim() describe the container", "meta:*", "recorded after every successful step"),
    ("arbitrary chains, through empty results", "any key at step k > 0; through_empty (sanity)", "programs of 1-6 steps"),
    ("every result is well-formed and usable further", "ill-formed:*, unreadable:*", "wf_report + read_cells on every result"),
    ("out-of-range integers and non-positive steps raise", "no-raise:*", "malformed stream (30 % of steps)"),
    ("no selection modifies its source", "source-modified", "snapshot before / after every step; history probes"),
]

# boundaries of the quantified dimensions, each hit deliberately in every run by boundary_cases()
BOUNDARIES = [
    "container shape: 1x1, 1xk, kx1, square (rows == columns), all cells empty, a width-0 column (met), "
    "0 rows / 0 columns (only reachable through an emptying selection: applied before the boundary index)",
    "int index: 0, -1, n-1, -n (in range) and n, -n-1 (must raise)",
    "slice: [0:n] (whole axis, returns the container itself), [0:n+1], [n:n], [n-1:n], [-n:], [-n-1:], [k:k], "
    "[1:0], steps 1, 2, n-1, n, n+1 and the must-raise steps 0 and -1",
    "int list / tensor: [], one element, the whole axis in order, reversed, a contiguous run, a run with a DUPLICATE "
    "compensated by a gap (sorted, last-first == len-1: looks contiguous to an end-point test), all the same element, "
    "negative entries through zero, one entry out of range at either end",
    "range: empty (start == stop), one element, the whole axis, step > n, counting down to 0, entries through zero",
    "mask: all False, all True, exactly one True (first / last), wrong length by one (must raise)",
    "pair access: (int, int) at the four corners and one past each; (int, non-int) and (non-int, int)",
    "entry points: each boundary index through getitem / select / index_select; narrow at (0, n), (0, n+1), (n, 0), "
    "(n-1, 1), (k, 0)",
]


def boundary_indices(n):
    """index expressions sitting on the boundaries of an axis of length n (JSON form)"""
    out = [{"t": "int", "i": i} for i in sorted({0, -1, n - 1, -n, n, -n - 1})]
    for a, b in [(0, n), (0, n + 1), (n, n), (n - 1, n), (-n, None), (-n - 1, None), (1, 1), (1, 0), (None, None),
                 (None, -n), (-1, None)]:
        out.append({"t": "slice", "a": a, "b": b, "s": None})
    for st in sorted({1, 2, max(1, n - 1), max(1, n), n + 1}):
        out.append({"t": "slice", "a": None, "b": None, "s": st})
        out.append({"t": "slice", "a": 1, "b": None, "s": st})
    out += [{"t": "slice", "a": None, "b": None, "s": 0}, {"t": "slice", "a": None, "b": None, "s": -1}]
    lists = [[], list(range(n)), list(range(n))[::-1], [n - 1] * 3 if n else [0], [-1, 0] if n else [0],
             list(range(-n, 0)), [n], [-n - 1], [0, n], [0] if n else []]
    if n >= 1:
        lists += [[0], [n - 1], [-n]]
    if n >= 3:
        lists += [[0, 0, 2], [0, 2, 2], [n - 3, n - 1, n - 1], [1, 2], [0, 1, 2], [-n, 1 - n + 1, 2 - n + 1]]
    if n >= 4:
        lists += [[0, 2, 2, 3], [0, 0, 2, 3], [1, 1, 3]]
    for l in lists:
        out.append({"t": "list", "l": l})
        out.append({"t": "tensor", "l": l})
    for a, b, st in [(0, 0, 1), (0, 1, 1), (0, n, 1), (0, n, n + 1), (n - 1, -1, -1), (-1, 1, 1), (-n, 0, 1),
                     (0, n + 1, 1), (n, n, 1), (n - 1, n, 1)]:
        out.append({"t": "range", "a": a, "b": b, "s": st})
    masks = [[False] * n, [True] * n, [True] + [False] * (n - 1) if n else [], [False] * (n - 1) + [True] if n else [],
             [True] * (n + 1), [True] * max(0, n - 1)]
    for m in masks:
        out.append({"t": "mask", "m": m})
    return out


def boundary_cases(rng):
    """A deterministic stream over small containers: every boundary index on both axes through every entry point,
    directly and after an emptying selection on the same / the other axis."""
    shapes = [(1, 1), (1, 3), (3, 1), (3, 3), (4, 3), (2, 4)]
    cases = []
    for kind in ("mnt", "met"):
        for si, (nr, nc) in enumerate(shapes):
            dtype = "int" if (si % 2 == 0) else "float"
            cells = R.gen_cells(rng, kind, dtype, nr, nc, all_empty=(si == 3 and kind == "mnt"))
            if kind == "met" and nc >= 2:
                for row in cells:          # a width-0 column
                    row[1] = []
            for dim, n in ((0, nr), (1, nc)):
                for ix in boundary_indices(n):
                    vias = ["getitem", "select"] + (["index_select"] if ix["t"] in ("tensor", "mask") else [])
                    via = vias[len(cases) % len(vias)]
                    d = [dim, dim - 3][len(cases) % 2] if via != "getitem" else dim
                    cases.append({"kind": kind, "dtype": dtype, "cells": cells,
                                  "prog": [{"op": "sel", "dim": d, "idx": ix, "via": via}], "boundary": True})
                for start, ln in [(0, n), (0, n + 1), (n, 0), (max(0, n - 1), min(1, n)), (1 if n else 0, 0)]:
                    cases.append({"kind": kind, "dtype": dtype, "cells": cells,
                                  "prog": [{"op": "narrow", "dim": dim, "start": start, "len": ln}], "boundary": True})
            # corners of single-cell access and mixed pairs
            for i in (0, -1, nr - 1, -nr, nr, -nr - 1):
                for j in (0, -1, nc - 1, -nc, nc, -nc - 1):
                    cases.append({"kind": kind, "dtype": dtype, "cells": cells, "boundary": True,
                                  "prog": [{"op": "pair", "i": {"t": "int", "i": i}, "j": {"t": "int", "i": j}}]})
            cases.append({"kind": kind, "dtype": dtype, "cells": cells, "boundary": True,
                          "prog": [{"op": "pair", "i": {"t": "int", "i": 0}, "j": {"t": "slice", "a": None, "b": None, "s": None}}]})
            cases.append({"kind": kind, "dtype": dtype, "cells": cells, "boundary": True,
                          "prog": [{"op": "pair", "i": {"t": "list", "l": []}, "j": {"t": "int", "i": -1}}]})
            # through an empty result: empty the rows / the columns, then a boundary index on either axis
            empt = [{"t": "slice", "a": 1, "b": 1, "s": None}, {"t": "list", "l": []}, {"t": "mask", "m": None},
                    {"t": "slice", "a": nr + nc, "b": None, "s": 2}]
            for edim, en in ((0, nr), (1, nc)):
                for e in empt:
                    e = dict(e)
                    if e["t"] == "mask":
                        e["m"] = [False] * en
                    for dim in (0, 1):
                        n2 = 0 if dim == edim else (nr if dim == 0 else nc)
                        for ix in boundary_indices(n2)[::3]:
                            cases.append({"kind": kind, "dtype": dtype, "cells": cells, "boundary": True,
                                          "prog": [{"op": "sel", "dim": edim, "idx": e, "via": "getitem"},
                                                   {"op": "sel", "dim": dim, "idx": ix, "via": "select"}]})
    return cases


def pick_via(rng, ix):
    """public entry point used for a selection step"""
    if ix["t"] in ("tensor", "mask") and rng.chance(0.4):
        return "index_select"          # index_select(index: Tensor, dim) called directly
    return rng.pick(["getitem", "select"])


def narrow_positions(st, n):
    """positions narrow(dim, start, length) selects from an axis of length n; RefErr where it must raise"""
    if st["start"] < 0:
        raise R.RefErr("narrow start < 0")
    if st["dim"] not in (0, 1, -3, -2):
        raise R.RefErr("dimension out of range")
    if st["start"] == 0 and st["len"] >= n:
        return list(range(n))
    if st["len"] <= 0:
        return []
    assert st["start"] + st["len"] <= n, "generator must not draw an overshooting window"
    return list(range(st["start"], st["start"] + st["len"]))


def gen_case(rng, tier):
    kind = rng.pick(["mnt", "mnt", "met"])
    dtype = rng.pick(["int", "float"])
    nr, nc = rng.randint(1, 5), rng.randint(1, 4)
    cells = R.gen_cells(rng, kind, dtype, nr, nc, all_empty=rng.chance(0.06))
    prog = []
    cur = (nr, nc)
    L = rng.wpick([(3, 1), (4, 2), (3, 3), (2, 4), (1, 5), (1, 6)])
    for _ in range(L):
        r = rng.random()
        clean = rng.chance(0.7)   # mostly-valid stream; malformed stream separately
        if r < 0.08:
            # narrow(dim, start, length) called directly
            dim = rng.pick([0, 1])
            n = cur[dim]
            k = rng.random()
            if k < 0.6:
                start = rng.randint(0, n)
                ln = rng.randint(0, n - start)
            elif k < 0.75:
                start, ln = 0, n + rng.randint(0, 3)          # whole axis (returns the container itself)
            elif k < 0.9:
                start, ln = rng.randint(0, n + 1), -rng.randint(0, 3)   # non-positive length: empty
            else:
                start, ln = -rng.randint(1, 3), rng.randint(0, n)      # asserted: must raise
            st = {"op": "narrow", "dim": rng.pick([dim, dim - 3]), "start": start, "len": ln}
            if not clean and rng.chance(0.1):
                st["dim"] = rng.pick([2, -1, 3, -4])
            prog.append(st)
            try:
                pos = narrow_positions(st, n)
            except R.RefErr:
                break
            if st["dim"] not in (0, 1, -3, -2):
                break
            cur = (len(pos), cur[1]) if dim == 0 else (cur[0], len(pos))
            continue
        if r < 0.45:
            ix = R.gen_index(rng, cur[0], allow_bad=not clean)
            prog.append({"op": "sel", "dim": rng.pick([0, 0, -3]), "idx": ix, "via": pick_via(rng, ix)})
            dim = 0
            if not clean and rng.chance(0.08):
                # a dimension _normalize_dim must reject (only reachable through .select)
                prog[-1] = {"op": "sel", "dim": rng.pick([2, -1, 3, -4]), "idx": ix, "via": "select"}
                break
        elif r < 0.8:
            ix = R.gen_index(rng, cur[1], allow_bad=not clean)
            prog.append({"op": "sel", "dim": rng.pick([1, 1, -2]), "idx": ix, "via": pick_via(rng, ix)})
            dim = 1
        else:
            i = R.gen_index(rng, cur[0], allow_bad=not clean)
            j = R.gen_index(rng, cur[1], allow_bad=not clean)
            prog.append({"op": "pair", "i": i, "j": j})
            dim = None
        # track the expected shape so that later indices are mostly in range
        try:
            if dim == 0:
                cur = (len(R.ref_positions(ix, cur[0])), cur[1])
            elif dim == 1:
                cur = (cur[0], len(R.ref_positions(ix, cur[1])))
            else:
                if i["t"] == "int" and j["t"] == "int":
                    break
                cur = (len(R.ref_positions(i, cur[0])), len(R.ref_positions(j, cur[1])))
        except R.RefErr:
            break
    # "history" probes: operations executed on the current container BEFORE a step whose results are thrown
    # away (a column selection, a row selection, dense padding, a self-concatenation).  A pure container is
    # unaffected; a stale cache carried from a container to the containers derived from it is not.
    if rng.chance(0.45):
        for st in prog:
            if rng.chance(0.6):
                st["probes"] = [rng.pick(["col0", "collist", "row0", "rowlist", "dense", "cat1", "cat0", "cell"])
                                for _ in range(rng.randint(1, 2))]
    return {"kind": kind, "dtype": dtype, "cells": cells, "prog": prog}


def run_probe(t, name):
    """discarded operations on t; any outcome (incl. a raise on an empty container) is ignored"""
    try:
        if name == "col0":
            t[:, 0]
        elif name == "collist":
            t[:, list(range(t.num_cols))[::-1]]
        elif name == "row0":
            t[0]
        elif name == "rowlist":
            t[list(range(t.num_rows))[::-1]]
        elif name == "dense" and hasattr(t, "to_dense"):
            t.to_dense(fill_value=0)
        elif name == "cat1":
            type(t).cat([t, t], dim=1)
        elif name == "cat0":
            type(t).cat([t, t], dim=0)
        elif name == "cell" and t.num_rows and t.num_cols:
            t[0, 0]
    except Exception:
        pass


def exhaustive_single_ops(tier):
    """All index expressions with bounds in [-n-2, n+2] on small containers
    (thorough tier): single operations on both axes."""
    out = []
    rng = C.Rng(5)
    for kind in ("mnt", "met"):
        for nr, nc in [(1, 1), (2, 1), (3, 2), (2, 3)]:
            cells = R.gen_cells(rng, kind, "int", nr, nc)
            for dim, n in ((0, nr), (1, nc)):
                rngv = list(range(-n - 2, n + 3))
                idxs = [{"t": "int", "i": i} for i in rngv]
                for a, b in itertools.product([None] + rngv, repeat=2):
                    for s in (None, 1, 2, 0, -1):
                        idxs.append({"t": "slice", "a": a, "b": b, "s": s})
                for l in itertools.chain.from_iterable(itertools.product(rngv, repeat=k) for k in range(0, 3)):
                    idxs.append({"t": "tensor", "l": list(l)})
                for m in itertools.product([False, True], repeat=n):
                    idxs.append({"t": "mask", "m": list(m)})
                for ix in idxs:
                    out.append({"kind": kind, "dtype": "int", "cells": cells,
                                "prog": [{"op": "sel", "dim": dim, "idx": ix, "via": "getitem"}]})
    return out


def generate(rng, tier):
    n = 2500 if tier == "quick" else 40000
    cases = [gen_case(rng, tier) for _ in range(n)]
    bc = boundary_cases(rng)
    if tier == "quick":
        # a rotating sixth of the boundary stream per quick run (all of it in the thorough tier); the
        # end-point-contiguous index lists are always kept
        def dupgap(c):
            return any(st.get("idx") and st["idx"]["t"] in ("list", "tensor") and len(st["idx"]["l"]) >= 3
                       and len(set(st["idx"]["l"])) < len(st["idx"]["l"]) for st in c["prog"])
        bc = [c for c in bc if dupgap(c) or rng.chance(0.17)]
    cases += bc
    if tier == "thorough":
        cases += exhaustive_single_ops(tier)
    return cases


def apply_step(t, st):
    if st["op"] == "pair":
        return t[R.to_py_index(st["i"]), R.to_py_index(st["j"])]
    if st["op"] == "narrow":
        return t.narrow(st["dim"], st["start"], st["len"])
    ix = R.to_py_index(st["idx"])
    if st["via"] == "select":
        return t.select(ix, st["dim"])
    if st["via"] == "index_select":
        return t.index_select(ix, st["dim"])
    if st["dim"] in (0, -3):
        return t[ix]
    return t[:, ix]


def observe_meta(t):
    """size(dim) for every legal dim, len, shape, dim(); size of the ragged axis must raise"""
    m = {}
    try:
        m["sizes"] = [t.size(0), t.size(1), t.size(-3), t.size(-2)]
        m["len"] = len(t)
        m["shape"] = list(t.shape)
        m["ndim"] = t.dim()
    except Exception as ex:
        m["exc"] = C.exc_name(ex)
    bad = []
    for d in (2, -1, 3, -4):
        try:
            t.size(d)
            bad.append(d)
        except IndexError:
            pass
        except Exception as ex:
            bad.append(f"{d}:{C.exc_name(ex)}")
    m["size_accepts"] = bad
    return m


def run(case):
    t = R.build(case["kind"], case["dtype"], case["cells"])
    steps = []
    for st in case["prog"]:
        for pb in st.get("probes", []):
            run_probe(t, pb)
        snap = R.snapshot(t)
        try:
            r = apply_step(t, st)
        except Exception as ex:
            steps.append({"ok": False, "exc": C.exc_name(ex), "src_same": R.same_snapshot(t, snap)})
            break
        rec = {"ok": True, "src_same": R.same_snapshot(t, snap)}
        if isinstance(r, torch.Tensor):
            rec["value"] = [R.scal(v) for v in r.tolist()]
            rec["vdim"] = r.dim()
            steps.append(rec)
            break
        rec["nr"], rec["nc"] = r.num_rows, r.num_cols
        rec["meta"] = observe_meta(r)
        rec["wf"] = R.wf_report(r)
        try:
            rec["cells"] = R.read_cells(r)
        except Exception as ex:
            rec["cells_exc"] = C.exc_name(ex)
        steps.append(rec)
        t = r
    return {"steps": steps}


def ref_run(case):
    """The same program on a plain nested list."""
    cells = case["cells"]
    state = (len(cells), len(cells[0]), cells)
    out = []
    for st in case["prog"]:
        try:
            if st["op"] == "pair":
                i, j = st["i"], st["j"]
                if i["t"] == "int" and j["t"] == "int":
                    pi = R.ref_positions(i, state[0])
                    pj = R.ref_positions(j, state[1])
                    out.append({"ok": True, "value": state[2][pi[0]][pj[0]]})
                    break
                state = R.ref_select(state, i, 0)
                state = R.ref_select(state, j, 1)
            elif st["op"] == "narrow":
                ax = 0 if st["dim"] in (0, -3) else 1
                pos = narrow_positions(st, state[ax] if st["dim"] in (0, 1, -3, -2) else 0)
                state = R.ref_select(state, {"t": "list", "l": pos}, ax)
            else:
                if st["dim"] not in (0, 1, -3, -2):
                    raise R.RefErr("dimension out of range")
                state = R.ref_select(state, st["idx"], 0 if st["dim"] in (0, -3) else 1)
        except R.RefErr as ex:
            out.append({"ok": False, "why": str(ex)})
            break
        out.append({"ok": True, "nr": state[0], "nc": state[1], "cells": state[2]})
    return out


# reasons for which the nested-list reference has no answer AND the property text demands no raise either
UNSUPPORTED_WHY = ("mask length", "dimension out of range", "narrow start < 0")


def unsupported_accepted(case, obs):
    """True when the implementation RETURNED something for an unsupported index expression (then the Coq model,
    which mirrors the current code and raises there, is not compared on this case)."""
    ref = ref_run(case)
    for r, g in zip(ref, obs.get("steps", [])):
        if not r["ok"]:
            return r.get("why") in UNSUPPORTED_WHY and g["ok"]
    return False


def step_kind(st):
    if st["op"] == "pair":
        return f"pair({st['i']['t']},{st['j']['t']})"
    if st["op"] == "narrow":
        return "narrowBadDim" if st["dim"] not in (0, 1, -3, -2) else f"narrow{0 if st['dim'] in (0, -3) else 1}"
    if st["dim"] not in (0, 1, -3, -2):
        return f"selBadDim({st['idx']['t']})"
    return f"sel{0 if st['dim'] in (0, -3) else 1}({st['idx']['t']})"


def oracle(case, obs):
    if "harness_exc" in obs:
        return dict(key="harness-exc", what="harness failed to run the case: " + obs["harness_exc"], tb=obs.get("tb"))
    ref = ref_run(case)
    got = obs["steps"]
    for k, (r, g) in enumerate(zip(ref, got)):
        kind = step_kind(case["prog"][k])
        if not g.get("src_same", True):
            return dict(key="source-modified", what=f"step {k} {kind} modified its source container")
        if not r["ok"] and r.get("why") in UNSUPPORTED_WHY:
            # not a supported selection (wrong-length mask, an axis other than rows / columns, narrow with a negative
            # start): the property demands neither a raise nor a particular result - nothing further is judged
            return None
        if r["ok"] != g["ok"]:
            if r["ok"]:
                return dict(key=f"raises:{case['kind']}:{kind}",
                            what=f"step {k} {kind} raised {g.get('exc')} where the nested list selection succeeds",
                            expected=r, observed=g)
            return dict(key=f"no-raise:{case['kind']}:{kind}",
                        what=f"step {k} {kind} returned data where the property demands a raise ({r['why']})",
                        expected=r, observed=g)
        if not r["ok"]:
            continue
        if "value" in r:
            if g.get("value") != r["value"] or g.get("vdim") != 1:
                return dict(key=f"wrong-cell:{case['kind']}", what=f"step {k} single-cell access returned wrong data",
                            expected=r, observed=g)
            continue
        mt = g.get("meta")
        if mt is not None:
            want = {"sizes": [r["nr"], r["nc"], r["nr"], r["nc"]], "len": r["nr"], "shape": [r["nr"], r["nc"], -1],
                    "ndim": 3, "size_accepts": []}
            if "exc" in mt or any(mt.get(kk) != vv for kk, vv in want.items()):
                return dict(key=f"meta:{case['kind']}", what=f"step {k} {kind}: size()/len()/shape/dim() of the result "
                            f"are {mt}, expected {want}", expected=r, observed=g)
        if g.get("wf"):
            return dict(key=f"ill-formed:{case['kind']}:{kind}", what=f"step {k} {kind} result is ill-formed: {g['wf']}",
                        expected=r, observed=g)
        if "cells_exc" in g:
            return dict(key=f"unreadable:{case['kind']}:{kind}",
                        what=f"step {k} {kind}: cells of the result cannot be read ({g['cells_exc']})",
                        expected=r, observed=g)
        if (g["nr"], g["nc"]) != (r["nr"], r["nc"]) or g["cells"] != r["cells"]:
            return dict(key=f"wrong-cells:{case['kind']}:{kind}",
                        what=f"step {k} {kind} returned different cells than the nested-list selection",
                        expected=r, observed=g)
    if len(got) < len(ref):
        return dict(key="short-run", what="implementation run stopped early", expected=ref, observed=got)
    return None


def shrink(case):
    prog = case["prog"]
    if any(st.get("probes") for st in prog):
        yield dict(case, prog=[{k: v for k, v in st.items() if k != "probes"} for st in prog])
        for k, st in enumerate(prog):
            if st.get("probes"):
                yield dict(case, prog=prog[:k] + [{kk: v for kk, v in st.items() if kk != "probes"}] + prog[k + 1:])
    # drop a prefix step if it is not needed, shorten the program
    for k in range(len(prog)):
        yield dict(case, prog=prog[:k] + prog[k + 1:])
    cells = case["cells"]
    if len(cells) > 1:
        for k in range(len(cells)):
            yield dict(case, cells=cells[:k] + cells[k + 1:])
    if len(cells[0]) > 1:
        for k in range(len(cells[0])):
            yield dict(case, cells=[row[:k] + row[k + 1:] for row in cells])


def nontrivial_sig(case, obs):
    steps = obs.get("steps", [])
    if not steps:
        return None
    nontriv = any((s["ok"] and (s.get("value") or (s.get("nr", 0) * s.get("nc", 0) > 0))) or not s["ok"] for s in steps)
    if not nontriv:
        return None
    sig = [case["kind"], case["dtype"], len(case["cells"]), len(case["cells"][0])]
    for st, s in zip(case["prog"], steps):
        sig.append((step_kind(st), s["ok"], s.get("nr"), s.get("nc")))
    return json.dumps(sig)


def stats(cases, obss):
    d = {"kinds": {}, "index_kinds": {}, "prog_len": {}, "error_cases": 0, "through_empty": 0, "total": 0}
    for c, o in zip(cases, obss):
        if c is None:
            continue
        d["total"] += 1
        d["kinds"][c["kind"] + "/" + c["dtype"]] = d["kinds"].get(c["kind"] + "/" + c["dtype"], 0) + 1
        d["prog_len"][len(c["prog"])] = d["prog_len"].get(len(c["prog"]), 0) + 1
        for st in c["prog"]:
            k = step_kind(st)
            d["index_kinds"][k] = d["index_kinds"].get(k, 0) + 1
            v = st.get("via", st["op"])
            d.setdefault("entry_points", {})
            d["entry_points"][v] = d["entry_points"].get(v, 0) + 1
            if st["op"] == "sel":
                dk = f"dim={st['dim']}"
                d.setdefault("dims", {})
                d["dims"][dk] = d["dims"].get(dk, 0) + 1
        steps = o.get("steps", [])
        if c.get("boundary"):
            d["boundary_cases"] = d.get("boundary_cases", 0) + 1
            for st in c["prog"]:
                ix = st.get("idx")
                if ix and ix["t"] in ("list", "tensor") and len(ix["l"]) >= 3 and sorted(ix["l"]) == ix["l"] \
                        and len(set(ix["l"])) < len(ix["l"]) and ix["l"][-1] - ix["l"][0] == len(ix["l"]) - 1:
                    d["dup_gap_runs"] = d.get("dup_gap_runs", 0) + 1
        if any(st.get("probes") for st in c["prog"]):
            d["with_history_probes"] = d.get("with_history_probes", 0) + 1
        if any(not s["ok"] for s in steps) and not c.get("boundary"):
            d["error_cases"] += 1
        if any(s["ok"] and "nr" in s and s["nr"] * s["nc"] == 0 for s in steps[:-1]):
            d["through_empty"] += 1
    return d


# ------------------------------------------------------------- Coq side
def coq_step(st):
    if st["op"] == "pair":
        return f"SPair {R.coq_index(st['i'])} {R.coq_index(st['j'])}"
    if st["op"] == "narrow":
        return f"SNarrow {C.cz(st['dim'])} {C.cz(st['start'])} {C.cz(st['len'])}"
    if st["via"] in ("select", "index_select"):      # .select(idx, dim) receives the raw dim: the model normalises it itself
        return f"SSelZ {C.cz(st['dim'])} {R.coq_index(st['idx'])}"
    d = 0 if st["dim"] in (0, -3) else 1   # t[idx] / t[:, idx]: the axis is fixed by the syntax
    return f"SSel {d}%nat {R.coq_index(st['idx'])}"


def coq_obs_step(s):
    if not s["ok"]:
        return "OErr"
    if "value" in s:
        return f"OVal {C.clist(s['value'], R.coq_scalar)}"
    return f"OCells {s['nr']}%nat {s['nc']}%nat {R.coq_cells(s['cells'])}"


def coq_term(case, obs):
    if "steps" not in obs or any("cells_exc" in s for s in obs["steps"]):
        return None
    if unsupported_accepted(case, obs):
        return None
    ctor = "run_mnt" if case["kind"] == "mnt" else "run_met"
    prog = C.clist(case["prog"][:len(obs["steps"])], coq_step)
    o = C.clist(obs["steps"], coq_obs_step)
    term = f"obs_eqb ({ctor} {R.coq_cells(case['cells'])} {prog}) {o}"
    # the refinement statement of Props/C05.v evaluated on this program (selection steps only)
    sels = []
    for st in case["prog"]:
        if st["op"] != "sel" or st["dim"] not in (0, 1, -3, -2):
            break        # canon_* follows plain selections; narrow / pair steps are covered by the observation term
        sels.append(f"({0 if st['dim'] in (0, -3) else 1}%nat, {R.coq_index(st['idx'])})")
    canon = "canon_mnt" if case["kind"] == "mnt" else "canon_met"
    return f"({term} && {canon} {R.coq_cells(case['cells'])} {C.clist(sels)})"


def sanity(cases, obss):
    """Fail-closed distribution check: every index kind on both axes must be drawn and error cases stay a minority."""
    d = stats(cases, obss)
    probs = []
    if d["total"] and d["error_cases"] > 0.6 * d["total"]:
        probs.append(f"{d['error_cases']} of {d['total']} programs end in an error")
    for ax in (0, 1):
        for k in ("int", "slice", "list", "range", "tensor", "mask"):
            if d["index_kinds"].get(f"sel{ax}({k})", 0) == 0:
                probs.append(f"index kind sel{ax}({k}) never drawn")
    for v in ("getitem", "select", "index_select", "narrow", "pair"):
        if d.get("entry_points", {}).get(v, 0) == 0:
            probs.append(f"entry point {v} never drawn")
    for dk in ("dim=0", "dim=1", "dim=-3", "dim=-2"):
        if d.get("dims", {}).get(dk, 0) == 0:
            probs.append(f"{dk} never drawn")
    for ax in (0, 1):
        if d["index_kinds"].get(f"narrow{ax}", 0) == 0:
            probs.append(f"narrow along axis {ax} never drawn")
    if not any(k.startswith("pair(") for k in d["index_kinds"]):
        probs.append("pair access never drawn")
    if d["through_empty"] == 0:
        probs.append("no program passes through an empty result")
    if d.get("boundary_cases", 0) < 300:
        probs.append(f"only {d.get('boundary_cases', 0)} boundary cases drawn")
    if d.get("dup_gap_runs", 0) < 4:
        probs.append("sorted index lists with a duplicate compensated by a gap (end-point-contiguous) not drawn")
    if d.get("with_history_probes", 0) == 0:
        probs.append("no program interleaves discarded operations on its intermediate containers")
    for kind in ("mnt/int", "mnt/float", "met/int", "met/float"):
        if d["kinds"].get(kind, 0) == 0:
            probs.append(f"container kind {kind} never drawn")
    return probs
