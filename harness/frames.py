"""Shared between C07/C08: TensorFrame descriptions (JSON), builders of the real
objects, readers of every cell through the public API, the plain nested-list
reference, frame expressions (build / select / cat) and the Coq printers.

A frame description
  {"feats": [ {"stype": <stype name>, "kind": "dense"|"mnt"|"met"|"dict", "dtype": "float"|"int",
               "names": [...], "inner": k,                    (dense only: trailing size, 0 = 2-D tensor)
               "cells": rows x cols x cell                    (dense/mnt/met)
               "comps": {key: rows x cols x cell}, "keys": [...]   (dict) } ...],
   "y": [...] | None, "ydtype": "float"|"int", "num_rows": n | None, "n": rows}
Every scalar is  rid*120 + slot (+ 1/8 .. 7/8 for floats): multiples of 1/8 below 1000 that carry the id of the
row they were created in; None = NaN (float tensors only); -1 = the library's missing marker of int tensors.
"""
from __future__ import annotations

import math

import torch

import torch_frame
from torch_frame import TensorFrame, stype
from torch_frame.data import MultiEmbeddingTensor, MultiNestedTensor

from harness import common as C
from harness import ragged as R

STYPES = [s.value for s in stype]
KIND_OF = {
    "numerical": "dense", "categorical": "dense", "timestamp": "dense",
    "multicategorical": "mnt", "sequence_numerical": "mnt",
    "embedding": "met", "text_embedded": "met", "image_embedded": "met",
    "text_tokenized": "dict",
}
DTYPE_OF = {
    "numerical": "float", "categorical": "int", "timestamp": "int",
    "multicategorical": "int", "sequence_numerical": "float",
    "embedding": "float", "text_embedded": "float", "image_embedded": "float",
    "text_tokenized": "int",
}
DICT_KEYS = ["input_ids", "attention_mask"]
KIND_CODE = {"dense": 0, "mnt": 1, "met": 2, "dict": 3}
ROW_STRIDE = 120


# ---------------------------------------------------------------- generation
class Slots:
    """hands out scalars that carry the row id"""

    def __init__(self, rng):
        self.rng = rng
        self.next = {}

    def scalar(self, rid, dtype, miss_p=0.1):
        k = self.next.get(rid, 0)
        self.next[rid] = k + 1
        base = rid * ROW_STRIDE + (k % ROW_STRIDE)
        if dtype == "float":
            if self.rng.chance(miss_p):
                return None
            return base + self.rng.randint(0, 7) / 8.0
        if self.rng.chance(miss_p * 0.6):
            return -1
        return base


def rid_of(x):
    """row id carried by a scalar (None when it is a missing marker)"""
    if x is None or x == -1:
        return None
    return int(math.floor(x)) // ROW_STRIDE


def gen_feat(rng, slots, st, n, names, miss_p=0.1):
    kind, dtype = KIND_OF[st], DTYPE_OF[st]
    c = len(names)
    f = {"stype": st, "kind": kind, "dtype": dtype, "names": list(names)}
    if kind == "dense":
        inner = 0
        if st == "timestamp":
            inner = rng.pick([1, 2, 3])
        f["inner"] = inner
        w = max(inner, 1)
        f["cells"] = [[[slots.scalar(i, dtype, miss_p) for _ in range(w)] for _ in range(c)] for i in range(n)]
    elif kind == "mnt":
        f["cells"] = [[[slots.scalar(i, dtype, miss_p) for _ in range(0 if rng.chance(0.3) else rng.randint(1, 3))]
                       for _ in range(c)] for i in range(n)]
    elif kind == "met":
        widths = [0 if rng.chance(0.08) else rng.randint(1, 3) for _ in range(c)]
        f["cells"] = [[[slots.scalar(i, dtype, miss_p) for _ in range(w)] for w in widths] for i in range(n)]
    else:
        f["keys"] = list(DICT_KEYS)
        lens = [[0 if rng.chance(0.2) else rng.randint(1, 3) for _ in range(c)] for _ in range(n)]
        f["comps"] = {k: [[[slots.scalar(i, dtype, 0.0) for _ in range(lens[i][j])] for j in range(c)]
                          for i in range(n)] for k in f["keys"]}
    return f


def gen_frame(rng, n=None, featureless_p=0.08, min_feats=1, max_feats=4, name_prefix="c"):
    """A valid frame description."""
    if n is None:
        n = rng.wpick([(1, 1), (2, 2), (3, 3), (3, 4), (3, 5), (2, 6), (1, 7)])
    slots = Slots(rng)
    fr = {"n": n, "feats": [], "y": None, "ydtype": "float", "num_rows": None}
    if rng.chance(featureless_p):
        fr["num_rows"] = n
        if rng.chance(0.4):
            fr["ydtype"] = rng.pick(["float", "int"])
            fr["y"] = [slots.scalar(i, fr["ydtype"], 0.0) for i in range(n)]
        return fr
    k = rng.randint(min_feats, max_feats)
    sts = rng.sample(STYPES, k)
    miss_p = rng.pick([0.0, 0.1, 0.3])
    cid = 0
    for st in sts:
        c = rng.wpick([(4, 1), (4, 2), (2, 3)])
        names = [f"{name_prefix}{cid + j}" for j in range(c)]
        cid += c
        fr["feats"].append(gen_feat(rng, slots, st, n, names, miss_p))
    if rng.chance(0.6):
        fr["ydtype"] = rng.pick(["float", "int"])
        fr["y"] = [slots.scalar(i, fr["ydtype"], 0.0) for i in range(n)]
    if rng.chance(0.2):
        fr["num_rows"] = n
    return fr


# ------------------------------------------------------------ real objects
def _tens(cell, dtype):
    td = torch.float32 if dtype == "float" else torch.long
    return torch.tensor([float("nan") if x is None else x for x in cell], dtype=td)


def build_feat(f):
    kind, dtype = f["kind"], f["dtype"]
    td = torch.float32 if dtype == "float" else torch.long
    if kind == "dense":
        c = f.get("ncols", len(f["names"]))
        inner = f["inner"]
        n = len(f["cells"])
        flat = [[float("nan") if x is None else x for cell in row for x in cell] for row in f["cells"]]
        w = max(inner, 1)
        t = torch.tensor(flat, dtype=td).reshape(n, c * w) if n else torch.empty((0, c * w), dtype=td)
        if f.get("ndim1"):
            return t.reshape(-1)
        return t.reshape(n, c, w) if inner > 0 else t.reshape(n, c)
    if kind == "mnt":
        return MultiNestedTensor.from_tensor_mat([[_tens(cell, dtype) for cell in row] for row in f["cells"]])
    if kind == "met":
        cells = f["cells"]
        n, c = len(cells), len(cells[0])
        cols = []
        for j in range(c):
            w = len(cells[0][j])
            cols.append(torch.stack([_tens(row[j], dtype) for row in cells]).reshape(n, w))
        return MultiEmbeddingTensor.from_tensor_list(cols)
    return {k: MultiNestedTensor.from_tensor_mat([[_tens(cell, dtype) for cell in row] for row in f["comps"][k]])
            for k in f["keys"]}


def build_frame(fr):
    feat_dict, names = {}, {}
    for f in fr["feats"]:
        feat_dict[stype(f["stype"])] = build_feat(f)
    for s, nm in fr.get("names_override", [(f["stype"], f["names"]) for f in fr["feats"]]):
        names[stype(s)] = list(nm)
    y = None
    if fr["y"] is not None:
        y = _tens(fr["y"], fr["ydtype"])
    ctor = fr.get("ctor", "pos")          # every accepted call form of TensorFrame(feat_dict, col_names_dict, y, num_rows)
    if ctor == "kw":
        return TensorFrame(col_names_dict=names, feat_dict=feat_dict, num_rows=fr["num_rows"], y=y)
    if ctor == "allpos":
        return TensorFrame(feat_dict, names, y, fr["num_rows"])
    if ctor == "defaults" and y is None and fr["num_rows"] is None:
        return TensorFrame(feat_dict, names)
    return TensorFrame(feat_dict, names, y, num_rows=fr["num_rows"])


CTORS = ["pos", "kw", "allpos", "defaults"]
VIAS = [None, "copy", "to", "cpu", "to_kw"]


def via(tf, how):
    """public entry points that hand back 'the same frame': copy.copy / device transfer (all go through __copy__/_apply)"""
    import copy as _copy
    if how == "copy":
        return _copy.copy(tf)
    if how == "to":
        return tf.to("cpu")
    if how == "cpu":
        return tf.cpu()
    if how == "to_kw":
        return tf.to(device=torch.device("cpu"))
    return tf


def to_index_obj(ix):
    """the Python object of an index expression, in every representation torch offers for it: int64 / int32 index
    tensors, contiguous or strided (a view with stride 2) tensors and masks"""
    obj = R.to_py_index(ix)
    if ix["t"] in ("tensor", "mask"):
        if ix["t"] == "tensor" and ix.get("dtype") == "int32":
            obj = obj.to(torch.int32)
        if ix.get("nc"):
            wide = torch.zeros(2 * obj.numel(), dtype=obj.dtype)
            wide[::2] = obj
            obj = wide[::2]                      # same entries, not contiguous
    return obj


def read_props(tf):
    return {"num_rows": tf.num_rows, "num_cols": tf.num_cols, "stypes": [s.value for s in tf.stypes],
            "is_empty": tf.is_empty, "len": len(tf)}


def ref_props(o):
    present = {s for s, _ in o["feats"]}
    return {"num_rows": o["len"], "num_cols": sum(len(nm) for _, nm in o["names"]),
            "stypes": [s for s in STYPES if s in present], "is_empty": not o["feats"], "len": o["len"]}


# --------------------------------------------------------- frame expressions
def full_snapshot(tf):
    """everything a user can see of a frame: cells, names (deep copy), y, len, num_cols, and whether it still validates"""
    try:
        snap = read_frame(tf)
        snap["num_cols"] = tf.num_cols
        try:
            tf.validate()
            snap["validates"] = True
        except Exception as ex:
            snap["validates"] = type(ex).__name__
        return snap
    except Exception as ex:
        return {"unreadable": type(ex).__name__ + ": " + str(ex)[:120]}


def ev(e, env=None, log=None, trace=None):
    """evaluate a frame expression on the real library.  env: objects bound by {"op": "ref", "i": k} (reused, not
    rebuilt); log: list receiving a record for every input of a cat that is not the same after the cat as before."""
    op = e["op"]
    if op == "ref":
        return env[e["i"]]
    if op == "build":
        return build_frame(e["frame"])
    if op == "sel":
        return ev(e["of"], env, log, trace)[to_index_obj(e["idx"])]
    if op == "via":
        return via(ev(e["of"], env, log, trace), e["how"])
    if op == "cat":
        parts = [ev(p, env, log, trace) for p in e["parts"]]
        form = e.get("form", "list")            # every accepted call form of torch_frame.cat(lst, dim)
        def call():
            if form == "tuple":
                return torch_frame.cat(tuple(parts), e["dim"])
            if form == "kw":
                return torch_frame.cat(lst=parts, dim=e["dim"])
            if form == "utils":
                from torch_frame.utils import cat as cat2
                return cat2(parts, dim=e["dim"])
            return torch_frame.cat(parts, e["dim"])
        if log is None:
            return call()
        snaps = [full_snapshot(p) for p in parts]
        res = None
        try:
            res = call()
            return res
        finally:
            afters = [full_snapshot(p) for p in parts]
            for k, (before, after) in enumerate(zip(snaps, afters)):
                if after != before:
                    log.append({"part": k, "dim": e["dim"], "before": before, "after": after})
            if trace is not None and all("names" in x for x in snaps + afters):
                # the column-name lists of the parts before and after the call, and those of the result
                trace.append({"dim": e["dim"], "before": [x["names"] for x in snaps], "after": [x["names"] for x in afters],
                              "result": None if res is None else [[s_.value, list(nm)] for s_, nm in res.col_names_dict.items()]})
    raise ValueError(op)


def subst(e, env_exprs):
    """the pure expression denoted by e: every reference replaced by the expression it is bound to"""
    if e is None:
        return None
    op = e["op"]
    if op == "ref":
        return subst(env_exprs[e["i"]], env_exprs)
    if op == "build":
        return e
    if op in ("sel", "via"):
        return dict(e, of=subst(e["of"], env_exprs))
    return dict(e, parts=[subst(p_, env_exprs) for p_ in e["parts"]])


# ---------------------------------------------------------- observation
def scal(x):
    if isinstance(x, float):
        if math.isnan(x):
            return None
    return x


def _nest(v):
    if isinstance(v, list):
        return [_nest(x) for x in v]
    return scal(v)


def read_feat(x):
    """kind, inner, [(key, nrows, ncols, cells)] through public accessors only"""
    if isinstance(x, dict):
        return {"kind": "dict", "inner": 0, "comps": [[k, v.num_rows, v.num_cols, R.read_cells(v)] for k, v in x.items()]}
    if isinstance(x, MultiNestedTensor):
        return {"kind": "mnt", "inner": 0, "comps": [["", x.num_rows, x.num_cols, R.read_cells(x)]]}
    if isinstance(x, MultiEmbeddingTensor):
        return {"kind": "met", "inner": 0, "comps": [["", x.num_rows, x.num_cols, R.read_cells(x)]]}
    assert isinstance(x, torch.Tensor)
    if x.dim() == 2:
        cells = [[[scal(v)] for v in row] for row in x.tolist()]
        return {"kind": "dense", "inner": 0, "comps": [["", x.size(0), x.size(1), cells]]}
    assert x.dim() == 3, x.shape
    return {"kind": "dense", "inner": x.size(2), "comps": [["", x.size(0), x.size(1), _nest(x.tolist())]]}


def read_frame(tf):
    return {
        "len": len(tf),
        "feats": [[s.value, read_feat(x)] for s, x in tf.feat_dict.items()],
        "names": [[s.value, list(nm)] for s, nm in tf.col_names_dict.items()],
        "y": None if tf.y is None else [scal(v) for v in tf.y.tolist()],
        "ydt": None if tf.y is None else (("float" if tf.y.is_floating_point() else "int"), tf.y.dim()),
    }


def canon_obs(o):
    """order-insensitive form of an observation (dict insertion order is not an observation of the property)"""
    return {"len": o["len"], "feats": dict((s, f) for s, f in o["feats"]), "names": dict((s, n) for s, n in o["names"]),
            "y": o["y"], "ydt": (tuple(o["ydt"]) if o.get("ydt") is not None else None)}


# ------------------------------------------------------- reference (lists)
def ref_of_desc(fr):
    """the observation a frame built from the description must give"""
    feats, names = [], []
    for f in fr["feats"]:
        if f["kind"] == "dict":
            comps = [[k, len(f["comps"][k]), len(f["names"]), f["comps"][k]] for k in f["keys"]]
        else:
            comps = [["", len(f["cells"]), len(f["names"]), f["cells"]]]
        feats.append([f["stype"], {"kind": f["kind"], "inner": f.get("inner", 0), "comps": comps}])
        names.append([f["stype"], list(f["names"])])
    return {"len": fr["n"], "feats": feats, "names": names, "y": None if fr["y"] is None else list(fr["y"]),
            "ydt": None if fr["y"] is None else (fr["ydtype"], 1)}


def ref_select(o, ix):
    """independent per-column selection on the nested lists; R.RefErr where a Python list would raise"""
    n = o["len"]
    pos = R.ref_positions(ix if ix["t"] != "int" else {"t": "list", "l": [ix["i"]]}, n)
    feats = []
    for s, f in o["feats"]:
        comps = [[k, len(pos), c, [m[i] for i in pos]] for k, _, c, m in f["comps"]]
        feats.append([s, dict(f, comps=comps)])
    return {"len": len(pos), "feats": feats, "names": o["names"], "y": None if o["y"] is None else [o["y"][i] for i in pos],
            "ydt": o.get("ydt")}


def obs_same(a, b):
    return canon_obs(a) == canon_obs(b)


def deep_snapshot(tf):
    return read_frame(tf)


# ------------------------------------------------------------ Coq printers
def coq_scalar(x):
    if x is None:
        return "None"
    v = x * 8
    assert v == int(v), x
    return f"(Some {C.cz(int(v))})"


def coq_cells(cells):
    return C.clist(cells, lambda row: C.clist(row, lambda c: C.clist(c, coq_scalar)))


def coq_stype(s):
    return "st_" + s


def coq_names(names):
    return C.clist(names, lambda sn: f"({coq_stype(sn[0])}, {C.clist(sn[1], C.cstr)})")


def coq_y(y):
    return C.copt(y, lambda v: C.clist(v, coq_scalar))


def coq_fspec(f):
    k = f["kind"]
    if k == "dense":
        c = f.get("ncols", len(f["names"]))
        return f"SDense {c}%nat {max(f['inner'], 1)}%nat {coq_cells(f['cells'])}"
    if k == "mnt":
        return f"SNested {coq_cells(f['cells'])}"
    if k == "met":
        return f"SEmb {coq_cells(f['cells'])}"
    return "SDict " + C.clist(f["keys"], lambda key: f"({C.cstr(key)}, {coq_cells(f['comps'][key])})")


def coq_frame(fr):
    feats = C.clist(fr["feats"], lambda f: f"({coq_stype(f['stype'])}, {coq_fspec(f)})")
    names = coq_names(fr.get("names_override", [(f["stype"], f["names"]) for f in fr["feats"]]))
    ov = C.copt(fr["num_rows"], C.cnat)
    return f"(EBuild {feats} {names} {coq_y(fr['y'])} {ov})"


def coq_expr(e):
    op = e["op"]
    if op == "build":
        return coq_frame(e["frame"])
    if op == "sel":
        return f"(ESel {coq_expr(e['of'])} {R.coq_index(e['idx'])})"
    if op == "via":
        return coq_expr(e["of"])                 # copy / device transfer: the same frame in the pure model
    if op == "cat":
        return f"(ECat {C.clist(e['parts'], coq_expr)} {C.cz(e['dim'])})"
    raise ValueError(op)


def coq_featobs(f):
    comps = C.clist(f["comps"], lambda c: f"({C.cstr(c[0])}, ({c[1]}%nat, {c[2]}%nat, {coq_cells(c[3])}))")
    inner = max(f["inner"], 1) if f["kind"] == "dense" else 0   # the model does not tell (n, c) from (n, c, 1)
    return f"({KIND_CODE[f['kind']]}%nat, {inner}%nat, {comps})"


def coq_obs(o):
    if o is None:
        return "FOErr"
    feats = C.clist(o["feats"], lambda sf: f"({coq_stype(sf[0])}, {coq_featobs(sf[1])})")
    return f"(FOFrame {o['len']}%nat {feats} {coq_names(o['names'])} {coq_y(o['y'])})"


# ------------------------------------------------- reference evaluator (C08)
# Plain nested lists only: a reference frame is the observation dict of read_frame
# ({"len", "feats": [[stype, {"kind", "inner", "comps": [[key, nrows, ncols, cells]]}]], "names", "y"}).
def _feat_shape_from_desc(f):
    if f["kind"] == "dict":
        return [[k, len(f["comps"][k]), len(f["comps"][k][0]) if f["comps"][k] else f.get("ncols", len(f["names"])),
                 f["comps"][k]] for k in f["keys"]]
    cells = f["cells"]
    return [["", len(cells), len(cells[0]) if cells else f.get("ncols", len(f["names"])), cells]]


def ref_build(fr):
    """What constructing the described frame must give: the data as given, or RefErr when the parts disagree on the
    number of rows or columns (the property's validate clause)."""
    feats, names = [], []
    for f in fr["feats"]:
        if f.get("ndim1"):
            raise R.RefErr("feature tensor with fewer than 2 dimensions")
        feats.append([f["stype"], {"kind": f["kind"], "inner": f.get("inner", 0), "comps": _feat_shape_from_desc(f)}])
    names = [[s, list(nm)] for s, nm in fr.get("names_override", [(f["stype"], f["names"]) for f in fr["feats"]])]
    if sorted(s for s, _ in feats) != sorted(s for s, _ in names):
        raise R.RefErr("feat_dict and col_names_dict have different stypes")
    if fr["num_rows"] is not None:
        n = fr["num_rows"]
    elif feats:
        n = feats[0][1]["comps"][0][1]
    else:
        n = 0
    nd = dict((s, nm) for s, nm in names)
    for s, f in feats:
        for k, nr, ncol, m in f["comps"]:
            if ncol != len(nd[s]):
                raise R.RefErr(f"{s}: {ncol} columns of data for {len(nd[s])} column names")
            if nr != n:
                raise R.RefErr(f"{s}: {nr} rows, frame has {n}")
        if len(nd[s]) == 0:
            raise R.RefErr(f"{s}: no columns")
    y = None if fr["y"] is None else list(fr["y"])
    if y is not None and len(y) != n:
        raise R.RefErr(f"y has {len(y)} rows, frame has {n}")
    return {"len": n, "feats": feats, "names": names, "y": y, "ydt": None if y is None else (fr["ydtype"], 1)}


def _same_struct(fa, fb, axis):
    if fa["kind"] != fb["kind"]:
        raise R.RefErr("storage kinds differ")
    if fa["inner"] != fb["inner"]:
        raise R.RefErr("trailing shapes differ")
    ka, kb = [c[0] for c in fa["comps"]], [c[0] for c in fb["comps"]]
    if sorted(ka) != sorted(kb):
        raise R.RefErr("dict keys differ")


def ref_cat(parts, dim):
    """The property's reading of torch_frame.cat: rows of the parts in order / union of the columns with names and
    data paired; RefErr for mismatched column sets, duplicated names, conflicting targets, an empty list."""
    if len(parts) == 0:
        raise R.RefErr("empty list")
    if dim == 0:
        n0 = dict((s, nm) for s, nm in parts[0]["names"])
        for p in parts[1:]:
            if dict((s, nm) for s, nm in p["names"]) != n0:
                raise R.RefErr("column sets differ")
        if any((p["y"] is None) != (parts[0]["y"] is None) for p in parts):
            raise R.RefErr("some parts have a target, some do not")
        feats = []
        for s, f0 in parts[0]["feats"]:
            comps = []
            for key, _, ncol, _ in f0["comps"]:
                rows = []
                for p in parts:
                    fp = dict(p["feats"])[s]
                    _same_struct(f0, fp, 0)
                    cp = dict((c[0], c) for c in fp["comps"])[key]
                    if cp[2] != ncol:
                        raise R.RefErr("column counts differ")
                    if f0["kind"] == "met" and cp[3] and f0["comps"][0][3] and \
                            [len(c) for c in cp[3][0]] != [len(c) for c in f0["comps"][0][3][0]]:
                        raise R.RefErr("embedding widths differ")
                    rows += cp[3]
                comps.append([key, len(rows), ncol, rows])
            feats.append([s, dict(f0, comps=comps)])
        y = None if parts[0]["y"] is None else [v for p in parts for v in p["y"]]
        return {"len": sum(p["len"] for p in parts), "feats": feats, "names": parts[0]["names"], "y": y,
                "ydt": parts[0].get("ydt")}
    if dim != 1:
        raise R.RefErr("unsupported dim")
    ys = [p["y"] for p in parts if p["y"] is not None]
    if len(ys) > 1:
        raise R.RefErr("more than one part has a target")
    n = parts[0]["len"]
    if any(p["len"] != n for p in parts):
        raise R.RefErr("row counts differ")
    order, names, fd = [], {}, {}
    for p in parts:
        pf = dict(p["feats"])
        for s, nm in p["names"]:
            if s not in names:
                order.append(s)
                names[s] = []
                fd[s] = []
            names[s] += nm
            fd[s].append(pf[s])
    allnames = [x for s in order for x in names[s]]
    if len(set(allnames)) != len(allnames):
        raise R.RefErr("duplicated column names")
    feats = []
    for s in order:
        f0 = fd[s][0]
        comps = []
        for key, _, _, _ in f0["comps"]:
            rows = [[] for _ in range(n)]
            ncol = 0
            for fp in fd[s]:
                _same_struct(f0, fp, 1)
                cp = dict((c[0], c) for c in fp["comps"])[key]
                ncol += cp[2]
                for i in range(n):
                    rows[i] = rows[i] + cp[3][i]
            comps.append([key, n, ncol, rows])
        feats.append([s, dict(f0, comps=comps)])
    return {"len": n, "feats": feats, "names": [[s, names[s]] for s in order], "y": ys[0] if ys else None,
            "ydt": next((p["ydt"] for p in parts if p["y"] is not None), None)}


def ref_ev(e):
    op = e["op"]
    if op == "build":
        return ref_build(e["frame"])
    if op == "sel":
        return ref_select(ref_ev(e["of"]), e["idx"])
    if op == "via":
        return ref_ev(e["of"])
    if op == "cat":
        return ref_cat([ref_ev(p) for p in e["parts"]], e["dim"])
    raise ValueError(op)


ATOL, RTOL = 1e-8, 1e-5      # defaults of torch.allclose


def scal_rel(a, b, nan_ok):
    """'close' / 'far' / 'between' for one pair of scalars: close when within atol + rtol*|.| whichever operand the
    implementation scales by, far when beyond it for both, between otherwise (the property is silent there)."""
    if a is None or b is None:
        return "close" if (a is None and b is None and nan_ok) else "far"
    d = abs(a - b)
    if d <= ATOL + RTOL * min(abs(a), abs(b)):
        return "close"
    if d > ATOL + RTOL * max(abs(a), abs(b)):
        return "far"
    return "between"


def mats_rel(m1, m2, nan_ok=True):
    """closeness of two cell matrices of equal shape; None when the shapes differ"""
    if [[len(c) for c in r] for r in m1] != [[len(c) for c in r] for r in m2]:
        return None
    out = "close"
    for r1, r2 in zip(m1, m2):
        for c1, c2 in zip(r1, r2):
            for x, z in zip(c1, c2):
                rel = scal_rel(x, z, nan_ok)
                if rel == "far":
                    return "far"
                if rel == "between":
                    out = "between"
    return out


def ref_equal(a, b):
    """The property's equality: same columns, same target, same values up to the comparison tolerance, missing == missing
    on features.  Returns (bool, reason), or (None, reason) where the property is silent (a target with missing
    values; a difference between the two operand-dependent tolerances)."""
    silent = None
    if a["len"] != b["len"]:
        return False, "different numbers of rows"
    if (a["y"] is None) != (b["y"] is None):
        return False, "one frame has a target, the other has none"
    if a["y"] is not None:
        if any(v is None for v in a["y"] + b["y"]):
            if [v for v in a["y"]] != [v for v in b["y"]]:
                return False, "targets differ"
            return None, "target with missing values"
        rels = [scal_rel(x, z, False) for x, z in zip(a["y"], b["y"])]
        if "far" in rels:
            return False, "targets differ"
        if "between" in rels:
            silent = "target difference at the tolerance"
    if dict((s, n) for s, n in a["names"]) != dict((s, n) for s, n in b["names"]):
        return False, "column names differ"
    fa, fb = dict(a["feats"]), dict(b["feats"])
    if sorted(fa) != sorted(fb):
        return False, "stypes differ"
    for s in fa:
        x, z = fa[s], fb[s]
        if x["kind"] != z["kind"] or x["inner"] != z["inner"]:
            return False, f"{s}: storage differs"
        cx, cz_ = dict((c[0], c) for c in x["comps"]), dict((c[0], c) for c in z["comps"])
        if sorted(cx) != sorted(cz_):
            return False, f"{s}: dict keys differ"
        for k in cx:
            rel = mats_rel(cx[k][3], cz_[k][3]) if cx[k][1:3] == cz_[k][1:3] else None
            if rel is None or rel == "far":
                return False, f"{s}{'/' + k if k else ''}: values differ"
            if rel == "between":
                silent = "value difference at the tolerance"
    if silent:
        return None, silent
    return True, "equal"


def ref_col(o, name):
    """the column called name: (stype, feature observation with that single column), or (None, None)"""
    hits = [(s, names.index(name)) for s, names in o["names"] if name in names]
    if not hits:
        return None, None
    s, j = hits[-1]
    f = dict(o["feats"])[s]
    comps = [[k, n, 1, [[row[j]] for row in m]] for k, n, c, m in f["comps"]]
    return s, dict(f, comps=comps)


# ------------------------------------------------------------ required stream
def merge_stats(a, b):
    """sum two stats() dictionaries (ints and nested dicts of ints)"""
    out = dict(a)
    for k, v in b.items():
        if k not in out:
            out[k] = v
        elif isinstance(v, dict):
            out[k] = merge_stats(out[k], v)
        elif isinstance(v, (int, float)) and not isinstance(v, bool):
            out[k] = out[k] + v
        elif isinstance(v, bool):
            out[k] = out[k] or v
    return out


def greedy_required(draw, run, stats, problems, base_cases, seed, cap=1500):
    """A deterministic stream (own constant seed, independent of VERIF_SEED and of the tier) that alone satisfies every
    requirement of sanity(): candidates are drawn from the module's random generator under the constant seed and kept only
    when they remove at least one outstanding requirement (greedy cover).  `problems(d)` lists the unmet requirements of
    a stats dictionary d; base_cases are the hand-written deterministic families."""
    rng = C.Rng(seed)
    acc = stats(base_cases, [run(c) for c in base_cases]) if base_cases else None
    left = problems(acc) if acc is not None else None
    kept = []
    for _ in range(cap):
        if left is not None and not left:
            break
        c = draw(rng)
        try:
            o = run(c)
        except Exception:
            continue
        d = stats([c], [o])
        new = d if acc is None else merge_stats(acc, d)
        p_new = problems(new)
        if left is None or len(p_new) < len(left):
            kept.append(c)
            acc, left = new, p_new
    return kept, (left or [])
