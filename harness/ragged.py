"""Shared between C05/C06/C07: building ragged containers from JSON cases,
index expressions, nested-list reference semantics, Coq printers."""
from __future__ import annotations

import math

import torch

from torch_frame.data import MultiEmbeddingTensor, MultiNestedTensor

from harness import common as C


# ---------------------------------------------------------------- generation
def gen_cells(rng, kind, dtype, nr, nc, start_id=1, all_empty=False):
    """rows x cols x cell.  Scalars are unique ids (floats: id + .5), None = NaN
    (float) ; for int payloads -1 is the library's missing marker and appears as
    an ordinary value."""
    cid = [start_id]

    def scalar():
        cid[0] += 1
        if dtype == "float":
            if rng.chance(0.12):
                return None
            if rng.chance(0.06):
                return -1.0      # a genuine -1.0 is NOT the missing marker of float payloads
            return cid[0] + 0.5
        if rng.chance(0.1):
            return -1
        return cid[0]

    if kind == "mnt":
        rows = []
        for _ in range(nr):
            row = []
            for _ in range(nc):
                ln = 0 if (all_empty or rng.chance(0.3)) else rng.randint(1, 3)
                row.append([scalar() for _ in range(ln)])
            rows.append(row)
        return rows
    widths = [0 if (all_empty or rng.chance(0.12)) else rng.randint(1, 3) for _ in range(nc)]
    return [[[scalar() for _ in range(w)] for w in widths] for _ in range(nr)]


def gen_index(rng, n, allow_bad=True):
    """An index expression for an axis of length n (JSON form)."""
    lo, hi = -n - 3, n + 3
    k = rng.wpick([(3, "int"), (5, "slice"), (3, "list"), (2, "range"), (3, "tensor"), (2, "mask")])
    bad = allow_bad and rng.chance(0.15)
    if k == "int":
        if n > 0 and not bad:
            return {"t": "int", "i": rng.randint(-n, n - 1)}
        return {"t": "int", "i": rng.randint(lo, hi)}
    if k == "slice":
        def b():
            return None if rng.chance(0.3) else rng.randint(lo, hi)
        s = rng.wpick([(5, None), (3, 1), (3, 2), (2, 3), (1, 0), (1, -1), (1, -2)]) if allow_bad else \
            rng.wpick([(5, None), (3, 1), (3, 2), (2, 3)])
        return {"t": "slice", "a": b(), "b": b(), "s": s}
    if k in ("list", "tensor"):
        m = rng.randint(0, n + 2)
        if n > 0 and not bad:
            l = [rng.randint(-n, n - 1) for _ in range(m)]
        else:
            l = [rng.randint(lo, hi) for _ in range(m)]
        return {"t": k, "l": l}
    if k == "range":
        s = rng.pick([1, 1, 2, 3, -1, -2])
        if not bad and n > 0:
            a = rng.randint(0, n - 1)
            bb = rng.randint(a, n) if s > 0 else rng.randint(-1, a)
            if s < 0 and bb < 0:
                bb = -1  # range(a, -1, -1) counts down to 0
            return {"t": "range", "a": a, "b": bb, "s": s}
        if rng.chance(0.5):
            # contiguous range overshooting the end / starting before the start
            a = rng.randint(0, n)
            return {"t": "range", "a": a, "b": n + rng.randint(1, 3), "s": rng.pick([1, 1, 2])}
        return {"t": "range", "a": rng.randint(lo, hi), "b": rng.randint(lo, hi), "s": s}
    m = n if not bad else max(0, n + rng.pick([-1, 1]))
    return {"t": "mask", "m": [rng.chance(0.5) for _ in range(m)]}


def to_py_index(ix):
    t = ix["t"]
    if t == "int":
        return ix["i"]
    if t == "slice":
        return slice(ix["a"], ix["b"], ix["s"])
    if t == "list":
        return list(ix["l"])
    if t == "range":
        return range(ix["a"], ix["b"], ix["s"])
    if t == "tensor":
        return torch.tensor(ix["l"], dtype=torch.long)
    if t == "mask":
        return torch.tensor(ix["m"], dtype=torch.bool)
    raise ValueError(t)


# --------------------------------------------------- nested-list reference
class RefErr(Exception):
    pass


def ref_positions(ix, n):
    """Positions the index picks from a Python list of length n (the
    property's reference semantics); RefErr where the property demands a raise."""
    t = ix["t"]
    if t == "int":
        i = ix["i"]
        if not (-n <= i < n):
            raise RefErr("int out of range")
        return [i % n]
    if t == "slice":
        if ix["s"] is not None and ix["s"] <= 0:
            raise RefErr("non-positive step")
        return list(range(n))[slice(ix["a"], ix["b"], ix["s"])]
    if t in ("list", "tensor", "range"):
        l = ix["l"] if t != "range" else list(range(ix["a"], ix["b"], ix["s"]))
        out = []
        for i in l:
            if not (-n <= i < n):
                raise RefErr("element out of range")
            out.append(i % n)
        return out
    if t == "mask":
        if len(ix["m"]) != n:
            raise RefErr("mask length")
        return [i for i, b in enumerate(ix["m"]) if b]
    raise ValueError(t)


def ref_select(state, ix, dim):
    nr, nc, cells = state
    if dim == 0:
        pos = ref_positions(ix, nr)
        return (len(pos), nc, [cells[i] for i in pos])
    pos = ref_positions(ix, nc)
    return (nr, len(pos), [[row[j] for j in pos] for row in cells])


# ---------------------------------------------------------- implementation
def build(kind, dtype, cells):
    td = torch.float64 if dtype == "float" else torch.long

    def tens(c):
        return torch.tensor([float("nan") if x is None else x for x in c], dtype=td)

    if kind == "mnt":
        return MultiNestedTensor.from_tensor_mat([[tens(c) for c in row] for row in cells])
    nc = len(cells[0])
    cols = []
    for j in range(nc):
        w = len(cells[0][j])
        cols.append(torch.stack([tens(row[j]) for row in cells]).reshape(len(cells), w))
    return MultiEmbeddingTensor.from_tensor_list(cols)


def scal(x):
    if isinstance(x, float):
        if math.isnan(x):
            return None
        if x == int(x) and abs(x) < 1e15:
            return float(x)
    return x


def read_cells(t):
    """Observe every cell through the public API."""
    return [[[scal(v) for v in t[i, j].tolist()] for j in range(t.num_cols)] for i in range(t.num_rows)]


def wf_report(t):
    """The representation facts the property's 'well-formed container' names."""
    probs = []
    off = t.offset
    vals = t.values
    if off.dim() != 1 or off.numel() < 1:
        return ["offset is not a non-empty 1-D tensor"]
    o = off.tolist()
    if o[0] != 0:
        probs.append("offset[0] != 0")
    if any(o[k] > o[k + 1] for k in range(len(o) - 1)):
        probs.append("offset not monotone")
    if isinstance(t, MultiNestedTensor):
        if len(o) != t.num_rows * t.num_cols + 1:
            probs.append("len(offset) != num_rows*num_cols+1")
        if vals.dim() != 1:
            probs.append("values not 1-D")
        elif o[-1] != vals.numel():
            probs.append("offset[-1] != len(values)")
    else:
        if len(o) != t.num_cols + 1:
            probs.append("len(offset) != num_cols+1")
        if vals.dim() != 2:
            probs.append(f"values.dim()={vals.dim()} (not 2-D)")
        elif tuple(vals.shape) != (t.num_rows, o[-1]):
            probs.append(f"values.shape={tuple(vals.shape)} != (num_rows={t.num_rows}, offset[-1]={o[-1]})")
    return probs


def snapshot(t):
    return (t.num_rows, t.num_cols, t.values.clone(), t.offset.clone())


def same_snapshot(t, s):
    return (t.num_rows == s[0] and t.num_cols == s[1] and t.values.shape == s[2].shape
            and torch.equal(torch.nan_to_num(t.values.double(), nan=-12345.0),
                            torch.nan_to_num(s[2].double(), nan=-12345.0))
            and torch.equal(t.offset, s[3]))


# ------------------------------------------------------------ Coq printers
def coq_scalar(x):
    # payload scalars are shipped as exact integers: ids are k or k+.5 -> 2k / 2k+1 ; NaN -> None
    if x is None:
        return "None"
    v = x * 2
    assert v == int(v), x
    return f"(Some {C.cz(int(v))})"


def coq_cells(cells):
    return C.clist(cells, lambda row: C.clist(row, lambda c: C.clist(c, coq_scalar)))


def coq_index(ix):
    t = ix["t"]
    oz = lambda v: C.copt(v, C.cz)  # noqa: E731
    if t == "int":
        return f"(IInt {C.cz(ix['i'])})"
    if t == "slice":
        return f"(ISlice {oz(ix['a'])} {oz(ix['b'])} {oz(ix['s'])})"
    if t == "list":
        return f"(IList {C.clist(ix['l'], C.cz)})"
    if t == "tensor":
        return f"(ITensor {C.clist(ix['l'], C.cz)})"
    if t == "range":
        return f"(IRange {C.cz(ix['a'])} {C.cz(ix['b'])} {C.cz(ix['s'])})"
    if t == "mask":
        return f"(IMask {C.clist(ix['m'], C.cbool)})"
    raise ValueError(t)
