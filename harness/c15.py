"""C15 — Table convolutions and decoders keep their structural contracts.

The conv layers and decoders are driven directly on random tensors [B, cols, channels] in float64,
evaluation mode, generic (re-drawn) parameters:
  * row x row and column x column dependency footprints by random-vector perturbation (bit-exact),
    compared with the footprint of the Coq model run on provenance scalars (Model/LayersRun.v);
  * column permutations (TabTransformerConv, FTTransformerConvs + CLS invariance), suffix perturbations
    (ExcelFormerConv causality, exact), row subsets, B = 0, output shapes;
  * shape-mismatch rejections of TromptConv / TromptDecoder (including broadcastable shapes).
"""
from __future__ import annotations

import json
import math

import torch

from harness import common as C
from harness import nnprobe as P

PROP = "C15"
HEADER = "Require Import PF.Lib.Tensor PF.Model.Layers PF.Model.LayersRun."
MODEL_TARGETS = ["Model/LayersRun.vo"]
SHARD = 25
RULE = ("one case = (layer kind, hyper-parameters channels/heads/columns/prompts/layers, batch size 0-4, seed, column "
        "permutation, row index list); distinct = distinct (kind, hyper-parameters, batch size); non-trivial = forward "
        "succeeded on a non-empty batch and a full footprint matrix was measured")
TRUSTED = [
    "Coq 8.16.1 kernel + vm_compute",
    "hand-written model coq/Model/Layers.v of the conv layers / decoders as written (head reshape, einsum patterns, "
    "softmax axis, DiaM mask from seq_ids, CLS prepend/split, Trompt steps and asserts), tied to /repo by this run's "
    "footprint correspondence on provenance scalars (coq/Model/LayersRun.v)",
    "modelled primitives: nn.Linear / LayerNorm / GroupNorm / nn.TransformerEncoder as blocks acting on the last "
    "axis / per sample (explicit hypotheses); reshape, transpose, einsum, softmax, cat, repeat",
    "harness/c15.py + harness/nnprobe.py",
]
ASSUMPTIONS = [
    "exact arithmetic, abstract scalars, uninterpreted non-linearities: float addition is not associative, so "
    "column-permutation equivariance holds to round-off only (OBSERVED to 1e-9 in float64)",
    "H_mask_kills (an additive -1e5 mask gives exactly-zero attention weight) is a hypothesis of the causality "
    "theorem; validated each run by the exact zero influence of later columns and by a direct float check",
    "H_torch_encoder_rowwise_equivariant (nn.TransformerEncoder in eval mode is row-wise and permutation-equivariant "
    "over tokens) is a hypothesis of the FT-Transformer theorem; observed through the layer",
    "evaluation mode (dropout inactive); finiteness and determinism observed",
]
KINDS = ["tab_conv", "ft_convs", "excel_conv", "trompt_conv", "trompt_decoder", "excel_decoder"]
TRIALS = 8
SIZES = [1.0, 10.0, 100.0]


# ------------------------------------------------------------------ generation
def gen_case(rng, kind, tier):
    heads = rng.pick([1, 2, 2, 4])
    # channels >= 4: LayerNorm over one channel is constant, over two channels it is a sign function -- both
    # erase (almost) every input and say nothing about the layer's structure
    ch = rng.pick([c for c in (4, 8, 16) if c % heads == 0]) if kind in ("tab_conv", "excel_conv") else rng.pick([4, 8])
    if kind == "ft_convs":
        heads = rng.pick([1, 2, 4])
        ch = rng.pick([4, 8])
    cols = rng.randint(1, 4)
    if kind == "trompt_conv":
        cols = rng.randint(2, 4)   # with one column the importance softmax is constant: prompts cannot matter
    B = rng.randint(1, 4)
    perm = list(range(cols))
    rng.shuffle(perm)
    case = {"kind": kind, "channels": ch, "heads": heads, "cols": cols, "B": B, "prompts": rng.pick([2, 2, 4]),
            "layers": rng.randint(1, 2), "out": rng.randint(1, 3), "seed": rng.randrange(1 << 30), "perm": perm,
            "idx": [rng.randrange(B) for _ in range(rng.randint(1, 5))], "param_scale": rng.pick([0.3, 1.0])}
    return case


def generate(rng, tier):
    n = 30 if tier == "quick" else 600
    cases = []
    for kind in KINDS:
        for _ in range(n):
            cases.append(gen_case(rng, kind, tier))
    return cases


# ------------------------------------------------------------------ implementation
def build_layer(case):
    from torch_frame.nn import (ExcelFormerConv, ExcelFormerDecoder, FTTransformerConvs, TabTransformerConv,
                                TromptConv, TromptDecoder)
    k, ch = case["kind"], case["channels"]
    if k == "tab_conv":
        m = TabTransformerConv(channels=ch, num_heads=case["heads"], attn_dropout=0.2, ffn_dropout=0.2)
    elif k == "ft_convs":
        m = FTTransformerConvs(channels=ch, num_layers=case["layers"], nhead=case["heads"])
    elif k == "excel_conv":
        m = ExcelFormerConv(channels=ch, num_cols=case["cols"], num_heads=case["heads"], diam_dropout=0.2,
                            aium_dropout=0.2, residual_dropout=0.2)
    elif k == "trompt_conv":
        m = TromptConv(channels=ch, num_cols=case["cols"], num_prompts=case["prompts"])
    elif k == "trompt_decoder":
        m = TromptDecoder(in_channels=ch, out_channels=case["out"], num_prompts=case["prompts"])
    elif k == "excel_decoder":
        m = ExcelFormerDecoder(in_channels=ch, out_channels=case["out"], num_cols=case["cols"])
    else:
        raise ValueError(k)
    m.reset_parameters()
    P.randomize_params(m, case["param_scale"])
    m.eval()
    return m


def n_in(case):
    return case["prompts"] if case["kind"] == "trompt_decoder" else case["cols"]


def call(layer, case, x, xp=None):
    """Returns (main output [B, n_out, C] or [B, out], cls or None)."""
    with torch.no_grad():
        if case["kind"] == "trompt_conv":
            return layer(x, xp), None
        if case["kind"] == "ft_convs":
            y, cls = layer(x)
            return y, cls
        return layer(x), None


def changed_cols(a, b):
    """Output columns (axis 1) that differ bit-for-bit in any row."""
    fa = a.reshape(a.shape[0], a.shape[1], -1)
    fb = b.reshape(b.shape[0], b.shape[1], -1)
    same = (fa == fb) | (torch.isnan(fa) & torch.isnan(fb))
    return [j for j in range(a.shape[1]) if not bool(same[:, j].all())]


def run(case):
    obs = {"ok": False}
    with P.f64(case["seed"]):
        try:
            layer = build_layer(case)
        except Exception as ex:
            obs.update(stage="build", exc=C.exc_name(ex), msg=str(ex)[:300], tb=C.fmt_exc())
            return obs
        try:
            obs.update(_probe(case, layer))
            obs["ok"] = True
        except Exception as ex:
            obs.update(stage="forward", exc=C.exc_name(ex), msg=str(ex)[:300], tb=C.fmt_exc())
    return obs


def _probe(case, layer):
    kind, B, ch = case["kind"], case["B"], case["channels"]
    nin = n_in(case)
    Pn = case["prompts"]
    x = torch.randn(B, nin, ch)
    xp = torch.randn(B, Pn, ch) if kind == "trompt_conv" else None
    out, cls = call(layer, case, x, xp)
    o = {"shape": list(out.shape), "cls_shape": None if cls is None else list(cls.shape)}
    if kind in ("tab_conv", "ft_convs", "excel_conv"):
        o["expected_shape"] = [B, nin, ch]
    elif kind == "trompt_conv":
        o["expected_shape"] = [B, Pn, ch]
    else:
        o["expected_shape"] = [B, case["out"]]
    o["finite"] = bool(torch.isfinite(out).all())
    o2, cls2 = call(layer, case, x, xp)
    o["deterministic"] = bool(torch.equal(out, o2) and (cls is None or torch.equal(cls, cls2)))
    # B = 0
    e, ecls = call(layer, case, x[:0], None if xp is None else xp[:0])
    o["empty_shape"] = list(e.shape)
    # row subsets / duplicates
    ti = torch.tensor(case["idx"], dtype=torch.long)
    s, scls = call(layer, case, x[ti], None if xp is None else xp[ti])
    o["subset_diff"] = max(P.maxdiff(s, out[ti]), 0.0 if cls is None else P.maxdiff(scls, cls[ti]))
    # column permutation
    if kind in ("tab_conv", "ft_convs"):
        tp = torch.tensor(case["perm"], dtype=torch.long)
        pv, pcls = call(layer, case, x[:, tp], None)
        o["perm_diff"] = P.maxdiff(pv, out[:, tp])
        o["perm_cls_diff"] = None if cls is None else P.maxdiff(pcls, cls)
        o["perm_nontrivial"] = case["perm"] != sorted(case["perm"])
    # ---- footprints -----------------------------------------------------------------------------
    n_out = out.shape[1] if out.dim() == 3 else 1

    def outcols(a, b):
        return changed_cols(a, b) if a.dim() == 3 else ([0] if P.changed_rows(a, b) else [])

    if kind == "excel_conv":
        predicted = [[c <= c2 for c2 in range(n_out)] for c in range(nin)]
    elif kind in ("tab_conv", "ft_convs", "trompt_conv"):
        predicted = [[True] * n_out for _ in range(nin)]
    else:
        predicted = [[True] for _ in range(nin)]
    colfp = [[False] * n_out for _ in range(nin)]
    cls_reach = [False] * nin
    pfp = [[False] * Pn for _ in range(Pn)] if kind == "trompt_conv" else None
    rows = {r: set() for r in range(B)}
    trials = 0
    for t in range(TRIALS):
        need_c = [c for c in range(nin) if any(predicted[c][j] and not colfp[c][j] for j in range(n_out))
                  or (cls is not None and not cls_reach[c])]
        need_p = [p for p in range(Pn) if pfp is not None and not pfp[p][p]]
        need_r = [r for r in range(B) if r not in rows[r]]
        if t > 0 and not (need_c or need_p or need_r):
            break
        trials += 1
        if t > 0:
            P.redraw_params(layer, t)
            out, cls = call(layer, case, x, xp)
        size = SIZES[t % 3]
        for c in (range(nin) if t == 0 else need_c):
            x2 = x.clone()
            x2[:, c, :] += size * torch.randn(B, ch)          # a RANDOM vector per row, never a constant shift
            y2, c2 = call(layer, case, x2, xp)
            for j in outcols(out, y2):
                colfp[c][j] = True
            if cls is not None and P.changed_rows(cls, c2):
                cls_reach[c] = True
        for p in (range(Pn) if (pfp is not None and t == 0) else need_p):
            xp2 = xp.clone()
            xp2[:, p, :] += size * torch.randn(B, ch)
            y2, _ = call(layer, case, x, xp2)
            for j in changed_cols(out, y2):
                pfp[p][j] = True
        for r in (range(B) if t == 0 else need_r):
            x2 = x.clone()
            x2[r] += size * torch.randn(nin, ch)
            xp2 = None
            if xp is not None:
                xp2 = xp.clone()
                xp2[r] += size * torch.randn(Pn, ch)
            y2, c2 = call(layer, case, x2, xp2)
            ch_rows = set(P.changed_rows(out, y2))
            if cls is not None:
                ch_rows |= set(P.changed_rows(cls, c2))
            rows[r] |= ch_rows
    o["colfp"], o["cls_reach"], o["pfp"] = colfp, (cls_reach if cls is not None else None), pfp
    o["rows"] = [[r, sorted(rows[r])] for r in range(B)]
    o["trials"] = trials
    # ---- ExcelFormerConv: suffix perturbations, all at once -------------------------------------------
    if kind == "excel_conv":
        suffix = []
        for i in range(nin - 1):
            x2 = x.clone()
            x2[:, i + 1:, :] += 10.0 * torch.randn(B, nin - 1 - i, ch)
            y2, _ = call(layer, case, x2, None)
            suffix.append([i, bool(torch.equal(y2[:, :i + 1], out[:, :i + 1])), bool(not torch.equal(y2, out))])
        o["suffix"] = suffix
    # ---- Trompt: shapes that disagree with the configuration must be rejected --------------------------
    if kind in ("trompt_conv", "trompt_decoder"):
        o["rejections"] = _rejections(case, layer, x, xp)
    return o


def _rejections(case, layer, x, xp):
    B, ch, Pn = case["B"], case["channels"], case["prompts"]
    bad = []
    if case["kind"] == "trompt_conv":
        cols = case["cols"]
        alts = [("x cols+1", torch.randn(B, cols + 1, ch), xp), ("x channels+1", torch.randn(B, cols, ch + 1), xp),
                ("x_prompt prompts+1", x, torch.randn(B, Pn + 1, ch)),
                ("x_prompt channels 1 (broadcastable)", x, torch.randn(B, Pn, 1)),
                ("x_prompt 1 prompt (broadcastable)", x, torch.randn(B, 1, ch)),
                ("x_prompt batch+1", x, torch.randn(B + 1, Pn, ch)),
                ("x 2-d", torch.randn(B, ch), xp)]
        if cols > 1:
            alts.append(("x 1 column (broadcastable)", torch.randn(B, 1, ch), xp))
        if B > 1:
            alts.append(("x_prompt batch 1 (broadcastable)", x, torch.randn(1, Pn, ch)))
            alts.append(("x batch 1 (broadcastable)", torch.randn(1, cols, ch), xp))
        for name, a, b in alts:
            try:
                with torch.no_grad():
                    r = layer(a, b)
                bad.append([name, list(r.shape)])
            except Exception:
                pass
    else:
        alts = [("prompts+1", torch.randn(B, Pn + 1, ch)), ("prompts-1", torch.randn(B, Pn - 1, ch)),
                ("channels 1", torch.randn(B, Pn, 1)), ("2-d", torch.randn(B, ch))]
        for name, a in alts:
            try:
                with torch.no_grad():
                    r = layer(a)
                bad.append([name, list(r.shape)])
            except Exception:
                pass
    return bad


# ------------------------------------------------------------------ direct oracle
def oracle(case, obs):
    if "harness_exc" in obs:
        return dict(key="harness-exc", what="harness failed: " + obs["harness_exc"], tb=obs.get("tb"))
    k = case["kind"]
    if not obs.get("ok"):
        return dict(key=f"raises:{k}:{obs.get('stage')}", what=f"{k} {obs.get('stage')} raised {obs.get('exc')}: "
                    f"{obs.get('msg')}", tb=obs.get("tb"))
    B, nin = case["B"], n_in(case)
    if obs["shape"] != obs["expected_shape"]:
        return dict(key=f"shape:{k}", what=f"{k} output shape {obs['shape']}", expected=obs["expected_shape"],
                    observed=obs["shape"])
    if k == "ft_convs" and obs["cls_shape"] != [B, case["channels"]]:
        return dict(key=f"shape:{k}", what=f"CLS output shape {obs['cls_shape']}", expected=[B, case["channels"]])
    if obs["empty_shape"] != [0] + obs["expected_shape"][1:]:
        return dict(key=f"empty-shape:{k}", what=f"{k} on B = 0 gives shape {obs['empty_shape']}",
                    expected=[0] + obs["expected_shape"][1:], observed=obs["empty_shape"])
    if not obs["finite"]:
        return dict(key=f"non-finite:{k}", what=f"{k} output not finite on a finite random input")
    if not obs["deterministic"]:
        return dict(key=f"non-deterministic:{k}", what=f"{k} in eval mode gave two different outputs")
    for r, chd in obs["rows"]:
        extra = [s for s in chd if s != r]
        if extra:
            return dict(key=f"row-leak:{k}", what=f"{k}: perturbing row {r} changed rows {extra}", expected=[r],
                        observed=chd)
    if not obs["subset_diff"] <= P.TOL:
        return dict(key=f"batch-dependent:{k}", what=f"{k}: conv(x[idx]) differs from conv(x)[idx] by "
                    f"{obs['subset_diff']:.3g}", expected=f"<= {P.TOL}", observed=obs["subset_diff"])
    if k in ("tab_conv", "ft_convs"):
        if not obs["perm_diff"] <= P.TOL:
            return dict(key=f"not-equivariant:{k}", what=f"{k}: conv(x[:, perm]) differs from conv(x)[:, perm] by "
                        f"{obs['perm_diff']:.3g} for perm {case['perm']}", expected=f"<= {P.TOL}",
                        observed=obs["perm_diff"])
        if k == "ft_convs" and not obs["perm_cls_diff"] <= P.TOL:
            return dict(key=f"cls-not-invariant:{k}", what=f"{k}: the CLS output changes by {obs['perm_cls_diff']:.3g} "
                        f"under the column permutation {case['perm']}", expected=f"<= {P.TOL}",
                        observed=obs["perm_cls_diff"])
    # footprints: independent expectation straight from the property text
    n_out = len(obs["colfp"][0]) if obs["colfp"] else 0
    if k == "excel_conv":
        for c in range(nin):
            for j in range(n_out):
                if obs["colfp"][c][j] and c > j:
                    return dict(key=f"not-causal:{k}", what=f"{k}: output column {j} is influenced by the LATER column "
                                f"{c}", expected=False, observed=True)
        for i, same_prefix, changed in obs["suffix"]:
            if not same_prefix:
                return dict(key=f"not-causal:{k}", what=f"{k}: perturbing the columns after {i} changed the output for "
                            f"columns <= {i} (an exact-zero influence is required: H_mask_kills)", expected="bit-identical")
    for c in range(nin):
        for j in range(n_out):
            exp = (c <= j) if k == "excel_conv" else True
            if exp and not obs["colfp"][c][j]:
                return dict(key=f"no-influence:{k}", what=f"{k}: input column {c} never influenced output column {j} in "
                            f"{TRIALS} trials with re-drawn parameters", expected=True, observed=False)
    if k == "ft_convs":
        for c, reached in enumerate(obs["cls_reach"]):
            if not reached:
                return dict(key=f"no-influence:{k}", what=f"{k}: column {c} never influenced the CLS output")
    if k == "trompt_conv":
        Pn = case["prompts"]
        for p in range(Pn):
            if not obs["pfp"][p][p]:
                return dict(key=f"no-influence:{k}", what=f"{k}: input prompt {p} never influenced output prompt {p}")
    for r, chd in obs["rows"]:
        if r not in chd:
            return dict(key=f"row-dead:{k}", what=f"{k}: perturbing row {r} never changed its own output")
    if obs.get("rejections"):
        name, shp = obs["rejections"][0]
        return dict(key=f"accepts-mismatch:{k}", what=f"{k} accepted an input whose shape disagrees with its "
                    f"configuration ({name}) and returned shape {shp} instead of raising",
                    expected="raise", observed=obs["rejections"])
    return None


def shrink(case):
    if case["B"] > 1:
        yield dict(case, B=case["B"] - 1, idx=[i for i in case["idx"] if i < case["B"] - 1] or [0])
    if case["cols"] > 1:
        c = case["cols"] - 1
        yield dict(case, cols=c, perm=[p for p in case["perm"] if p < c])
    if case["layers"] > 1:
        yield dict(case, layers=1)
    if len(case["idx"]) > 1:
        yield dict(case, idx=case["idx"][:1])


def nontrivial_sig(case, obs):
    if not obs.get("ok") or not obs["colfp"]:
        return None
    return json.dumps([case["kind"], case["channels"], case["heads"], case["cols"], case["prompts"], case["layers"],
                       case["out"], case["B"]])


def stats(cases, obss):
    d = {"kinds": {}, "B": {}, "cols": {}, "heads": {}, "errors": 0, "nontrivial_perms": 0, "trials_hist": {}, "total": 0}
    for c, o in zip(cases, obss):
        if c is None:
            continue
        d["total"] += 1
        for k, v in (("kinds", c["kind"]), ("B", c["B"]), ("cols", c["cols"]), ("heads", c["heads"])):
            d[k][str(v)] = d[k].get(str(v), 0) + 1
        if not o.get("ok"):
            d["errors"] += 1
            continue
        d["nontrivial_perms"] += int(bool(o.get("perm_nontrivial")))
        d["trials_hist"][str(o["trials"])] = d["trials_hist"].get(str(o["trials"]), 0) + 1
    return d


def extra(tier, rng):
    """Direct validation of H_mask_kills in IEEE arithmetic, independent of the repository: for bounded scores the
    softmax weight of a position carrying the additive -1e5 mask is exactly 0.0 (float32 and float64)."""
    fails, n = [], 0
    g = torch.Generator().manual_seed(rng.randrange(1 << 30))
    for dtype in (torch.float32, torch.float64):
        for d in (1, 2, 4, 8, 16, 64):
            for scale in (1.0, 10.0, 100.0, 1000.0):
                s = (torch.randn(64, 6, generator=g) * scale).to(dtype)
                mask = torch.zeros(6, dtype=dtype)
                mask[3:] = -1e5
                w = torch.softmax((s + mask) / math.sqrt(d), dim=-1)
                n += 1
                # the hypothesis is about bounded scores: |s| well below 1e5 / 2
                if float(s.abs().max()) < 2e4 and not bool((w[:, 3:] == 0).all()):
                    fails.append(dict(key="H_mask_kills-float", what=f"softmax weight of a masked position is not exactly "
                                      f"0.0 (dtype {dtype}, d={d}, score scale {scale})", case=None,
                                      observed=float(w[:, 3:].max())))
    return fails, {"H_mask_kills_float_checks": n}


# ------------------------------------------------------------------ Coq side
def coq_term(case, obs):
    if not obs.get("ok"):
        return None
    k, B, cols, Pn = case["kind"], case["B"], case["cols"], case["prompts"]
    rows = "[" + "; ".join(f"({r}, {P.cnats(chd)})" for r, chd in obs["rows"]) + "]"
    h = min(case["heads"], 2)
    if k == "tab_conv":
        return f"layer_fp_ok {cols} {cols} (Some (p_tab_conv {h} 2 (pin {B} {cols} 2))) {B} {rows} {P.cbmat(obs['colfp'])}"
    if k == "excel_conv":
        return f"layer_fp_ok {cols} {cols} (p_excel_conv {cols} {h} 2 (pin {B} {cols} 2)) {B} {rows} {P.cbmat(obs['colfp'])}"
    if k == "ft_convs":
        return (f"ft_layer_fp_ok {cols} {B} (p_ft_convs {B} {cols} 2) {rows} {P.cbmat(obs['colfp'])} "
                f"{P.cbvec(obs['cls_reach'])}")
    if k == "trompt_conv":
        return (f"trompt_layer_fp_ok {cols} {Pn} {B} (p_trompt_conv_run {B} {cols} 2 {Pn}) {rows} "
                f"{P.cbmat(obs['colfp'])} {P.cbmat(obs['pfp'])}")
    flat = [row[0] for row in obs["colfp"]]
    if k == "trompt_decoder":
        return f"decoder_fp_ok {Pn} {B} (p_trompt_decoder {Pn} 2 2 (pin {B} {Pn} 2)) {rows} {P.cbvec(flat)}"
    if k == "excel_decoder":
        return f"decoder_fp_ok {cols} {B} (Some (p_excel_decoder 2 2 (pin {B} {cols} 2))) {rows} {P.cbvec(flat)}"
    raise ValueError(k)
