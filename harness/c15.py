"""C15 — Table convolutions and decoders keep their structural contracts.

The conv layers and decoders are driven directly on random tensors [B, cols, channels] in float64,
evaluation mode, generic (re-drawn) parameters:
  * row x row and column x column dependency footprints by random-vector perturbation (bit-exact),
    compared with the footprint of the Coq model run on provenance scalars (Model/LayersRun.v);
  * column permutations (TabTransformerConv, FTTransformerConvs + CLS invariance), suffix perturbations
    (ExcelFormerConv causality, exact), row subsets, B = 0, output shapes;
  * shape-mismatch rejections of TromptConv / TromptDecoder (including broadcastable shapes).
"""
from __future__ import annotations

import json
import math

import torch

from harness import common as C
from harness import nnprobe as P

PROP = "C15"
HEADER = "Require Import PF.Lib.Tensor PF.Model.Layers PF.Model.LayersRun."
MODEL_TARGETS = ["Model/LayersRun.vo"]
SHARD = 25
RULE = ("one case = (layer kind, every public constructor argument drawn: channels/heads/columns/prompts/layers/"
        "out_channels/activation relu|gelu/feedforward_channels/dropouts/num_groups, batch size 0-4, seed, column "
        "permutation, row index list); distinct = distinct (kind, hyper-parameters, batch size); non-trivial = forward "
        "succeeded on a non-empty batch and a full footprint matrix was measured")
TRUSTED = [
    "Coq 8.16.1 kernel + vm_compute",
    "hand-written model coq/Model/Layers.v of the conv layers / decoders as written (head reshape, einsum patterns, "
    "softmax axis, DiaM mask from seq_ids, CLS prepend/split, Trompt steps and asserts), tied to /repo by this run's "
    "footprint correspondence on provenance scalars (coq/Model/LayersRun.v)",
    "modelled primitives: nn.Linear / LayerNorm / GroupNorm / nn.TransformerEncoder as blocks acting on the last "
    "axis / per sample (explicit hypotheses); reshape, transpose, einsum, softmax, cat, repeat",
    "per-run validation (harness/c15.py extra): nn.Linear / LayerNorm act on the last axis, GroupNorm per sample, "
    "nn.TransformerEncoder(eval) per row and token-permutation equivariant (direct perturbation of the blocks); "
    "H_mask_kills checked in float32/float64 for scores bounded by 2e4; discrimination self-test (TabTransformer "
    "observation fails against the ExcelFormer model and against a wrong head geometry, and vice versa)",
    "harness/c15.py + harness/nnprobe.py (attribute names attn / DiaM / norm_1 / lin_q / lin_k / lin_v / lin_out "
    "of the repository are used, fail-soft, for the channel-level attention-core probe and the score bound)",
]
ASSUMPTIONS = [
    "exact arithmetic, abstract scalars, uninterpreted non-linearities: float addition is not associative, so "
    "column-permutation equivariance holds to round-off only (OBSERVED to 1e-9 in float64)",
    "causality of ExcelFormerConv is proved UNDER BOUNDED SCORES: H_mask_kills (a bounded score with the additive "
    "-1e5 mask has exactly-zero softmax weight) plus the premise that every q.k score is bounded.  The mask is "
    "additive: in IEEE arithmetic a score gap of ~1e5 defeats it (attention parameters ~N(0, 50^2) make the real "
    "layer observably non-causal); that regime is outside the theorem and outside the generator (parameter noise "
    "<= 1.0).  Each run measures max |q.k| of every generated attention layer, records it in the evidence "
    "(input_distribution.max_abs_attention_score) and fails its sanity check if it exceeds 2e4; the float fact is "
    "checked directly for scores bounded by 2e4",
    "ExcelFormerConv(num_cols = 1) accepts inputs with any number of columns (the [1,1] mask broadcasts) and then "
    "runs unmasked; this configuration is excluded from the model's guard theorem (hypothesis 1 < num_cols) and "
    "is generated only with a 1-column input",
    "wide inputs (127..300 columns: boundaries of 8-bit integer buffers): the provenance model is not run on them "
    "(cost); for ExcelFormerConv the integer-comparison model of the mask (mask_allowed over the int64 ids, theorem "
    "mask_allowed_int64) is compared with the measured footprint rows and the int8 refutation witness is replayed; "
    "the other layers are checked by the direct oracle only there; a 16-bit wrap (32768+ columns) is not reachable",
    "the Coq side runs with each case's own channels / heads / columns / prompts / out_channels; the head reshape "
    "and the einsum / mask orientation are compared at CHANNEL granularity on the real module with identity q/k/v "
    "projections (attention-core probe); for full-attention layers the column footprint itself is 'everything', so "
    "the softmax axis of TabTransformerConv is validated only through the oracle's equivariance runs",
    "H_torch_encoder_rowwise_equivariant (nn.TransformerEncoder in eval mode is row-wise and permutation-equivariant "
    "over tokens) is a hypothesis of the FT-Transformer theorem; observed through the layer",
    "a rejection is DEMANDED only for TromptConv / TromptDecoder inputs whose shape disagrees with the configuration "
    "(the statement's words); every other input on which the current code raises (x vs x_prompt batch mismatch, "
    "ExcelFormerConv with a wrong column count, constructor arguments) is an observation: raise or normal return",
    "evaluation mode (dropout inactive); finiteness and determinism observed",
]
KINDS = ["tab_conv", "ft_convs", "excel_conv", "trompt_conv", "trompt_decoder", "excel_decoder"]

# CLAUSES -- where the oracle DEMANDS a rejection, and the words of the statement that back the demand
#   accepts-mismatch:trompt_conv, accepts-mismatch:trompt_decoder
#       "the Trompt layer and decoder reject inputs whose shape disagrees with their configuration instead of
#        broadcasting": x / x_prompt with num_cols +- 1, channels + 1, num_prompts + 1, a 2-d input, and the size-1
#        (broadcastable) variants of the column / prompt / channel / batch axes.
#   NOT demanded (a raise and a normal return are both accepted; the Coq None-branch is compared only when the
#   implementation did raise): x vs x_prompt batch-count mismatch (batch + 1), ExcelFormerConv with cols +- 1,
#   constructor arguments (channels not divisible by heads).
#   raises:<kind>:matching / raises:<kind>:forward: a correctly shaped input must NOT raise -- backed by "keep the
#       [batch, columns, channels] layout" / "decoders reduce to [batch, out_channels] for any batch size including zero".
#
# ERROR_PATHS -- every raise / assert / special-case branch / dtype cast / integer buffer / hand-written numerically
# "safe" formula in the anchored code, the generator kind that reaches it, and the oracle key that notices a change.
#
#  excelformer_conv.py
#   DiaM.__init__ `assert channels % num_heads == 0` (only if heads > 1) .... extra(): constructor OBSERVATION (no
#                                                                             clause demands the rejection)
#   DiaM.__init__ `lin_out = Linear(...) if num_heads > 1 else None` .......... cases heads = 1 and heads >= 2 (sanity),
#                                                                             core probe hooks the module output when
#                                                                             lin_out is None; keys shape / no-influence
#   `register_buffer('seq_ids', torch.arange(num_cols))` (int64 buffer) ....... wide cases cols in {127..130, 257, 300}
#                                                                             (int8 / uint8 wrap): key not-causal
#                                                                             (32768+ columns = int16 wrap is NOT
#                                                                             reachable: the score tensor alone needs
#                                                                             8 GB -- stated limit)
#   get_attention_mask `<=` on seq_ids, `.float()` cast, `* -1e5` ............. every excel_conv case: column footprint and
#                                                                             suffix probes (bit-exact), keys not-causal /
#                                                                             no-influence; core probe (channel level);
#                                                                             extra(): float check of the -1e5 mask for
#                                                                             scores <= 2e4; sanity: measured max |q.k|
#   `/ math.sqrt(d_heads)`, F.softmax (torch's own max-shift) ................ outlier-row probe (row * 1e4, 1e8): keys
#                                                                             non-finite / row-leak
#   ExcelFormerConv.forward `F.dropout(..., self.training)` .................. dropouts drawn > 0; key non-deterministic
#   implicit: mask broadcast when x.shape[1] != num_cols ...................... rejection probes cols +- 1 (num_cols >= 2):
#                                                                             Coq None-branch; num_cols = 1 excluded
#  tab_transformer_conv.py
#   `self.scale = d_head ** -0.5`, F.softmax(dim=-1) .......................... equivariance run, outlier-row probe, core probe
#   `_reshape` (reshape / transpose / reshape; integer division channels // heads)  core probe with heads in {1,2,4},
#                                                                             channels == heads; key not-equivariant
#   GEGLU `x.chunk(2, dim=-1)` ................................................. every tab_conv case (shape key)
#   `norm_2` constructed, unused ............................................... nothing to notice (mirrored in the model)
#  ft_transformer_convs.py
#   TransformerEncoderLayer(..., batch_first=True, activation=...) ............ activation relu / gelu, feedforward_channels
#                                                                             None / other drawn (sanity); keys row-leak,
#                                                                             cls-not-invariant, not-equivariant
#   `x_concat[:, 0, :]`, `x_concat[:, 1:, :]` (CLS slot) ....................... cls-not-invariant, no-influence (CLS reach)
#  trompt_conv.py
#   two `assert ... shape ==` ................................................. rejection probes incl. broadcastable shapes:
#                                                                             key accepts-mismatch:trompt_conv + Coq None
#   GroupNorm(num_groups, num_prompts) (ValueError if not divisible) ........... groups in {1, 2, P} drawn; odd prompt
#                                                                             counts raise in the constructor (torch)
#   F.softmax(m_importance, dim=-1) over columns ............................... row subsets, outlier row, wide columns
#  trompt_decoder.py
#   `assert x.shape == ...` ................................................... rejection probes: accepts-mismatch:trompt_decoder
#   F.softmax(lin_attn(x), dim=1) ............................................. row subsets, outlier row: batch-dependent
#  excelformer_decoder.py
#   `.squeeze(2)` (explicit axis) ............................................. out = 1 and B = 1 boundary cases: key shape
#   PReLU weight filled with 0.25 .............................................. nothing structural
#

TRIALS = 8
SIZES = [1.0, 10.0, 100.0]


# ------------------------------------------------------------------ generation
def gen_case(rng, kind, tier):
    heads = rng.pick([1, 2, 2, 4])
    # channels >= 4: LayerNorm over one channel is constant, over two channels it is a sign function -- both
    # erase (almost) every input and say nothing about the layer's structure
    ch = rng.pick([c for c in (4, 8, 16) if c % heads == 0]) if kind in ("tab_conv", "excel_conv") else rng.pick([4, 8])
    if kind == "ft_convs":
        heads = rng.pick([1, 2, 4])
        ch = rng.pick([4, 8])
    cols = rng.randint(1, 4)
    if kind == "trompt_conv":
        cols = rng.randint(2, 4)   # with one column the importance softmax is constant: prompts cannot matter
    B = rng.randint(1, 4)
    perm = list(range(cols))
    rng.shuffle(perm)
    prompts = rng.pick([2, 2, 4, 6])
    case = {"kind": kind, "channels": ch, "heads": heads, "cols": cols, "B": B, "prompts": prompts,
            "layers": rng.randint(1, 2), "out": rng.randint(1, 3), "seed": rng.randrange(1 << 30), "perm": perm,
            "idx": [rng.randrange(B) for _ in range(rng.randint(1, 5))], "param_scale": rng.pick([0.3, 1.0]),
            # the remaining public constructor arguments, away from their defaults
            "activation": rng.pick(["relu", "gelu"]), "ff_channels": rng.pick([None, ch // 2, 2 * ch]),
            "dropout": rng.pick([0.0, 0.2, 0.4]), "dropout2": rng.pick([0.0, 0.3]), "dropout3": rng.pick([0.0, 0.3]),
            "groups": rng.pick([g for g in (1, 2, prompts) if prompts % g == 0])}
    return case


BOUNDARY_SEED = 15015        # the boundary / wide stream is deterministic: independent of VERIF_SEED and of the tier


def boundary_cases(rng_unused, kind, tier):
    rng = C.Rng(BOUNDARY_SEED + KINDS.index(kind))
    return _boundary_cases(rng, kind, tier)


def _boundary_cases(rng, kind, tier):
    """The boundaries of the quantified dimensions, hit deliberately: batch 1 and 2 (0 is probed in every case), one
    column, columns == heads, channels == heads (d_head = 1), prompts == groups, one prompt group."""
    out = []

    def mk(**kw):
        c = gen_case(rng, kind, tier)
        c.update(kw)
        c["perm"] = list(range(c["cols"]))
        rng.shuffle(c["perm"])
        c["idx"] = [rng.randrange(c["B"]) for _ in range(rng.randint(1, 4))]
        if c["prompts"] % c["groups"]:
            c["groups"] = 1
        out.append(c)

    mk(B=1)
    mk(B=2)
    mk(B=3, dropout=0.0, dropout2=0.0, dropout3=0.0)
    mk(B=4, dropout=0.4, dropout2=0.3, dropout3=0.3)
    if kind in ("tab_conv", "ft_convs"):
        c = gen_case(rng, kind, tier)
        c.update(cols=3, B=2, perm=[2, 0, 1], idx=[1, 0])          # a non-trivial column permutation
        out.append(c)
    if kind == "ft_convs":
        mk(activation="relu", ff_channels=None, layers=1)
        mk(activation="gelu", ff_channels=16, layers=2)
    if kind in ("trompt_decoder", "excel_decoder"):
        mk(out=3, prompts=4)
    if kind in ("tab_conv", "excel_conv", "ft_convs"):
        mk(heads=4, channels=4)                       # channels == heads
        mk(heads=4, channels=8, cols=4)               # columns == heads
        mk(heads=2, channels=4, cols=2, B=2)          # columns == heads == batch
        mk(cols=1)
    if kind == "trompt_conv":
        mk(prompts=4, groups=4)                       # one prompt per group
        mk(prompts=2, groups=1, cols=2)
    if kind in ("trompt_decoder", "excel_decoder"):
        mk(out=1)
        mk(cols=1, prompts=2)
    return out


WIDE = [127, 128, 129, 130, 257, 300]


def wide_cases(rng_unused, kind, tier):
    return _wide_cases(C.Rng(BOUNDARY_SEED + 100 + KINDS.index(kind)), kind, tier)


def _wide_cases(rng, kind, tier):
    """Wide column dimension (integer buffers: 128 = int8, 256 = uint8 boundaries), small channels / heads / batch."""
    if kind == "trompt_decoder":
        return []
    widths = WIDE if tier != "quick" else [rng.pick([127, 128]), rng.pick([129, 130]), rng.pick([257, 300])]
    out = []
    for w in widths:
        c = gen_case(rng, kind, tier)
        c.update(cols=w, channels=4, heads=rng.pick([1, 2]), B=rng.randint(1, 2), prompts=2, groups=rng.pick([1, 2]),
                 layers=1, param_scale=0.3)
        c["perm"] = list(range(w))
        rng.shuffle(c["perm"])
        c["idx"] = [rng.randrange(c["B"])]
        out.append(c)
    return out


def generate(rng, tier):
    n = 24 if tier == "quick" else 600
    cases = []
    for kind in KINDS:
        det = boundary_cases(rng, kind, tier) + wide_cases(rng, kind, tier)
        for c in det:
            c["req"] = True
        cases += det
        for _ in range(n):
            cases.append(gen_case(rng, kind, tier))
    return cases


# ------------------------------------------------------------------ implementation
def build_layer(case):
    from torch_frame.nn import (ExcelFormerConv, ExcelFormerDecoder, FTTransformerConvs, TabTransformerConv,
                                TromptConv, TromptDecoder)
    k, ch = case["kind"], case["channels"]
    dr, dr2, dr3 = case.get("dropout", 0.2), case.get("dropout2", 0.2), case.get("dropout3", 0.2)
    if k == "tab_conv":
        m = TabTransformerConv(channels=ch, num_heads=case["heads"], attn_dropout=dr, ffn_dropout=dr2)
    elif k == "ft_convs":
        m = FTTransformerConvs(channels=ch, feedforward_channels=case.get("ff_channels"), num_layers=case["layers"],
                               nhead=case["heads"], dropout=dr, activation=case.get("activation", "relu"))
    elif k == "excel_conv":
        m = ExcelFormerConv(channels=ch, num_cols=case["cols"], num_heads=case["heads"], diam_dropout=dr,
                            aium_dropout=dr2, residual_dropout=dr3)
    elif k == "trompt_conv":
        m = TromptConv(channels=ch, num_cols=case["cols"], num_prompts=case["prompts"],
                       num_groups=case.get("groups", 2))
    elif k == "trompt_decoder":
        m = TromptDecoder(in_channels=ch, out_channels=case["out"], num_prompts=case["prompts"])
    elif k == "excel_decoder":
        m = ExcelFormerDecoder(in_channels=ch, out_channels=case["out"], num_cols=case["cols"])
    else:
        raise ValueError(k)
    m.reset_parameters()
    P.randomize_params(m, case["param_scale"])
    m.eval()
    return m


def n_in(case):
    return case["prompts"] if case["kind"] == "trompt_decoder" else case["cols"]


def call(layer, case, x, xp=None):
    """Returns (main output [B, n_out, C] or [B, out], cls or None)."""
    with torch.no_grad():
        if case["kind"] == "trompt_conv":
            return layer(x, xp), None
        if case["kind"] == "ft_convs":
            y, cls = layer(x)
            return y, cls
        return layer(x), None


def changed_cols(a, b):
    """Output columns (axis 1) that differ bit-for-bit in any row."""
    fa = a.reshape(a.shape[0], a.shape[1], -1)
    fb = b.reshape(b.shape[0], b.shape[1], -1)
    same = (fa == fb) | (torch.isnan(fa) & torch.isnan(fb))
    return [j for j in range(a.shape[1]) if not bool(same[:, j].all())]


def run(case):
    obs = {"ok": False}
    with P.f64(case["seed"]):
        try:
            layer = build_layer(case)
        except Exception as ex:
            obs.update(stage="build", exc=C.exc_name(ex), msg=str(ex)[:300], tb=C.fmt_exc())
            return obs
        try:
            obs.update(_probe(case, layer))
            obs["ok"] = True
        except Exception as ex:
            obs.update(stage="forward", exc=C.exc_name(ex), msg=str(ex)[:300], tb=C.fmt_exc())
    return obs


def _probe(case, layer):
    kind, B, ch = case["kind"], case["B"], case["channels"]
    nin = n_in(case)
    Pn = case["prompts"]
    x = torch.randn(B, nin, ch)
    xp = torch.randn(B, Pn, ch) if kind == "trompt_conv" else None
    out, cls = call(layer, case, x, xp)
    o = {"shape": list(out.shape), "cls_shape": None if cls is None else list(cls.shape)}
    if kind in ("tab_conv", "ft_convs", "excel_conv"):
        o["expected_shape"] = [B, nin, ch]
    elif kind == "trompt_conv":
        o["expected_shape"] = [B, Pn, ch]
    else:
        o["expected_shape"] = [B, case["out"]]
    o["finite"] = bool(torch.isfinite(out).all())
    o2, cls2 = call(layer, case, x, xp)
    o["deterministic"] = bool(torch.equal(out, o2) and (cls is None or torch.equal(cls, cls2)))
    # B = 0
    e, ecls = call(layer, case, x[:0], None if xp is None else xp[:0])
    o["empty_shape"] = list(e.shape)
    # row subsets / duplicates
    ti = torch.tensor(case["idx"], dtype=torch.long)
    s, scls = call(layer, case, x[ti], None if xp is None else xp[ti])
    o["subset_diff"] = max(P.maxdiff(s, out[ti]), 0.0 if cls is None else P.maxdiff(scls, cls[ti]))
    # column permutation
    if kind in ("tab_conv", "ft_convs"):
        tp = torch.tensor(case["perm"], dtype=torch.long)
        pv, pcls = call(layer, case, x[:, tp], None)
        o["perm_diff"] = P.maxdiff(pv, out[:, tp])
        o["perm_cls_diff"] = None if cls is None else P.maxdiff(pcls, cls)
        o["perm_nontrivial"] = case["perm"] != sorted(case["perm"])
    # ---- footprints -----------------------------------------------------------------------------
    n_out = out.shape[1] if out.dim() == 3 else 1

    def outcols(a, b):
        return changed_cols(a, b) if a.dim() == 3 else ([0] if P.changed_rows(a, b) else [])

    if kind == "excel_conv":
        predicted = [[c <= c2 for c2 in range(n_out)] for c in range(nin)]
    elif kind in ("tab_conv", "ft_convs", "trompt_conv"):
        predicted = [[True] * n_out for _ in range(nin)]
    else:
        predicted = [[True] for _ in range(nin)]
    # wide inputs: the columns around the 128 / 256 boundaries (integer buffers) and the ends; otherwise all
    pc = list(range(nin)) if nin <= 16 else sorted({c for c in (0, 1, 126, 127, 128, 129, 130, 254, 255, 256, 257, nin - 2,
                                                                nin - 1) if 0 <= c < nin})
    o["colfp_cols"] = pc
    colfp = [[False] * n_out for _ in range(nin)]
    cls_reach = [False] * nin
    pfp = [[False] * Pn for _ in range(Pn)] if kind == "trompt_conv" else None
    rows = {r: set() for r in range(B)}
    trials = 0
    for t in range(TRIALS):
        need_c = [c for c in pc if any(predicted[c][j] and not colfp[c][j] for j in range(n_out))
                  or (cls is not None and not cls_reach[c])]
        need_p = [p for p in range(Pn) if pfp is not None and not pfp[p][p]]
        need_r = [r for r in range(B) if r not in rows[r]]
        if t > 0 and not (need_c or need_p or need_r):
            break
        trials += 1
        if t > 0:
            P.redraw_params(layer, t)
            out, cls = call(layer, case, x, xp)
        size = SIZES[t % 3]
        for c in (pc if t == 0 else need_c):
            x2 = x.clone()
            x2[:, c, :] += size * torch.randn(B, ch)          # a RANDOM vector per row, never a constant shift
            y2, c2 = call(layer, case, x2, xp)
            for j in outcols(out, y2):
                colfp[c][j] = True
            if cls is not None and P.changed_rows(cls, c2):
                cls_reach[c] = True
        for p in (range(Pn) if (pfp is not None and t == 0) else need_p):
            xp2 = xp.clone()
            xp2[:, p, :] += size * torch.randn(B, ch)
            y2, _ = call(layer, case, x, xp2)
            for j in changed_cols(out, y2):
                pfp[p][j] = True
        for r in (range(B) if t == 0 else need_r):
            x2 = x.clone()
            x2[r] += size * torch.randn(nin, ch)
            xp2 = None
            if xp is not None:
                xp2 = xp.clone()
                xp2[r] += size * torch.randn(Pn, ch)
            y2, c2 = call(layer, case, x2, xp2)
            ch_rows = set(P.changed_rows(out, y2))
            if cls is not None:
                ch_rows |= set(P.changed_rows(cls, c2))
            rows[r] |= ch_rows
    o["colfp"] = [colfp[c] for c in pc]
    o["cls_reach"], o["pfp"] = ([cls_reach[c] for c in pc] if cls is not None else None), pfp
    o["rows"] = [[r, sorted(rows[r])] for r in range(B)]
    o["trials"] = trials
    # ---- ExcelFormerConv: suffix perturbations, all at once -------------------------------------------
    if kind == "excel_conv":
        suffix = []
        for i in [c for c in pc if c < nin - 1]:
            x2 = x.clone()
            x2[:, i + 1:, :] += 10.0 * torch.randn(B, nin - 1 - i, ch)
            y2, _ = call(layer, case, x2, None)
            suffix.append([i, bool(torch.equal(y2[:, :i + 1], out[:, :i + 1])), bool(not torch.equal(y2, out))])
        o["suffix"] = suffix
    # ---- one row with far-out-of-range (finite) values next to ordinary rows: softmax shifts, eps terms ---------
    outl = []
    for scale in (1e4, 1e8):
        r0 = B - 1
        x2 = x.clone()
        x2[r0] *= scale
        xp2 = None
        if xp is not None:
            xp2 = xp.clone()
            xp2[r0] *= scale
        y2, c2 = call(layer, case, x2, xp2)
        fin = bool(torch.isfinite(y2).all() and (c2 is None or torch.isfinite(c2).all()))
        others = [r for r in P.changed_rows(out, y2) if r != r0]
        outl.append([scale, fin, others])
    o["outlier"] = outl
    # ---- Trompt: shapes that disagree with the configuration must be rejected --------------------------
    if kind in ("trompt_conv", "trompt_decoder", "excel_conv"):
        o["rejections"] = _rejections(case, layer, x, xp)
    if kind in ("tab_conv", "excel_conv"):
        o["max_score"] = max_score(case, layer, x)
        o["core_fp"] = attention_core_probe(case, layer) if nin <= 16 else None
    return o


SCORE_BOUND = 2e4      # |q.k| below which exp((s - 1e5) / sqrt(d)) underflows to exactly 0.0 with a wide margin


def _attn_parts(case, layer):
    """(attention module, norm_1) of the two attention layers, by the repository's attribute names (fail-soft)."""
    try:
        attn = layer.attn if case["kind"] == "tab_conv" else layer.DiaM
        _ = attn.lin_q, attn.lin_k, attn.lin_v
        return attn, layer.norm_1
    except Exception:
        return None, None


def max_score(case, layer, x):
    """Largest |q.k| attention score of the layer on this input (recorded: the causality theorem holds for
    bounded scores only)."""
    attn, _ = _attn_parts(case, layer)
    if attn is None:
        return None
    grabbed = {}
    hs = [attn.lin_q.register_forward_hook(lambda m, a, o: grabbed.__setitem__("q", o.detach())),
          attn.lin_k.register_forward_hook(lambda m, a, o: grabbed.__setitem__("k", o.detach()))]
    try:
        with torch.no_grad():
            layer(x)
    finally:
        for h in hs:
            h.remove()
    if "q" not in grabbed or "k" not in grabbed:
        return None
    B, n, ch = grabbed["q"].shape
    H = case["heads"]
    q = grabbed["q"].reshape(B, n, H, ch // H)
    k = grabbed["k"].reshape(B, n, H, ch // H)
    return float(torch.einsum("bihd,bjhd->bhij", q, k).abs().max())


def attention_core_probe(case, layer):
    """Channel-level footprint of the attention core of the REAL module: identity q/k/v projections installed,
    norm_1 bypassed, the merged head outputs (input of lin_out) observed while one input scalar (column l,
    channel c) of a single row is perturbed.  Returns the [(l, c)][(j, c')] matrix or None."""
    attn, norm = _attn_parts(case, layer)
    if attn is None:
        return None
    cols, ch = case["cols"], case["channels"]
    if case["kind"] == "tab_conv" and cols < 2:
        return None        # a softmax over one column is the constant 1: nothing to see
    saved = {k: v.clone() for k, v in layer.state_dict().items()}
    grabbed, hooks = {}, []
    try:
        with torch.no_grad():
            for lin in (attn.lin_q, attn.lin_k, attn.lin_v):
                lin.weight.copy_(torch.eye(ch))
                lin.bias.zero_()
        hooks.append(norm.register_forward_hook(lambda m, a, o: a[0]))
        if getattr(attn, "lin_out", None) is not None:
            hooks.append(attn.lin_out.register_forward_pre_hook(lambda m, a: grabbed.__setitem__("y", a[0].detach().clone())))
        else:
            hooks.append(attn.register_forward_hook(lambda m, a, o: grabbed.__setitem__("y", o.detach().clone())))
        fp = [[False] * (cols * ch) for _ in range(cols * ch)]
        for t in range(3):
            x = 0.7 * torch.randn(1, cols, ch)
            with torch.no_grad():
                layer(x)
            base = grabbed["y"].reshape(-1)
            for l in range(cols):
                for c in range(ch):
                    x2 = x.clone()
                    x2[0, l, c] += (0.5 + torch.rand(())) * (1.0 if t % 2 == 0 else -1.0)
                    with torch.no_grad():
                        layer(x2)
                    y2 = grabbed["y"].reshape(-1)
                    for k in torch.nonzero(base != y2).flatten().tolist():
                        fp[l * ch + c][k] = True
            d = ch // case["heads"]
            full = all(fp[l * ch + c][j * ch + c2] for l in range(cols) for c in range(ch) for j in range(cols)
                       for c2 in range(ch) if c // d == c2 // d and (case["kind"] == "tab_conv" or (l <= j and j > 0)))
            if full:
                break
        return fp
    except Exception:
        return None
    finally:
        for h in hooks:
            h.remove()
        layer.load_state_dict(saved)


def _rejections(case, layer, x, xp):
    """Inputs whose shape disagrees with the configuration: [name, shape of x, shape of x_prompt or None, raised]."""
    B, ch, Pn = case["B"], case["channels"], case["prompts"]
    res = []

    def attempt(name, a, b=None):
        try:
            with torch.no_grad():
                r = layer(a, b) if b is not None else layer(a)
            res.append([name, list(a.shape), None if b is None else list(b.shape), False, list(r.shape), backed(name)])
        except Exception:
            res.append([name, list(a.shape), None if b is None else list(b.shape), True, None, backed(name)])

    def backed(name):
        # a raise is DEMANDED only where the statement says so: "the Trompt layer and decoder reject inputs whose
        # shape disagrees with their configuration instead of broadcasting" (configuration = num_cols / num_prompts /
        # channels; "instead of broadcasting" = the size-1 variants).  Batch-count mismatches between x and x_prompt
        # and everything about ExcelFormerConv are observations: a raise or a normal return are both accepted.
        return case["kind"] in ("trompt_conv", "trompt_decoder") and not name.startswith("matching") \
            and name != "x_prompt batch+1"

    if case["kind"] == "trompt_conv":
        cols = case["cols"]
        attempt("x cols+1", torch.randn(B, cols + 1, ch), xp)
        attempt("x channels+1", torch.randn(B, cols, ch + 1), xp)
        attempt("x_prompt prompts+1", x, torch.randn(B, Pn + 1, ch))
        attempt("x_prompt channels 1 (broadcastable)", x, torch.randn(B, Pn, 1))
        attempt("x_prompt 1 prompt (broadcastable)", x, torch.randn(B, 1, ch))
        attempt("x_prompt batch+1", x, torch.randn(B + 1, Pn, ch))
        attempt("x 2-d", torch.randn(B, ch), xp)
        if cols > 1:
            attempt("x 1 column (broadcastable)", torch.randn(B, 1, ch), xp)
        if B > 1:
            attempt("x_prompt batch 1 (broadcastable)", x, torch.randn(1, Pn, ch))
            attempt("x batch 1 (broadcastable)", torch.randn(1, cols, ch), xp)
        attempt("matching shapes", torch.randn(B, cols, ch), torch.randn(B, Pn, ch))
    elif case["kind"] == "trompt_decoder":
        attempt("prompts+1", torch.randn(B, Pn + 1, ch))
        attempt("prompts-1", torch.randn(B, Pn - 1, ch))
        attempt("channels 1", torch.randn(B, Pn, 1))
        attempt("2-d", torch.randn(B, ch))
        attempt("matching shape", torch.randn(B, Pn, ch))
    elif case["kind"] == "excel_conv" and case["cols"] >= 2:
        cols = case["cols"]
        attempt("cols+1", torch.randn(B, cols + 1, ch))
        attempt("cols-1", torch.randn(B, cols - 1, ch))
        attempt("matching shape", torch.randn(B, cols, ch))
    return res


# ------------------------------------------------------------------ direct oracle
def oracle(case, obs):
    if "harness_exc" in obs:
        return dict(key="harness-exc", what="harness failed: " + obs["harness_exc"], tb=obs.get("tb"))
    k = case["kind"]
    if not obs.get("ok"):
        return dict(key=f"raises:{k}:{obs.get('stage')}", what=f"{k} {obs.get('stage')} raised {obs.get('exc')}: "
                    f"{obs.get('msg')}", tb=obs.get("tb"))
    B, nin = case["B"], n_in(case)
    if obs["shape"] != obs["expected_shape"]:
        return dict(key=f"shape:{k}", what=f"{k} output shape {obs['shape']}", expected=obs["expected_shape"],
                    observed=obs["shape"])
    if k == "ft_convs" and obs["cls_shape"] != [B, case["channels"]]:
        return dict(key=f"shape:{k}", what=f"CLS output shape {obs['cls_shape']}", expected=[B, case["channels"]])
    if obs["empty_shape"] != [0] + obs["expected_shape"][1:]:
        return dict(key=f"empty-shape:{k}", what=f"{k} on B = 0 gives shape {obs['empty_shape']}",
                    expected=[0] + obs["expected_shape"][1:], observed=obs["empty_shape"])
    if not obs["finite"]:
        return dict(key=f"non-finite:{k}", what=f"{k} output not finite on a finite random input")
    if not obs["deterministic"]:
        return dict(key=f"non-deterministic:{k}", what=f"{k} in eval mode gave two different outputs")
    for r, chd in obs["rows"]:
        extra = [s for s in chd if s != r]
        if extra:
            return dict(key=f"row-leak:{k}", what=f"{k}: perturbing row {r} changed rows {extra}", expected=[r],
                        observed=chd)
    if not obs["subset_diff"] <= P.TOL:
        return dict(key=f"batch-dependent:{k}", what=f"{k}: conv(x[idx]) differs from conv(x)[idx] by "
                    f"{obs['subset_diff']:.3g}", expected=f"<= {P.TOL}", observed=obs["subset_diff"])
    if k in ("tab_conv", "ft_convs"):
        if not obs["perm_diff"] <= P.TOL:
            return dict(key=f"not-equivariant:{k}", what=f"{k}: conv(x[:, perm]) differs from conv(x)[:, perm] by "
                        f"{obs['perm_diff']:.3g} for perm {case['perm']}", expected=f"<= {P.TOL}",
                        observed=obs["perm_diff"])
        if k == "ft_convs" and not obs["perm_cls_diff"] <= P.TOL:
            return dict(key=f"cls-not-invariant:{k}", what=f"{k}: the CLS output changes by {obs['perm_cls_diff']:.3g} "
                        f"under the column permutation {case['perm']}", expected=f"<= {P.TOL}",
                        observed=obs["perm_cls_diff"])
    # footprints: independent expectation straight from the property text
    n_out = len(obs["colfp"][0]) if obs["colfp"] else 0
    pc = obs.get("colfp_cols", list(range(nin)))
    for scale, fin, others in obs.get("outlier", []):
        if others:
            return dict(key=f"row-leak:{k}", what=f"{k}: scaling the last row by {scale:g} changed rows {others[:6]}")
        if not fin:
            return dict(key=f"non-finite:{k}", what=f"{k}: a row with values of the order {scale:g} (finite) next to "
                        f"ordinary rows gives a non-finite output")
    if k == "excel_conv":
        for ci, c in enumerate(pc):
            for j in range(n_out):
                if obs["colfp"][ci][j] and c > j:
                    return dict(key=f"not-causal:{k}", what=f"{k}: output column {j} is influenced by the LATER column "
                                f"{c}", expected=False, observed=True)
        for i, same_prefix, changed in obs["suffix"]:
            if not same_prefix:
                return dict(key=f"not-causal:{k}", what=f"{k}: perturbing the columns after {i} changed the output for "
                            f"columns <= {i} (an exact-zero influence is required: H_mask_kills)", expected="bit-identical")
    for ci, c in enumerate(pc):
        for j in range(n_out):
            exp = (c <= j) if k == "excel_conv" else True
            if exp and not obs["colfp"][ci][j]:
                return dict(key=f"no-influence:{k}", what=f"{k}: input column {c} never influenced output column {j} in "
                            f"{TRIALS} trials with re-drawn parameters", expected=True, observed=False)
    if k == "ft_convs":
        for c, reached in zip(pc, obs["cls_reach"]):
            if not reached:
                return dict(key=f"no-influence:{k}", what=f"{k}: column {c} never influenced the CLS output")
    if k == "trompt_conv":
        Pn = case["prompts"]
        for p in range(Pn):
            if not obs["pfp"][p][p]:
                return dict(key=f"no-influence:{k}", what=f"{k}: input prompt {p} never influenced output prompt {p}")
    for r, chd in obs["rows"]:
        if r not in chd:
            return dict(key=f"row-dead:{k}", what=f"{k}: perturbing row {r} never changed its own output")
    for name, sa, sb, raised, shp, is_backed in obs.get("rejections", []):
        if name.startswith("matching"):
            if raised:
                return dict(key=f"raises:{k}:matching", what=f"{k} raised on a correctly shaped input")
        elif not raised and is_backed:
            return dict(key=f"accepts-mismatch:{k}", what=f"{k} accepted an input whose shape disagrees with its "
                        f"configuration ({name}) and returned shape {shp} instead of raising",
                        expected="raise", observed=[name, sa, sb, shp])
    return None


def shrink(case):
    if case["B"] > 1:
        yield dict(case, B=case["B"] - 1, idx=[i for i in case["idx"] if i < case["B"] - 1] or [0])
    if case["cols"] > 1:
        c = case["cols"] - 1
        yield dict(case, cols=c, perm=[p for p in case["perm"] if p < c])
    if case["layers"] > 1:
        yield dict(case, layers=1)
    if len(case["idx"]) > 1:
        yield dict(case, idx=case["idx"][:1])


def nontrivial_sig(case, obs):
    if not obs.get("ok") or not obs["colfp"]:
        return None
    return json.dumps([case["kind"], case["channels"], case["heads"], case["cols"], case["prompts"], case["layers"],
                       case["out"], case["B"], case.get("activation"), case.get("ff_channels"), case.get("groups"),
                       case.get("dropout")])


def stats(cases, obss):
    d = {"kinds": {}, "B": {}, "cols": {}, "heads": {}, "errors": 0, "nontrivial_perms": 0, "trials_hist": {}, "total": 0}
    for c, o in zip(cases, obss):
        if c is None:
            continue
        d["total"] += 1
        used = {"tab_conv": ("dropout", "dropout2"), "ft_convs": ("activation", "ff_channels", "dropout", "layers"),
                "excel_conv": ("dropout", "dropout2", "dropout3"), "trompt_conv": ("groups", "prompts"),
                "trompt_decoder": ("prompts", "out"), "excel_decoder": ("out",)}[c["kind"]]
        for a in used:
            dd = d.setdefault(f"arg:{c['kind']}.{a}", {})
            dd[str(c.get(a))] = dd.get(str(c.get(a)), 0) + 1
        bd = d.setdefault("boundaries", {})
        att = c["kind"] in ("tab_conv", "excel_conv", "ft_convs")
        for name, cond in ((f"{c['kind']}:B=1", c["B"] == 1), (f"{c['kind']}:B=2", c["B"] == 2),
                           (f"{c['kind']}:cols=1", c["cols"] == 1 and c["kind"] != "trompt_decoder"),
                           (f"{c['kind']}:channels==heads", att and c["channels"] == c["heads"]),
                           (f"{c['kind']}:cols==heads", att and c["cols"] == c["heads"] and c["heads"] > 1),
                           ("trompt_conv:prompts==groups", c["kind"] == "trompt_conv" and c["prompts"] == c.get("groups")),
                           ("trompt_conv:groups=1", c["kind"] == "trompt_conv" and c.get("groups") == 1),
                           (f"{c['kind']}:out=1", c["kind"] in ("trompt_decoder", "excel_decoder") and c["out"] == 1)):
            if cond:
                bd[name] = bd.get(name, 0) + 1
        bd["B=0 (probed in every case)"] = d["total"]
        if c["cols"] > 16 and c["kind"] != "trompt_decoder":
            for lo, hi, name in ((0, 128, "<=128"), (128, 256, "129..256"), (256, 10 ** 6, ">256")):
                if lo < c["cols"] <= hi:
                    bd[f"{c['kind']}:cols{name}"] = bd.get(f"{c['kind']}:cols{name}", 0) + 1
        if o.get("ok") and o.get("outlier"):
            bd["outlier_row_probes"] = bd.get("outlier_row_probes", 0) + len(o["outlier"])
        for k, v in (("kinds", c["kind"]), ("B", c["B"]), ("cols", c["cols"]), ("heads", c["heads"])):
            d[k][str(v)] = d[k].get(str(v), 0) + 1
        if c.get("req"):
            d["req_total"] = d.get("req_total", 0) + 1
            d["req_errors"] = d.get("req_errors", 0) + int(not o.get("ok"))
        if not o.get("ok"):
            d["errors"] += 1
            continue
        d["nontrivial_perms"] += int(bool(o.get("perm_nontrivial")))
        if o.get("max_score") is not None:
            d["max_abs_attention_score"] = max(d.get("max_abs_attention_score", 0.0), o["max_score"])
            d["scores_measured"] = d.get("scores_measured", 0) + 1
        if o.get("core_fp") is not None:
            d["core_probes"] = d.get("core_probes", 0) + 1
        if o.get("rejections"):
            d["rejection_probes"] = d.get("rejection_probes", 0) + len(o["rejections"])
        d["trials_hist"][str(o["trials"])] = d["trials_hist"].get(str(o["trials"]), 0) + 1
    return d


def validate_mask_float(rng):
    """H_mask_kills in IEEE arithmetic, independent of the repository: for scores bounded by SCORE_BOUND the softmax
    weight of a position carrying the additive -1e5 mask is exactly 0.0 (float32 and float64); for scores of the
    order of the mask it is NOT (recorded: this is why the theorem carries a boundedness premise)."""
    fails, n, defeated = [], 0, 0
    g = torch.Generator().manual_seed(rng.randrange(1 << 30))
    for dtype in (torch.float32, torch.float64):
        for d in (1, 2, 4, 8, 16, 64):
            for scale in (1.0, 10.0, 100.0, 1000.0, 5000.0):
                sc = (torch.randn(64, 6, generator=g) * scale).to(dtype).clamp(-SCORE_BOUND, SCORE_BOUND)
                mask = torch.zeros(6, dtype=dtype)
                mask[3:] = -1e5
                w = torch.softmax((sc + mask) / math.sqrt(d), dim=-1)
                n += 1
                if not bool((w[:, 3:] == 0).all()):
                    fails.append(dict(key="H_mask_kills-float", what=f"softmax weight of a masked position is not exactly "
                                      f"0.0 for scores bounded by {SCORE_BOUND} (dtype {dtype}, d={d}, score scale {scale})",
                                      case=None, observed=float(w[:, 3:].max())))
        big = torch.tensor([[0.0, 0.0, 0.0, 2e5, 0.0, 0.0]], dtype=dtype)
        mask = torch.zeros(6, dtype=dtype)
        mask[3:] = -1e5
        defeated += int(bool((torch.softmax((big + mask) / 2.0, dim=-1)[:, 3:] > 0).any()))
    return fails, {"H_mask_kills_float_checks": n, "score_bound_asserted": SCORE_BOUND,
                   "mask_defeated_by_unbounded_score_in_float": bool(defeated)}


def validate_torch_blocks(rng):
    """The axis hypotheses on torch's blocks, checked directly: nn.Linear / LayerNorm act on the last axis only
    (perturbing cell (r, t) changes only output cell (r, t)), GroupNorm acts per sample, nn.TransformerEncoder in
    evaluation mode acts per row and commutes with token permutations (H_torch_encoder_rowwise_equivariant)."""
    import torch.nn as nn
    fails, n = [], 0
    with P.f64(rng.randrange(1 << 30)):
        for name, blk in (("Linear", nn.Linear(6, 5)), ("LayerNorm", nn.LayerNorm(6))):
            P.randomize_params(blk, 0.5)
            x = torch.randn(3, 4, 6)
            with torch.no_grad():
                y = blk(x)
                for r in range(3):
                    for t in range(4):
                        x2 = x.clone()
                        x2[r, t] += torch.randn(6)
                        d = (blk(x2) != y).flatten(2).any(dim=2)
                        n += 1
                        if d.nonzero().tolist() != [[r, t]]:
                            fails.append(dict(key="torch-block-axis", case=None, what=f"torch {name}: perturbing cell "
                                              f"({r},{t}) changed cells {d.nonzero().tolist()} (hypothesis acts_lastaxis)"))
        gn = nn.GroupNorm(2, 4)
        P.randomize_params(gn, 0.5)
        x = torch.randn(3, 4, 2, 5)
        with torch.no_grad():
            y = gn(x)
            for r in range(3):
                x2 = x.clone()
                x2[r] += torch.randn(4, 2, 5)
                n += 1
                if P.changed_rows(y, gn(x2)) != [r]:
                    fails.append(dict(key="torch-block-axis", case=None, what="torch GroupNorm does not act per sample"))
        for heads in (1, 2, 4):
            te = nn.TransformerEncoder(nn.TransformerEncoderLayer(d_model=8, nhead=heads, dim_feedforward=8, dropout=0.2,
                                                                  batch_first=True), num_layers=2, norm=nn.LayerNorm(8))
            te.eval()
            P.randomize_params(te, 0.3)
            x = torch.randn(3, 5, 8)
            perm = torch.tensor([3, 0, 4, 1, 2])
            with torch.no_grad():
                y = te(x)
                n += 2
                if P.maxdiff(te(x[:, perm]), y[:, perm]) > P.TOL:
                    fails.append(dict(key="torch-encoder-not-equivariant", case=None, what="nn.TransformerEncoder (eval) is "
                                      "not token-permutation equivariant (H_torch_encoder_rowwise_equivariant)"))
                x2 = x.clone()
                x2[1] += torch.randn(5, 8)
                if P.changed_rows(y, te(x2)) != [1]:
                    fails.append(dict(key="torch-encoder-not-rowwise", case=None, what="nn.TransformerEncoder (eval) mixes "
                                      "rows of the batch"))
    return fails, n


def selftest_discrimination(rng):
    """The correspondence must discriminate: measured footprints of the TabTransformer layer must fail against the
    ExcelFormer model and vice versa, and against the right model with a wrong head geometry."""
    base = {"channels": 8, "heads": 4, "cols": 3, "B": 2, "prompts": 2, "layers": 1, "out": 2, "perm": [2, 0, 1],
            "dropout": 0.2, "dropout2": 0.2, "dropout3": 0.2,
            "idx": [1, 0], "param_scale": 0.3}
    ct = dict(base, kind="tab_conv", seed=rng.randrange(1 << 30))
    ce = dict(base, kind="excel_conv", seed=rng.randrange(1 << 30))
    ot, oe = run(ct), run(ce)
    if not (ot.get("ok") and oe.get("ok")):
        return [dict(key="selftest-run-failed", case=None, what="self-test layers failed to run")], {}
    oe_norej = dict(oe, rejections=[])
    terms = [(0, coq_term(ct, ot)), (1, coq_term(ce, oe)),
             (2, "negb (" + coq_term(ct, ot, kind="excel_conv") + ")"),
             (3, "negb (" + coq_term(ce, oe_norej, kind="tab_conv") + ")"),
             (4, "negb (" + coq_term(dict(ct, heads=2), ot) + ")"),
             (5, "negb (" + coq_term(dict(ce, heads=2), oe_norej) + ")")]
    names = ["tab vs tab", "excel vs excel", "tab observation vs excel model", "excel observation vs tab model",
             "tab observation (4 heads) vs tab model with 2 heads", "excel observation (4 heads) vs excel model with 2 heads"]
    ok, bad, log = C.run_coq_cases(PROP + "selftest", HEADER, terms, shard=10)
    fails = []
    if not ok:
        fails.append(dict(key="selftest-coq-failed", case=None, what="discrimination self-test could not be evaluated: " + log[-500:]))
    for k in bad:
        fails.append(dict(key="selftest-not-discriminating", case=None,
                          what=f"discrimination self-test '{names[k]}' gave the wrong verdict"))
    return fails, {"selftest_terms": len(terms), "selftest_wrong": len(bad)}


def constructor_probes():
    """What the constructors do with configurations they currently reject (recorded, not demanded)."""
    from torch_frame.nn import ExcelFormerConv
    # OBSERVATION ONLY: no clause of C15 demands these rejections
    seen = {}
    for ch, heads in ((6, 4), (5, 2), (8, 3)):
        try:
            ExcelFormerConv(channels=ch, num_cols=3, num_heads=heads)
            seen[f"ExcelFormerConv(channels={ch}, num_heads={heads})"] = "constructed"
        except Exception as ex:
            seen[f"ExcelFormerConv(channels={ch}, num_heads={heads})"] = "raised " + C.exc_name(ex)
    return [], seen


def extra(tier, rng):
    f0, n0 = constructor_probes()
    f1, info = validate_mask_float(rng)
    f1 = f0 + f1
    info = dict(info, constructor_observations=n0)
    f2, n = validate_torch_blocks(rng)
    f3, info3 = selftest_discrimination(rng)
    return f1 + f2 + f3, dict(info, torch_block_axis_checks=n, **info3)


def sanity(cases, obss):
    """Fail-closed distribution check, including the score bound the causality theorem is proved under."""
    d = stats(cases, obss)
    probs = []
    for k in KINDS:
        if d["kinds"].get(k, 0) == 0:
            probs.append(f"layer kind {k} never drawn")
    if d.get("req_total", 0) == 0:
        probs.append("the deterministic boundary stream is missing")
    if d.get("req_errors", 0) > 0.2 * max(d.get("req_total", 0), 1):
        probs.append(f"{d.get('req_errors')} of {d.get('req_total')} cases of the deterministic stream failed to run")
    if not any(int(h) >= 3 for h in d["heads"]):
        probs.append("no case with 3 or more attention heads")
    if d.get("B", {}).get("1", 0) == 0 or not any(int(b) >= 3 for b in d["B"]):
        probs.append("batch sizes degenerate")
    if d["nontrivial_perms"] == 0:
        probs.append("no non-trivial column permutation")
    if d.get("scores_measured", 0) == 0:
        probs.append("attention scores could never be measured: the bound of H_mask_kills is unchecked")
    elif d["max_abs_attention_score"] > SCORE_BOUND:
        probs.append(f"max |attention score| {d['max_abs_attention_score']:.3g} exceeds the bound {SCORE_BOUND} under which "
                     f"the causality theorem (H_mask_kills) is claimed")
    for key, vals in d.items():
        if key.startswith("arg:") and len(vals) < 2:
            probs.append(f"constructor argument {key[4:]} takes a single value {list(vals)}")
    if d.get("arg:ft_convs.activation", {}).get("gelu", 0) == 0:
        probs.append("FTTransformerConvs never built with a non-default activation")
    if set(d.get("arg:trompt_conv.groups", {})) <= {"2"}:
        probs.append("TromptConv never built with a non-default num_groups")
    bd = d.get("boundaries", {})
    need = [f"{k}:B=1" for k in KINDS] + [f"{k}:B=2" for k in KINDS]
    for k in ("tab_conv", "excel_conv", "ft_convs"):
        need += [f"{k}:cols=1", f"{k}:channels==heads", f"{k}:cols==heads"]
    need += ["trompt_conv:prompts==groups", "trompt_conv:groups=1", "trompt_decoder:out=1", "excel_decoder:out=1",
             "excel_decoder:cols=1"]
    for k in KINDS:
        if k != "trompt_decoder":
            need += [f"{k}:cols129..256", f"{k}:cols>256"]
    need.append("outlier_row_probes")
    for k in need:
        if bd.get(k, 0) == 0:
            probs.append(f"boundary {k} never hit")
    if d.get("core_probes", 0) == 0:
        probs.append("the channel-level attention core was never probed")
    if d.get("rejection_probes", 0) == 0:
        probs.append("no shape-mismatch probe")
    return probs


# ------------------------------------------------------------------ Coq side
def _shp(sh):
    return f"({sh[0]}, {sh[1]}, {sh[2]})"


def coq_term(case, obs, kind=None):
    """Footprints of the Coq model of layer `kind` (default: this case's) run with THE CASE'S OWN hyper-parameters
    (channels, heads, columns, prompts, out) against the measured ones; plus the channel-level attention core and
    the rejection (None) branches."""
    if not obs.get("ok"):
        return None
    if n_in(case) > 16:
        # wide inputs: the provenance model is not run; for ExcelFormerConv the integer-comparison model of the mask
        # (Model/Layers.v mask_allowed over int64 ids) is compared with the measured footprint rows, and the int8
        # refutation witness is replayed (the measured rows must differ from the int8 prediction from column 128 on)
        if (kind or case["kind"]) == "excel_conv" and kind is None and obs.get("colfp_cols"):
            probes = "[" + "; ".join(f"({c}, {P.cbvec(row)})" for c, row in zip(obs["colfp_cols"], obs["colfp"])) + "]"
            n = n_in(case)
            return f"(wide_mask_ok {n} {probes} && wide_mask_not_int8 {n} {probes})"
        return None
    k = kind or case["kind"]
    B, cols, Pn, ch, h, out = case["B"], case["cols"], case["prompts"], case["channels"], case["heads"], case["out"]
    rows = "[" + "; ".join(f"({r}, {P.cnats(chd)})" for r, chd in obs["rows"]) + "]"
    core = "None" if obs.get("core_fp") is None else f"(Some {P.cbmat(obs['core_fp'])})"
    # the model mirrors the current code's raises; where the statement does not demand a rejection the model is
    # compared only if the implementation did raise (a normal return there is not a mismatch)
    rej3 = [r[:5] for r in obs.get("rejections", []) if len(r[1]) == 3 and (r[2] is None or len(r[2]) == 3)
            and (r[5] or r[3] or r[0].startswith("matching"))]
    if k == "tab_conv":
        return (f"(layer_fp_ok {cols} {cols} (Some (p_tab_conv {h} {ch} (pin {B} {cols} {ch}))) {B} {rows} "
                f"{P.cbmat(obs['colfp'])} && core_ok {cols} {ch} 0 (p_tab_core {h} {ch} {cols}) {core})")
    if k == "excel_conv":
        rej = "[" + "; ".join(f"({_shp(sa)}, {C.cbool(raised)})" for _, sa, _, raised, _ in rej3) + "]"
        return (f"(layer_fp_ok {cols} {cols} (p_excel_conv {cols} {h} {ch} (pin {B} {cols} {ch})) {B} {rows} "
                f"{P.cbmat(obs['colfp'])} && core_ok {cols} {ch} {ch} (p_excel_core {h} {ch} {cols}) {core} "
                f"&& excel_conv_rejections_ok {cols} {h} {ch} {rej})")
    if k == "ft_convs":
        return (f"ft_layer_fp_ok {cols} {B} (p_ft_convs {B} {cols} {ch}) {rows} {P.cbmat(obs['colfp'])} "
                f"{P.cbvec(obs['cls_reach'] or [])}")
    if k == "trompt_conv":
        rej = "[" + "; ".join(f"({_shp(sa)}, {_shp(sb)}, {C.cbool(raised)})" for _, sa, sb, raised, _ in rej3) + "]"
        return (f"(trompt_layer_fp_ok {cols} {Pn} {B} (p_trompt_conv_run {B} {cols} {ch} {Pn}) {rows} "
                f"{P.cbmat(obs['colfp'])} {P.cbmat(obs['pfp'] or [])} && trompt_conv_rejections_ok {cols} {ch} {Pn} {rej})")
    flat = [row[0] for row in obs["colfp"]]
    if k == "trompt_decoder":
        rej = "[" + "; ".join(f"({_shp(sa)}, {C.cbool(raised)})" for _, sa, _, raised, _ in rej3) + "]"
        return (f"(decoder_fp_ok {Pn} {B} (p_trompt_decoder {Pn} {ch} {out} (pin {B} {Pn} {ch})) {rows} {P.cbvec(flat)} "
                f"&& trompt_decoder_rejections_ok {Pn} {ch} {out} {rej})")
    if k == "excel_decoder":
        return f"decoder_fp_ok {cols} {B} (Some (p_excel_decoder {ch} {out} (pin {B} {cols} {ch}))) {rows} {P.cbvec(flat)}"
    raise ValueError(k)
