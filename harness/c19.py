"""C19 — feature mixup swaps whole features with one partner row, mixes targets convexly.

Implementation under test: torch_frame/nn/models/excelformer.py `feature_mixup`, called directly and through
`ExcelFormer.forward(tf, mixup_encoded=True)` (encoder output replaced by an id tensor with a forward hook, the
mixed tensor captured at the input of the first ExcelFormerConv).

About one case in six is a SEQUENCE of 2-4 calls in one process that share tensor objects: the mi_scores tensor
(and x / y) of a call is the very object of the previous call refreshed in place with other proportions
(mi.copy_(new), mi[j] = v), or a fresh tensor; directly, or on one ExcelFormer + one TensorFrame whose tf.mi_scores /
tf.y are refreshed.  Every call is judged on the arguments passed AT THAT CALL.

The random draws are never replayed from RNG state.  Inputs carry all-distinct feature entries, so every entry of
the mixed tensor names the input position it came from; the partner row, the mask and lambda are RECOVERED from
the outputs, the property clauses are checked directly on the tensors (oracle), and the Coq model
(coq/Model/Mixup.v, draws as explicit inputs) is run on the recovered draws and must reproduce the feature tensor
exactly and the target within float32 tolerance.
"""
from __future__ import annotations

import json
from fractions import Fraction as Fr

import torch

from harness import common as C

PROP = "C19"
HEADER = (
    "Require Import Coq.QArith.QArith Coq.Lists.List Coq.ZArith.ZArith Coq.Bool.Bool PF.Lib.ListX PF.Model.Mixup.\n"
    "From PF Require Import Lib.FloatSelect.\n"
    "(* IEEE level: torch's output entry against select32 (Flocq binary32) on (sign, mantissa, exponent) triples *)\n"
    "Definition sel1 (q : bool * (bool * Z * Z) * (bool * Z * Z) * (bool * Z * Z)) : bool :=\n"
    "  match q with (b, x, y, (s', m', e')) =>\n"
    "    match select32 b x y with\n"
    "    | Some (s, m, e) => orb (andb (Z.eqb m 0) (Z.eqb m' 0))   (* a zero stays a zero; its SIGN is not part of the property *)\n"
    "                            (andb (andb (Bool.eqb s s') (Z.eqb m m')) (Z.eqb e e'))\n"
    "    | None => false\n"
    "    end\n"
    "  end.\n"
    "Definition sel_ok l := forallb sel1 l.      (* every sampled entry, with the recovered mask bit and partner *)\n"
    "Definition sel_any l := existsb sel1 l.     (* SOME mask bit / partner row explains the entry *)")
MODEL_TARGETS = ["Model/Mixup.vo", "Lib/FloatSelect.vo"]
# Print Assumptions of the three IEEE-level theorems lists the stdlib axioms Flocq / Reals import
ALLOWED_AXIOMS = ("ClassicalDedekindReals.", "FunctionalExtensionality.", "Classical_Prop.")
SELECT_SAMPLE = 9
SHARD = 200
RULE = ("(feature entries: all-distinct float32 values 1e-45..1e8 traced by exact bit lookup; per call up to 9 "
        "entries, extreme magnitudes / zeros / subnormals first, are also checked bit for bit against Flocq's "
        "binary32 evaluation of mask*x + ~mask*x') one call -- or a sequence of 2-4 calls sharing in-place refreshed tensor objects (mi_scores, x, y) -- of "
        "feature_mixup (directly or through ExcelFormer.forward(mixup_encoded=True)) on a batch "
        "[B<=6, F<=4, D<=4] of all-distinct ids under a fresh torch seed; distinct = distinct (entry point, mode, "
        "target kind, B, F, D, recovered own/partner pattern, number of self/unconstrained rows, raise/no-raise); "
        "non-trivial = mixup on and at least one row took at least one entry from a partner row or mixed its target, "
        "or mixup off, or an expected raise")
TRUSTED = [
    "Coq 8.16.1 kernel + vm_compute (no native_compute)",
    "hand-written model coq/Model/Mixup.v of excelformer.py:feature_mixup with the random draws as explicit inputs, "
    "tied to /repo by this run's observational correspondence on draws recovered from the outputs",
    "modelled primitives: torch broadcasting of a [B,1] rate / [B,F,1] / [B,1,D] mask, tensor[index], F.one_hot, "
    "bool*float arithmetic; feature entries are all-distinct float32 values of magnitudes 1e-45..1e8 traced back "
    "to integer ids by exact bit lookup; rationals stand for float32 targets (tolerance 2e-6 * scale)",
    "harness/c19.py (generator, draw recovery, clause-by-clause oracle, Coq literal printer)",
    "Flocq (BinarySingleNaN) as the definition of IEEE binary32 multiplication / addition, and -- ONLY for "
    "mixup_entry_ieee_exact, mixup_entry_never_reads_other, rewritten_select_is_refuted -- the Coq standard library "
    "axioms it imports with Reals: ClassicalDedekindReals.sig_not_dec, ClassicalDedekindReals.sig_forall_dec, "
    "FunctionalExtensionality.functional_extensionality_dep, Classical_Prop.classic; torch's float32 kernel is tied "
    "to Flocq's mask_select by the select32 correspondence on up to 9 entries per call (bit-exact incl. the sign "
    "of zeros)",
]
ASSUMPTIONS = [
    "H_draws: Beta(beta,beta).sample, torch.randperm and torch.rand return rates in [0,1], indices < B and "
    "uniforms; their distribution is not part of the property (the theorems hold for every value of the draws)",
    "float32 round-off of lambda and of the convex combination is outside the exact model (tolerance 2e-6 * scale)",
    "the statement demands no raise: where the current code raises outside the quantifier (mi_scores missing in "
    "feature mode, class index outside [0, num_classes)) a normal return is accepted and the model, which mirrors the "
    "raise, is then not compared",
    "feature entries are finite float32 values of any magnitude incl. subnormals and zero: for those, "
    "mask*x + ~mask*x' returns the selected entry bit for bit (Props/C19.v mixup_entry_ieee_exact), except for the "
    "sign of a zero entry (-0.0 + 0.0 = +0.0) -- the oracle and the select32 correspondence identify -0.0 and 0.0 (a "
    "zero must stay a zero; which zero is not part of the property, and an equivalent formula such as "
    "partner.masked_fill(keep, 0) + own * keep produces the other one: harmless rewrite C19_h5); inf / nan embeddings are outside the model and never generated "
    "(bool * inf = nan in the code)",
    "torch's float32 multiply / add are IEEE binary32 round-to-nearest-even as formalised by Flocq (checked per "
    "run on up to 9 entries per call)",
]

TOL = Fr(2, 10 ** 6)

# CLAUSES -- raise / rejection demands and their backing in the property statement: the statement of C19 demands NO
# raise anywhere (it does not mention out-of-range class indices or missing mi_scores).  The oracle therefore has no
# no-raise:* / must-reject key; `raises:<mode>:<target>` is the demand NOT to raise on a valid batch.  On the malformed
# stream (mi_scores=None in feature mode; class index >= num_classes) the current code raises and the model mirrors it:
# raise-vs-raise is compared (mixup_raises), a normal return is accepted and not compared.  Zero-sum scores: no demand,
# not compared.
#
# ERROR_PATHS -- every raise / assert / special-case branch / dtype cast / float comparison of the anchored code
# (excelformer.py feature_mixup + the mixup_encoded part of ExcelFormer.forward), the generator kind that reaches it and
# the oracle / correspondence key that notices a change.  "corr" = model-vs-implementation term of coq_term_one.
#
#  site (feature_mixup)                                   reached by                              noticed by
#  ------------------------------------------------------ --------------------------------------- -----------------------
#  assert num_classes > 0                                  not generated (num_classes >= 1 is the property's domain);
#                                                          model: None                              --
#  assert mixup_type in [None,'feature','hidden']          all three modes drawn (sanity)           mode-specific keys
#  beta -> torch.tensor(beta, dtype=x.dtype)               beta in {0.001 .. 1000} (edge stream)    target-not-convex,
#                                                                                                   raises:* (nan rates)
#  Beta(beta,beta).sample((B,1)) in [0,1]                  every call; rates recovered as lambda    target-not-convex
#  randperm(B)                                             B in 1..6, identity perms counted        two-partners,
#                                                                                                   partner-differs
#  assert x.ndim == 3                                      always rank 3 (domain)                   --
#  feature: assert mi_scores is not None                   malformed stream (mi=None, 3 %)          corr (mixup_raises)
#  feature: mi_scores.to(x.device)                         CPU only                                 --
#  feature: rand(b,f) < shuffle_rates  (float compare)     all-kept / none-kept / partial rows      granularity:feature,
#                                                          counted in stats                         lambda-not-mi-share
#  feature: mi_scores / mi_scores.sum()  (NORMALISATION)   mi mass = 1 exactly, 1 +- {1e-5..1e-2},  lambda-not-mi-share,
#                                                          far from 1, leading zero, single         target-not-distribution
#                                                          non-zero, unsorted (gen_mi*, sanity)
#  feature: sum == 0 -> nan targets, no raise              zero-sum stream (4 %)                    outside the quantifier;
#                                                                                                   Props nan_target_iff..
#  feature: F == 1 (sum over one column, unsqueeze(2))     F in 1..4 all drawn (sanity)             granularity, lambda-..
#  hidden: rand(b,d) < rates, unsqueeze(1), lam = rates    hidden mode, D in 1..4                   granularity:hidden
#  off: ones_like(x, bool), lam = ones                     mode None                                off-changed-features,
#                                                                                                   off-changed-target
#  mask * x + ~mask * x[idx]  (bool*float32 arithmetic)    float32 entries 1e-45..1e8, +-0,         foreign-value (bit
#                                                          subnormals                               lookup), corr select32
#  y[shuffled_idx]                                         every call                               partner-differs
#  num_classes == 1: lam.squeeze(1); lam*y + (1-lam)*y'    scalar targets float32 / FLOAT64 / int64 target-not-convex,
#     (type promotion of y: int -> float32, float64 stays) / INT32 / whole-valued floats             y-shape,          
#                                                                                                   argument-modified
#  else: F.one_hot(y, num_classes) (LongTensor only,       class targets int64; num_classes = 2,    target-not-distribution,
#     raises on index >= num_classes or < 0)               B..B+2, 40 (top class / class 0 used);   corr (mixup_raises) for
#                                                          malformed stream: index >= num_classes   the malformed stream
#     int32 class targets: one_hot RAISES on the clean     NOT generated -- reported as a finding
#     tree (pending_fixes/C17-C19-int32-class-labels.diff)
#  ExcelFormer.forward: assert tf.y is not None,           forward entry (hooks), 12 % + multi      forward-out-shape and
#     num_classes=self.out_channels, beta=self.beta,                                                all keys above
#     mixup_type=self.mixup, getattr(tf,'mi_scores',None)


# ------------------------------------------------------------------ generator
def gen_ids(rng, B, F, D):
    ids = rng.sample(range(1, 4000), B * F * D)
    return [[[ids[(i * F + j) * D + k] for k in range(D)] for j in range(F)] for i in range(B)]


MANTISSAS = [0.1, 0.3, 1 / 3, 0.7, 1.1, 2.5, 3.141592653589793, 9.99, 1.0, 7.0, 1.0000001, 0.999999]


def f32(v):
    """the float32 nearest to v, as a Python float"""
    return float(torch.tensor(v, dtype=torch.float32))


def gen_vals(rng, x):
    """The float32 payload of every id: all-distinct values of widely varied magnitude (1e-8 .. 1e8, inexact decimals
    such as 0.1, subnormals, at most one zero of either sign), so that 'an entry is taken UNCHANGED' means bit
    equality and any arithmetic on the entries (own + (partner - own), lam-blends, casts) shows.  One case in five
    keeps the small integers (value = id).  inf / nan are outside the model (bool * inf = nan in the code)."""
    ids = [v for a in x for b in a for v in b]
    if rng.chance(0.2):
        return {str(i): float(i) for i in ids}
    vals, used = {}, set()
    for i in ids:
        for _ in range(100):
            r = rng.random()
            if r < 0.03:
                v = rng.pick([0.0, -0.0])
            elif r < 0.10:
                v = rng.pick([1e-40, 5e-45, 3.3e-39, 1.17e-38]) * rng.pick([1, -1, 3])      # subnormal in float32
            elif r < 0.25:
                v = float(rng.randint(1, 3000)) * rng.pick([1, -1])
            else:
                v = rng.pick(MANTISSAS) * 10.0 ** rng.randint(-8, 8) * rng.pick([1, 1, -1])
                if rng.chance(0.3):
                    v *= 1 + rng.randint(1, 99) / 128
            v = f32(v)
            key = 0.0 if v == 0 else v
            if key not in used and v == v and abs(v) != float("inf"):
                used.add(key)
                vals[str(i)] = v
                break
        else:
            vals[str(i)] = float(i)
    return vals


def gen_y(rng, tk, B, nc=None):
    """(num_classes, y) for a target kind; num_classes is kept when given"""
    if tk == "class":
        if nc is None:
            nc = rng.randint(max(2, B), B + 2) if rng.chance(0.75) else rng.randint(2, 4)
        if nc >= B and rng.chance(0.8):
            return nc, rng.sample(range(nc), B)           # all-distinct targets
        return nc, [rng.randrange(nc) for _ in range(B)]
    if tk == "scalar_f":
        pool = [Fr(k, 4) for k in range(-32, 33)]
        y = rng.sample(pool, B) if rng.chance(0.8) else [rng.pick(pool) for _ in range(B)]
        return 1, [[v.numerator, v.denominator] for v in y]
    return 1, ([rng.randrange(2) for _ in range(B)] if rng.chance(0.5) else rng.sample(range(0, 9), B))


def gen_mi(rng, F):
    while True:
        mi = [rng.pick([0, 1, 1, 2, 3, 4, 6, 8, 16]) for _ in range(F)]
        if sum(mi) > 0:
            break
    sh = rng.pick([1, 2, 4, 8, 16])
    return [[m, sh] for m in mi]                    # dyadic, non-negative, positive sum


MASS_DELTAS = [0, 1e-2, -1e-2, 1e-3, -1e-3, 5e-4, -5e-4, 1e-4, -1e-4, 1e-5, -1e-5]


def gen_mi_mass(rng, F):
    """float32 scores whose mass is 1 + delta for delta in MASS_DELTAS (stored normalised scores, slightly off):
    lambda must still be the SHARE of the kept columns, never the raw sum"""
    if F == 3 and rng.chance(0.15):
        # the witness of Props/C19.v skip_normalisation_when_close_to_one_refuted, replayed on the real code
        return [[Fr(f32(v)).numerator, Fr(f32(v)).denominator] for v in (0.5008, 0.3, 0.2)]
    w = [rng.pick([0, 1, 1, 2, 3, 5, 8]) + rng.random() for _ in range(F)]
    if rng.chance(0.2) and F >= 2:
        w[rng.randrange(F)] = 0.0
    tot = sum(w) or 1.0
    delta = rng.pick(MASS_DELTAS)
    if delta == 0 and rng.chance(0.6):
        # exactly one, in dyadic pieces
        parts = {1: [1], 2: [0.5, 0.5], 3: [0.5, 0.25, 0.25], 4: [0.5, 0.25, 0.125, 0.125]}[F]
        rng.shuffle(parts)
        vals = parts
    else:
        vals = [f32(v / tot * (1 + delta)) for v in w]
        if sum(vals) <= 0:
            vals = [f32((1 + delta) / F)] * F
    return [[Fr(v).numerator, Fr(v).denominator] for v in vals]


def gen_mi_boundary(rng, F):
    """mutual-information vectors at the edges: a leading zero, a single non-zero score, ascending (i.e. not sorted
    as MutualInformationSort leaves them), all equal"""
    kind = rng.pick(["leading_zero", "single_nonzero", "ascending", "equal"])
    if kind == "leading_zero" and F >= 2:
        mi = [0] + [rng.pick([1, 2, 3, 8]) for _ in range(F - 1)]
    elif kind == "single_nonzero":
        mi = [0] * F
        mi[rng.randrange(F)] = rng.pick([1, 3, 16])
    elif kind == "ascending":
        mi = sorted(rng.pick([1, 2, 3, 4, 6, 8, 16]) for _ in range(F))
    else:
        mi = [rng.pick([1, 4])] * F
    sh = rng.pick([1, 4, 16])
    return [[m, sh] for m in mi]


def gen_case(rng, tier, entry=None, clean=False):
    # one case in five sits on a boundary of the quantified dimensions: B in {1,2,3} (the permutation is then often
    # the identity: every row its own partner), beta extremes (rates at 0 / 1: nothing or everything kept; rates
    # all about 1/2), mutual-information vectors with zeros / a single non-zero / unsorted
    edge = rng.chance(0.2)
    B = rng.pick([1, 2, 2, 3, 3]) if edge else rng.wpick([(1, 1), (3, 2), (3, 3), (3, 4), (2, 5), (2, 6)])
    F = rng.randint(1, 4)
    D = rng.randint(1, 4)
    mode = rng.pick([None, "feature", "feature", "feature", "hidden", "hidden", "hidden"])
    entry = entry or ("forward" if rng.chance(0.12) else "direct")
    x = gen_ids(rng, B, F, D)
    tk = rng.wpick([(5, "class"), (3, "scalar_f"), (1, "scalar_i")])
    if entry == "forward" and tk == "scalar_i":
        tk = "scalar_f"
    nc, y = gen_y(rng, tk, B)
    if tk == "class" and rng.chance(0.15):
        # num_classes boundaries: 2 (targets repeat for B > 2), many classes; class 0 and the top class both used
        nc = rng.pick([2, 40])
        y = [rng.pick([0, nc - 1]) if rng.chance(0.6) else rng.randrange(nc) for _ in range(B)]
    beta = rng.pick([0.5, 0.5, 1.0, 2.0, 0.25, 4.0, 0.1])
    mi = gen_mi(rng, F) if (mode == "feature" or rng.chance(0.3)) else None
    if mi is not None and rng.chance(0.3):
        mi = gen_mi_mass(rng, F)
    if edge:
        beta = rng.pick([0.01, 0.001, 0.05, 100.0, 1000.0, 0.5])
        if mi is not None and rng.chance(0.7):
            mi = gen_mi_boundary(rng, F)
    case = dict(entry=entry, seed=rng.randrange(1 << 30), B=B, F=F, D=D, mode=mode, num_classes=nc,
                target=tk, y=y, beta=beta, mi=mi, x=x, val=gen_vals(rng, x))
    # target dtype: scalar targets also as float64 / int32 (class indices must be int64: F.one_hot)
    if tk == "scalar_f":
        case["y_dtype"] = rng.pick(["float32", "float32", "float64"])
        if rng.chance(0.15):
            case["y"] = [[int(fr_of(v)), 1] for v in case["y"]]      # whole-valued float targets
    elif tk == "scalar_i":
        case["y_dtype"] = rng.pick(["int64", "int64", "int32"])
    # low rate, outside the quantifier: scores with a ZERO sum (all-nan target, no raise)
    if mode == "feature" and not clean and rng.chance(0.04):
        if F >= 2 and rng.chance(0.3):
            v = rng.pick([1, 2, 4])
            z = [0] * F
            i, j = rng.sample(range(F), 2)
            z[i], z[j] = v, -v
            case["mi"] = [[m, 1] for m in z]
        else:
            case["mi"] = [[0, 1]] * F
    # low-rate malformed stream (direct calls only): a failed assert / one_hot range error
    elif entry == "direct" and not clean and rng.chance(0.03):
        if mode == "feature" and rng.chance(0.5):
            case["mi"] = None
        elif tk == "class":
            case["y"] = list(case["y"])
            case["y"][rng.randrange(B)] = nc + rng.randint(0, 2)
    if entry == "forward":
        case["heads"] = 1 if D % 2 else rng.pick([1, 2])
        if case["mi"] is None:
            case["mi"] = [[1, 1]] * F
    return case


def gen_multi(rng, tier):
    """Several calls in ONE process that share tensor OBJECTS: the mutual-information tensor (and x / y) of a call is
    the very object of the previous call, refreshed in place with other values (mi.copy_(new), mi[j] = v), or a
    fresh tensor.  Every call must use the values passed AT THAT CALL (lambda = MI share of the scores passed now).
    `via` = direct feature_mixup calls, or one ExcelFormer + one TensorFrame whose tf.mi_scores / tf.y are refreshed."""
    via = "forward" if rng.chance(0.2) else "direct"
    base = gen_case(rng, tier, entry=via, clean=True)
    if rng.chance(0.85):
        base["mode"] = "feature"
    if base["mode"] == "feature" and base["mi"] is None:
        base["mi"] = gen_mi(rng, base["F"])
    base.update(mi_obj="new", x_obj="new", y_obj="new")
    calls = [base]
    n = rng.pick([2, 3, 3, 4])
    for c in range(1, n):
        prev = calls[-1]
        if rng.chance(0.3):
            # the SAME argument objects again, untouched by the harness (other seed, maybe other mode): whatever
            # an earlier call did to them in place would now be computed on
            sub = dict(prev, seed=rng.randrange(1 << 30), x_obj="keep", y_obj="keep",
                       mi_obj="keep" if prev["mi"] is not None else "new")
            if via == "direct" and rng.chance(0.3):
                sub["mode"] = rng.pick(["hidden", None] + (["feature"] if prev["mi"] is not None else []))
            calls.append(sub)
            continue
        sub = dict(prev, seed=rng.randrange(1 << 30), x=gen_ids(rng, base["B"], base["F"], base["D"]))
        sub["val"] = gen_vals(rng, sub["x"])
        sub["num_classes"], sub["y"] = gen_y(rng, base["target"], base["B"], base["num_classes"])
        if via == "direct":
            sub["beta"] = rng.pick([0.5, 1.0, 2.0, 0.25])
            if rng.chance(0.15):
                sub["mode"] = rng.pick(["hidden", None, "feature"])
        last_fresh = (c == n - 1 and n >= 3)
        # other PROPORTIONS than at the previous call (not a rescaling of them)
        for _ in range(20):
            mi, pm = gen_mi(rng, base["F"]), prev["mi"]
            if pm is None or base["F"] == 1:
                break
            sm, sp = sum(v[0] for v in mi), sum(v[0] for v in pm)
            if any(a[0] * sp != b_[0] * sm for a, b_ in zip(mi, pm)):     # shares differ, not a mere rescaling
                break
        sub["mi"] = mi if (sub["mode"] == "feature" or prev["mi"] is not None or via == "forward") else None
        reuse_ok = prev["mi"] is not None and sub["mi"] is not None
        sub["mi_obj"] = "new" if (last_fresh or not reuse_ok or rng.chance(0.15)) else rng.pick(["copy_", "setitem"])
        sub["x_obj"] = rng.pick(["new", "copy_"])
        sub["y_obj"] = rng.pick(["new", "copy_"])
        calls.append(sub)
    return {"entry": "multi", "via": via, "calls": calls}


# The REQUIRED stream: a fixed-seed batch (own constant seed, independent of VERIF_SEED and of the tier) that alone
# covers every kind sanity() requires; it is prepended in both tiers, the run's seed only drives the additional
# random stream.  sanity() evaluates its requirements on this stream (the observation-based ones too: the torch
# seeds are part of the cases).
REQUIRED_SEED = 190019
REQUIRED_N = (330, 60)
_REQUIRED = None


def required_stream():
    global _REQUIRED
    if _REQUIRED is None:
        r = C.Rng(REQUIRED_SEED)
        _REQUIRED = ([dict(gen_case(r, "quick"), req=True) for _ in range(REQUIRED_N[0])]
                     + [dict(gen_multi(r, "quick"), req=True) for _ in range(REQUIRED_N[1])])
    return [dict(c) for c in _REQUIRED]


def generate(rng, tier):
    n, m = (570, 90) if tier == "quick" else (32000, 5000)
    return required_stream() + [gen_case(rng, tier) for _ in range(n)] + [gen_multi(rng, tier) for _ in range(m)]


# ------------------------------------------------------------------ implementation
def fr_of(v):
    return Fr(v[0], v[1])


def y_tensor(case):
    if case["target"] == "scalar_f":
        return torch.tensor([float(fr_of(v)) for v in case["y"]], dtype=getattr(torch, case.get("y_dtype", "float32")))
    return torch.tensor(case["y"], dtype=getattr(torch, case.get("y_dtype", "int64")))


def val_of(case, i):
    return case["val"][str(i)] if "val" in case else float(i)


def x_tensor(case):
    return torch.tensor([[[val_of(case, v) for v in b] for b in a] for a in case["x"]], dtype=torch.float32)


def pack_out(xm, ym, case):
    """The mixed feature tensor is read back as IDS by exact (bit) lookup of every float32 entry among the input
    entries (-0.0 and 0.0 identified: mask*x + ~mask*x' loses the sign of a zero); an entry that is not bit-equal to
    an input entry makes obs['x'] None."""
    obs = {"ok": True, "x_shape": list(xm.shape), "y_shape": list(ym.shape), "x_dtype": str(xm.dtype)}
    xl = xm.detach().to(torch.float64).tolist()
    back = {}
    for a in case["x"]:
        for b in a:
            for i in b:
                v = val_of(case, i)
                back[0.0 if v == 0 else v] = i
    ids, bad = [], None
    for ai, a in enumerate(xl):
        ids.append([])
        for bi, b in enumerate(a):
            ids[-1].append([])
            for ki, v in enumerate(b):
                i = back.get(0.0 if v == 0 else v) if (v == v and str(xm.dtype) == "torch.float32") else None
                if i is None and bad is None:
                    bad = [ai, bi, ki, repr(v)]
                ids[-1][-1].append(i)
    import math
    obs["x_negzero"] = [[ai, bi, ki] for ai, a in enumerate(xl) for bi, b in enumerate(a) for ki, v in enumerate(b)
                        if v == 0 and math.copysign(1.0, v) < 0]
    if bad is None:
        obs["x"] = ids
    else:
        obs["x"] = None
        obs["x_bad"] = bad
        obs["x_raw"] = [[[repr(v) for v in b] for b in a] for a in xl]

    def q(v):
        v = float(v)
        if v != v or v in (float("inf"), float("-inf")):
            return None
        f = Fr(v)
        return [f.numerator, f.denominator]
    yl = ym.detach().to(torch.float64).tolist()
    obs["y"] = [[q(v) for v in r] for r in yl] if ym.dim() == 2 else [q(v) for v in yl]
    return obs


def mi_values(case):
    return [float(fr_of(m)) for m in case["mi"]]


def refresh(old, new, how):
    """a tensor holding `new`: the object `old` refreshed in place, a fresh tensor, or (how == "keep": the case repeats
    the previous call's values) the very object of the previous call WITHOUT rewriting it -- whatever an earlier call
    did to it stays visible"""
    if old is None or how == "new" or old.shape != new.shape or old.dtype != new.dtype:
        return new
    if how == "keep":
        return old
    if how == "setitem":
        for j in range(old.shape[0]):
            old[j] = new[j]
    else:
        old.copy_(new)
    return old


def snap_args(**ts):
    return {k: (None if t is None else t.detach().clone()) for k, t in ts.items()}


def changed_args(before, **ts):
    """names of the argument tensors whose content differs from the snapshot taken before the call"""
    out = []
    for k, t in ts.items():
        b = before[k]
        if (t is None) != (b is None):
            out.append(k)
        elif t is not None and (t.shape != b.shape or t.dtype != b.dtype or not torch.equal(
                torch.nan_to_num(t.double(), nan=-777.0), torch.nan_to_num(b.double(), nan=-777.0))):
            out.append(k)
    return out


class DirectSession:
    """feature_mixup called directly; tensor objects survive from call to call"""
    def __init__(self, case):
        self.x = self.y = self.mi = None

    def call(self, case):
        from torch_frame.nn.models.excelformer import feature_mixup
        self.x = refresh(self.x, x_tensor(case), case.get("x_obj", "new"))
        self.y = refresh(self.y, y_tensor(case), case.get("y_obj", "new"))
        if case["mi"] is None:
            mi = None
        else:
            mi = self.mi = refresh(self.mi, torch.tensor(mi_values(case), dtype=torch.float32),
                                   case.get("mi_obj", "new"))
        before = snap_args(x=self.x, y=self.y, mi_scores=mi)
        torch.manual_seed(case["seed"])
        try:
            xm, ym = feature_mixup(self.x, self.y, num_classes=case["num_classes"], beta=case["beta"],
                                   mixup_type=case["mode"], mi_scores=mi)
        except Exception as ex:
            return {"ok": False, "exc": C.exc_name(ex),
                    "args_modified": changed_args(before, x=self.x, y=self.y, mi_scores=mi)}
        obs = pack_out(xm, ym, case)
        obs["args_modified"] = changed_args(before, x=self.x, y=self.y, mi_scores=mi)
        return obs

    def close(self):
        pass


class ForwardSession:
    """ExcelFormer.forward(tf, mixup_encoded=True) on ONE model and ONE TensorFrame: the wiring (num_classes =
    out_channels, beta, mixup type, tf.mi_scores) is observed with two public torch hooks located by module type
    (encoder output replaced by the id tensor, mixed tensor captured at the input of the first ExcelFormerConv)."""
    def __init__(self, case):
        import torch_frame
        from torch_frame import stype
        from torch_frame.data.stats import StatType
        from torch_frame.nn import ExcelFormer
        from torch_frame.nn.conv import ExcelFormerConv
        from torch_frame.nn.encoder.stypewise_encoder import StypeWiseFeatureEncoder
        B, F, D = case["B"], case["F"], case["D"]
        names = [f"n{j}" for j in range(F)]
        stats = {n: {StatType.MEAN: 0.0, StatType.STD: 1.0, StatType.QUANTILES: [0.0, 0.25, 0.5, 0.75, 1.0]}
                 for n in names}
        g = torch.Generator().manual_seed(case["seed"])
        self.tf = torch_frame.TensorFrame(feat_dict={stype.numerical: torch.randn(B, F, generator=g)},
                                          col_names_dict={stype.numerical: names}, y=y_tensor(case))
        self.mi = None
        torch.manual_seed(case["seed"] + 1)
        self.model = ExcelFormer(in_channels=D, out_channels=case["num_classes"], num_cols=F, num_layers=1,
                                 num_heads=case["heads"], col_stats=stats, col_names_dict=self.tf.col_names_dict,
                                 mixup=case["mode"], beta=case["beta"])
        enc = [m for m in self.model.modules() if isinstance(m, StypeWiseFeatureEncoder)]
        convs = [m for m in self.model.modules() if isinstance(m, ExcelFormerConv)]
        self.hooks = []
        self.hookless = len(enc) != 1 or not convs
        self.state = {}
        if not self.hookless:
            self.hooks.append(enc[0].register_forward_hook(
                lambda mod, inp, out: (self.state["ids"].clone(), out[1])))
            self.hooks.append(convs[0].register_forward_pre_hook(
                lambda mod, inp: self.state.__setitem__("x", inp[0].detach().clone())))
        self.model.train()

    def call(self, case):
        if self.hookless:
            return {"ok": False, "exc": "harness:no-hook-point", "hookless": True}
        self.state["ids"] = x_tensor(case)
        self.state.pop("x", None)
        self.tf.y = refresh(self.tf.y, y_tensor(case), case.get("y_obj", "new"))
        self.mi = refresh(self.mi, torch.tensor(mi_values(case), dtype=torch.float32), case.get("mi_obj", "new"))
        self.tf.mi_scores = self.mi
        from torch_frame import stype
        feat = self.tf.feat_dict[stype.numerical]
        before = snap_args(y=self.tf.y, mi_scores=self.mi, feat=feat)
        torch.manual_seed(case["seed"])
        try:
            out, ym = self.model(self.tf, mixup_encoded=True)
        except Exception as ex:
            return {"ok": False, "exc": C.exc_name(ex),
                    "args_modified": changed_args(before, y=self.tf.y, mi_scores=self.tf.mi_scores, feat=feat)}
        obs = pack_out(self.state["x"], ym, case)
        obs["out_shape"] = list(out.shape)
        obs["args_modified"] = changed_args(before, y=self.tf.y, mi_scores=self.tf.mi_scores,
                                            feat=self.tf.feat_dict[stype.numerical])
        return obs

    def close(self):
        for h in self.hooks:
            h.remove()


def run(case):
    subs = case["calls"] if case["entry"] == "multi" else [case]
    via = case["via"] if case["entry"] == "multi" else case["entry"]
    sess = (ForwardSession if via == "forward" else DirectSession)(subs[0])
    try:
        obss = [sess.call(sub) for sub in subs]
    finally:
        sess.close()
    return {"calls": obss} if case["entry"] == "multi" else obss[0]


# ------------------------------------------------------------------ recovery + oracle
def targets(case):
    """own targets as exact rationals: one-hot rows (class) or scalars"""
    nc = case["num_classes"]
    if case["target"] == "class":
        return [[Fr(1) if c == yi else Fr(0) for c in range(nc)] for yi in case["y"]]
    if case["target"] == "scalar_f":
        return [[fr_of(v)] for v in case["y"]]
    return [[Fr(v)] for v in case["y"]]


def expects_raise(case):
    if case["mode"] == "feature" and case["mi"] is None:
        return "mi_scores missing in feature mode"
    if case["target"] == "class" and any(not (0 <= v < case["num_classes"]) for v in case["y"]):
        return "class index outside [0, num_classes)"
    return None


def zero_sum_mi(case):
    """feature mode with scores whose sum is zero: outside the property's quantifier (scores >= 0, positive sum);
    the code returns an all-nan target without raising, the model says YMNaN"""
    return case["mode"] == "feature" and case["mi"] is not None and sum(fr_of(m) for m in case["mi"]) == 0


def fail(key, what, **kw):
    d = dict(key=key, what=what)
    d.update(kw)
    return d


_ANALYSED = {}


def analyse(case, obs):
    """memoised per (case, observation) object pair: oracle, correspondence printer, signature and statistics all
    need the same recovery"""
    key = (id(case), id(obs))
    hit = _ANALYSED.get(key)
    if hit is not None and hit[0] is case and hit[1] is obs:
        return hit[2]
    if len(_ANALYSED) > 200000:
        _ANALYSED.clear()
    res = analyse_uncached(case, obs)
    _ANALYSED[key] = (case, obs, res)
    return res


def analyse_uncached(case, obs):
    """Returns (failure | None, recovered | None).  recovered = dict(partner, mask, lam, self_rows, mixed_rows)."""
    B, F, D, mode = case["B"], case["F"], case["D"], case["mode"]
    tag = f"{mode or 'off'}:{case['target']}"
    x = case["x"]
    if obs.get("x") is None:
        bad = obs.get("x_bad") or [None, None, None, None]
        return fail(f"foreign-value:{tag}", f"entry ({bad[0]},{bad[1]},{bad[2]}) of the mixed feature tensor = {bad[3]} "
                    f"({obs.get('x_dtype')}) is not bit-equal to any entry of the input: entries are not taken "
                    "UNCHANGED from the own or the partner row", observed=obs.get("x_raw")), None
    xm = obs["x"]
    if obs["x_shape"] != [B, F, D]:
        return fail(f"x-shape:{tag}", "mixed feature tensor has a different shape than the input",
                    expected=[B, F, D], observed=obs["x_shape"]), None
    tg = targets(case)
    width = len(tg[0])
    want_yshape = [B, width] if case["target"] == "class" else [B]
    if obs["y_shape"] != want_yshape:
        return fail(f"y-shape:{tag}", "mixed target has the wrong shape", expected=want_yshape,
                    observed=obs["y_shape"]), None
    ym = obs["y"] if case["target"] == "class" else [[v] for v in obs["y"]]
    nan_case = zero_sum_mi(case)
    if not nan_case:
        if any(v is None for r in ym for v in r):
            return fail(f"target-not-finite:{tag}", "mixed target contains nan/inf", observed=obs["y"]), None
        ym = [[fr_of(v) for v in r] for r in ym]
    scale = max([Fr(1)] + [abs(v) for r in tg for v in r])
    tol = TOL * scale

    # clause 1: every entry is the same position of the own row or of ONE partner row
    pos = {x[i][j][k]: (i, j, k) for i in range(B) for j in range(F) for k in range(D)}
    own = [[[True] * D for _ in range(F)] for _ in range(B)]
    px = [None] * B
    for i in range(B):
        for j in range(F):
            for k in range(D):
                v = xm[i][j][k]
                if v not in pos:
                    return fail(f"foreign-value:{tag}", f"entry ({i},{j},{k}) of the mixed tensor is not an entry of "
                                "the input (values were combined instead of swapped)", observed=v), None
                r, j2, k2 = pos[v]
                if (j2, k2) != (j, k):
                    return fail(f"moved-position:{tag}", f"entry ({i},{j},{k}) comes from position ({r},{j2},{k2}): "
                                "not the same column/channel", observed=v), None
                if r != i:
                    own[i][j][k] = False
                    if px[i] is None:
                        px[i] = r
                    elif px[i] != r:
                        return fail(f"two-partners:{tag}", f"row {i} takes entries from rows {px[i]} and {r}",
                                    observed=xm[i]), None
    # clause 2: granularity
    if mode is None and any(p is not None for p in px):
        return fail("off-changed-features", "mixup off but the feature tensor changed", expected=x, observed=xm), None
    if mode == "feature":
        for i in range(B):
            for j in range(F):
                if len(set(own[i][j])) > 1:
                    return fail(f"granularity:feature:{case['target']}", f"feature mode: column {j} of row {i} is "
                                "only partly swapped", observed=xm[i][j]), None
    if mode == "hidden":
        for i in range(B):
            for k in range(D):
                if len({own[i][j][k] for j in range(F)}) > 1:
                    return fail(f"granularity:hidden:{case['target']}", f"hidden mode: channel {k} of row {i} is only "
                                "partly swapped", observed=xm[i]), None
    if mode == "feature":
        mask = [[own[i][j][0] for j in range(F)] for i in range(B)]
    elif mode == "hidden":
        mask = [[own[i][0][k] for k in range(D)] for i in range(B)]
    else:
        mask = None
    if nan_case:
        # only the feature tensor can be traced; the target is not a number
        return None, dict(partner=[i if p is None else p for i, p in enumerate(px)], mask=mask, lam=[Fr(1, 2)] * B,
                          self_rows=sum(p is None for p in px), mixed_rows=sum(p is not None for p in px),
                          own=own, tol=tol, nan=all(v is None for r in ym for v in r))
    # clause 4: class targets are distributions
    if case["target"] == "class":
        for i in range(B):
            if any(v < -tol for v in ym[i]) or abs(sum(ym[i]) - 1) > 2 * tol:
                return fail(f"target-not-distribution:{tag}", f"mixed class target of row {i} is not non-negative "
                            "with sum one", observed=[str(v) for v in ym[i]]), None
    # clause 3/5/6: the target is lam*own + (1-lam)*partner with the SAME partner, lam in [0,1]
    mi = None if case["mi"] is None else [fr_of(m) for m in case["mi"]]

    def explain(i, p):
        """lam such that ym[i] ~ lam*t_i + (1-lam)*t_p with lam in [0,1]; returns (ok, lam|None)"""
        ti, tp = tg[i], tg[p]
        diff = [c for c in range(width) if ti[c] != tp[c]]
        if not diff:
            return all(abs(ym[i][c] - ti[c]) <= tol for c in range(width)), None
        c0 = diff[0]
        lam = (ym[i][c0] - tp[c0]) / (ti[c0] - tp[c0])
        slack = tol / abs(ti[c0] - tp[c0])
        if lam < -slack or lam > 1 + slack:
            return False, lam
        ok = all(abs(ym[i][c] - (lam * ti[c] + (1 - lam) * tp[c])) <= tol for c in range(width))
        return ok, lam

    partner, lams, self_rows, mixed_rows = [], [], 0, 0
    for i in range(B):
        if mode is None:
            # off: plain labels, exactly
            if ym[i] != tg[i]:
                return fail(f"off-changed-target:{case['target']}", f"mixup off but the target of row {i} is not the "
                            "plain (one-hot) label", expected=[str(v) for v in tg[i]],
                            observed=[str(v) for v in ym[i]]), None
            partner.append(i)
            lams.append(Fr(1))
            continue
        if px[i] is not None:
            cands = [px[i]]
        else:
            cands = [i] + [p for p in range(B) if p != i]
        got = None
        for p in cands:
            ok, lam = explain(i, p)
            if ok:
                got = (p, lam)
                break
        if got is None:
            if px[i] is not None:
                other = [p for p in range(B) if p != px[i] and explain(i, p)[0]]
                if other:
                    return fail(f"partner-differs:{tag}", f"row {i}: features are swapped with row {px[i]} but the "
                                f"target is mixed with row {other[0]}", observed=[str(v) for v in ym[i]]), None
            return fail(f"target-not-convex:{tag}", f"row {i}: the mixed target is no combination lam*own+(1-lam)*"
                        "partner with lam in [0,1] of the own row and its partner",
                        expected=dict(own=[str(v) for v in tg[i]], partner=px[i]),
                        observed=[str(v) for v in ym[i]]), None
        p, lam = got
        if mode == "feature":
            # lam is the share of mutual-information mass of the columns kept from the row itself
            # (a row without visible partner keeps everything or is its own partner: target = own target)
            share = sum(m for m, keep in zip(mi, mask[i]) if keep) / sum(mi) if px[i] is not None else Fr(1)
            exp = [share * a + (1 - share) * b for a, b in zip(tg[i], tg[p])]
            if any(abs(a - b) > tol for a, b in zip(ym[i], exp)):
                return fail(f"lambda-not-mi-share:{case['target']}", f"feature mode, row {i}: target weight is not "
                            f"the MI share {share} of the kept columns", expected=[str(v) for v in exp],
                            observed=[str(v) for v in ym[i]]), None
            lam = share
        if lam is None:
            lam = Fr(1, 2)            # own and partner targets coincide: lam is not observable
        if p == i:
            self_rows += 1
        else:
            mixed_rows += 1
        partner.append(p)
        lams.append(lam)
    return None, dict(partner=partner, mask=mask, lam=lams, self_rows=self_rows, mixed_rows=mixed_rows,
                      own=own, tol=tol)


def oracle_one(case, obs):
    if "harness_exc" in obs:
        return fail("harness-exc", "harness failed to run the case: " + obs["harness_exc"], tb=obs.get("tb"))
    if obs.get("hookless"):
        return fail("harness-no-hook-point", "ExcelFormer has no StypeWiseFeatureEncoder / ExcelFormerConv submodule "
                    "to observe the mixed tensor at")
    if obs.get("args_modified"):
        return fail("argument-modified", f"the call modified its argument tensor(s) {obs['args_modified']} in place "
                    f"(mode {case['mode']}, target {case['target']}, entry {case['entry']})",
                    observed=obs["args_modified"])
    why = expects_raise(case)
    if why or zero_sum_mi(case):
        return None          # outside the property's quantifier; the outcome is compared by the correspondence
    if not obs["ok"]:
        return fail(f"raises:{case['mode'] or 'off'}:{case['target']}", f"feature_mixup raised {obs.get('exc')} on a "
                    "valid batch", observed=obs)
    if case["entry"] == "forward" and obs.get("out_shape") != [case["B"], case["num_classes"]]:
        return fail("forward-out-shape", "ExcelFormer.forward(mixup_encoded=True) returned a prediction of the wrong "
                    "shape", expected=[case["B"], case["num_classes"]], observed=obs.get("out_shape"))
    f, _ = analyse(case, obs)
    return f


def oracle(case, obs):
    if "harness_exc" in obs:
        return fail("harness-exc", "harness failed to run the case: " + obs["harness_exc"], tb=obs.get("tb"))
    if case["entry"] != "multi":
        return oracle_one(case, obs)
    # every call of the sequence is judged on ITS OWN arguments, whatever objects it shares with earlier calls
    for i, (sub, o) in enumerate(zip(case["calls"], obs["calls"])):
        f = oracle_one(sub, o)
        if f is not None:
            shared = [n + ("(kept as is)" if sub.get(n + "_obj") == "keep" else "") for n in ("mi", "x", "y")
                      if sub.get(n + "_obj", "new") != "new"]
            if f["key"] != "argument-modified":
                f["key"] += ":after-earlier-calls" if i > 0 else ""
            f["what"] = (f"call {i} of {len(case['calls'])} in one process"
                         + (f" (argument tensor objects shared with the previous call: {shared})" if shared else "")
                         + ": " + f["what"])
            f["call_index"] = i
            return f
    return None


def shrink(case):
    if case["entry"] != "multi":
        yield from shrink_one(case)
        return
    calls = case["calls"]
    if len(calls) == 1:
        yield dict(calls[0], entry=case["via"])
        return
    for k in range(len(calls)):
        rest = calls[:k] + calls[k + 1:]
        if k == 0:
            rest = [dict(rest[0], mi_obj="new", x_obj="new", y_obj="new")] + rest[1:]
        elif k < len(calls) - 1:
            # the successor may have relied on the dropped call's values ("keep"): refresh it in place instead
            nxt = dict(rest[k])
            for n in ("x_obj", "y_obj", "mi_obj"):
                if nxt.get(n) == "keep":
                    nxt[n] = "copy_"
            rest = rest[:k] + [nxt] + rest[k + 1:]
        yield dict(case, calls=rest)
    for k, sub in enumerate(calls):
        for n in ("x_obj", "y_obj"):
            if sub.get(n, "new") != "new":
                yield dict(case, calls=calls[:k] + [dict(sub, **{n: "new"})] + calls[k + 1:])
    # the calls share their shape: cut the same row / column / channel out of all of them
    gens = [list(shrink_one(sub)) for sub in calls]
    c0 = calls[0]
    cuts = ([("B", i) for i in range(c0["B"])] if c0["B"] > 1 else []) + \
           ([("F", j) for j in range(c0["F"])] if c0["F"] > 1 else []) + \
           ([("D", k) for k in range(c0["D"])] if c0["D"] > 1 and case["via"] == "direct" else [])
    for pos in range(len(cuts)):
        if all(len(g) == len(gens[0]) and pos < len(g) for g in gens):
            cand = [g[pos] for g in gens]
            if len({(c["B"], c["F"], c["D"]) for c in cand}) == 1:
                yield dict(case, calls=cand)


def shrink_one(case):
    B, F, D = case["B"], case["F"], case["D"]
    if B > 1:
        for i in range(B):
            c = dict(case, B=B - 1, x=case["x"][:i] + case["x"][i + 1:], y=case["y"][:i] + case["y"][i + 1:])
            yield c
    if F > 1:
        for j in range(F):
            c = dict(case, F=F - 1, x=[r[:j] + r[j + 1:] for r in case["x"]])
            if case["mi"] is not None:
                c["mi"] = case["mi"][:j] + case["mi"][j + 1:]
                if sum(m[0] for m in c["mi"]) == 0:
                    continue
            yield c
    if D > 1 and case["entry"] == "direct":
        for k in range(D):
            yield dict(case, D=D - 1, x=[[c[:k] + c[k + 1:] for c in r] for r in case["x"]])
    for s in (1, 2, 3):
        if case["seed"] != s:
            yield dict(case, seed=s)


def sig_one(case, obs):
    if zero_sum_mi(case):
        return json.dumps(["zero-sum-mi", case["entry"], case["target"], case["B"], case["F"], obs.get("ok")])
    if expects_raise(case):
        return json.dumps(["raise", case["entry"], case["mode"], case["target"], obs.get("ok")])
    if not obs.get("ok"):
        return None
    f, rec = analyse(case, obs)
    if rec is None:
        return None
    if case["mode"] is not None and rec["mixed_rows"] == 0:
        return None
    pat = [[[int(v) for v in c] for c in r] for r in rec["own"]]
    return json.dumps([case["entry"], case["mode"], case["target"], case["B"], case["F"], case["D"], pat,
                       rec["self_rows"]])


def nontrivial_sig(case, obs):
    if case["entry"] != "multi":
        return sig_one(case, obs)
    sigs = [sig_one(sub, o) for sub, o in zip(case["calls"], obs.get("calls", []))]
    if not any(sigs):
        return None
    return json.dumps(["multi", case["via"], [sub.get("mi_obj") for sub in case["calls"]], sigs])


def flatten(cases, obss):
    for c, o in zip(cases, obss):
        if c is None:
            continue
        if c["entry"] == "multi":
            for sub, so in zip(c["calls"], (o or {}).get("calls", [])):
                yield sub, so
        else:
            yield c, o


def stats(cases, obss):
    d = {"total": 0, "entry": {}, "mode": {}, "target": {}, "B": {}, "F": {}, "D": {}, "beta": {}, "raise_cases": 0,
         "rows": 0, "rows_mixed": 0, "rows_self_or_unconstrained": 0, "rows_with_partner_entries": 0,
         "distinct_targets": 0, "rows_taking_every_entry_from_the_partner": 0,
         "rows_keeping_every_entry_but_mixing_the_target": 0, "calls_where_every_row_is_its_own_partner_B_ge_2": 0,
         "calls_with_a_single_row": 0, "mi_with_leading_zero": 0, "mi_with_single_nonzero": 0,
         "mi_not_sorted_descending": 0, "beta_at_most_0.01": 0, "beta_at_least_100": 0,
         "mi_mass_exactly_one": 0, "mi_mass_within_1e-3_of_one_but_not_one": 0,
         "mi_mass_within_1e-4_of_one_but_not_one": 0, "mi_mass_about_1e-2_off_one": 0, "mi_mass_far_from_one": 0, "mi_is_the_refutation_witness": 0,
         "y_dtype": {}, "num_classes_2": 0, "num_classes_40": 0, "whole_valued_float_targets": 0}
    d["zero_sum_mi_cases"] = sum(1 for c, _ in flatten(cases, obss) if zero_sum_mi(c))
    def spread(c):
        vs = [abs(val_of(c, i)) for a in c["x"] for b in a for i in b if val_of(c, i) != 0]
        return (max(vs) / min(vs)) if vs else 1.0
    d["calls_with_entry_magnitudes_spread_over_1e6"] = sum(1 for c, _ in flatten(cases, obss) if spread(c) > 1e6)
    d["calls_with_zero_or_subnormal_entries"] = sum(
        1 for c, _ in flatten(cases, obss)
        if any(abs(val_of(c, i)) < 1.2e-38 for a in c["x"] for b in a for i in b))
    d["calls_on_kept_argument_objects"] = sum(1 for c, _ in flatten(cases, obss) if c.get("y_obj") == "keep")
    d["multi_call_cases"] = sum(1 for c in cases if c is not None and c["entry"] == "multi")
    d["calls_with_mi_tensor_refreshed_in_place"] = sum(
        1 for c in cases if c is not None and c["entry"] == "multi" for sub in c["calls"]
        if sub.get("mi_obj", "new") in ("copy_", "setitem") and sub["mode"] == "feature")
    for c, o in flatten(cases, obss):
        d["total"] += 1
        for k in ("entry", "mode", "target", "B", "F", "D", "beta"):
            d[k][str(c[k])] = d[k].get(str(c[k]), 0) + 1
        if not (o or {}).get("ok"):
            d["raise_cases"] += 1
            continue
        d["distinct_targets"] += int(len({json.dumps(v) for v in c["y"]}) == len(c["y"]))
        f, rec = analyse(c, o)
        if rec:
            d["rows"] += c["B"]
            d["rows_mixed"] += rec["mixed_rows"]
            d["rows_self_or_unconstrained"] += rec["self_rows"]
            d["rows_with_partner_entries"] += sum(1 for r in rec["own"] if not all(v for cc in r for v in cc))
            if c["mode"] is not None:
                none_kept = sum(1 for r in rec["own"] if not any(v for cc in r for v in cc))
                all_kept_mixed = sum(1 for i_, r in enumerate(rec["own"])
                                     if all(v for cc in r for v in cc) and rec["partner"][i_] != i_)
                d["rows_taking_every_entry_from_the_partner"] += none_kept
                d["rows_keeping_every_entry_but_mixing_the_target"] += all_kept_mixed
                if c["B"] >= 2 and rec["self_rows"] == c["B"]:
                    d["calls_where_every_row_is_its_own_partner_B_ge_2"] += 1
                if c["B"] == 1:
                    d["calls_with_a_single_row"] += 1
        if c["mode"] == "feature" and c["mi"] is not None and not zero_sum_mi(c):
            ms = [fr_of(m) for m in c["mi"]]
            d["mi_with_leading_zero"] += int(len(ms) >= 2 and ms[0] == 0)
            d["mi_with_single_nonzero"] += int(len(ms) >= 2 and sum(1 for m in ms if m != 0) == 1)
            d["mi_not_sorted_descending"] += int(ms != sorted(ms, reverse=True))
            off = abs(sum(ms) - 1)
            d["mi_mass_exactly_one"] += int(off == 0)
            d["mi_mass_within_1e-3_of_one_but_not_one"] += int(0 < off <= Fr(11, 10000))
            d["mi_mass_within_1e-4_of_one_but_not_one"] += int(0 < off <= Fr(11, 100000))
            d["mi_mass_about_1e-2_off_one"] += int(Fr(5, 1000) < off <= Fr(2, 100))
            d["mi_mass_far_from_one"] += int(off > Fr(1, 10))
            d["mi_is_the_refutation_witness"] += int([round(float(m), 4) for m in ms] == [0.5008, 0.3, 0.2])
        yd = c.get("y_dtype", "float32" if c["target"] == "scalar_f" else "int64")
        d["y_dtype"][yd] = d["y_dtype"].get(yd, 0) + 1
        d["num_classes_2"] += int(c["target"] == "class" and c["num_classes"] == 2)
        d["num_classes_40"] += int(c["target"] == "class" and c["num_classes"] == 40)
        d["whole_valued_float_targets"] += int(c["target"] == "scalar_f" and all(v[1] == 1 for v in c["y"]))
        if c["mode"] is not None:
            d["beta_at_most_0.01"] += int(c["beta"] <= 0.01)
            d["beta_at_least_100"] += int(c["beta"] >= 100)
    return d


# ------------------------------------------------------------------ Coq side
def cq(f):
    f = Fr(f)
    n = f"({f.numerator})%Z" if f.numerator < 0 else f"{f.numerator}%Z"
    return f"(Qmake {n} {f.denominator}%positive)"


def coq_inputs(case):
    x = C.clist(case["x"], lambda r: C.clist(r, lambda c: C.clist(c, C.cz)))
    if case["target"] == "scalar_f":
        y = f"(YVal {C.clist([fr_of(v) for v in case['y']], cq)})"
    else:
        y = f"(YIdx {C.clist(case['y'], C.cnat)})"
    mt = {None: "MixNone", "feature": "MixFeature", "hidden": "MixHidden"}[case["mode"]]
    mi = "None" if case["mi"] is None else f"(Some {C.clist([fr_of(m) for m in case['mi']], cq)})"
    return x, y, C.cnat(case["num_classes"]), mt, mi


def f32_triple(v):
    """(sign, mantissa, exponent) of a finite float32 in Flocq's canonical form: value = (-1)^s * m * 2^e"""
    import struct
    bits = struct.unpack("<I", struct.pack("<f", v))[0]
    sgn, E, F = bits >> 31, (bits >> 23) & 0xFF, bits & 0x7FFFFF
    if E == 255:
        return None
    if E == 0:
        return (sgn, F, -149) if F else (sgn, 0, 0)
    return (sgn, F + (1 << 23), E - 150)


def ctriple(t):
    return f"({C.cbool(bool(t[0]))}, {t[1]}%Z, {C.cz(t[2])})"


def select_term(case, obs, rec):
    """IEEE-level conjunct: for a sample of entries (zeros, subnormals and the largest own/partner magnitude gaps
    first) torch's output entry must be select32 of (recovered mask bit, own entry, partner entry), bit for bit."""
    import math
    B, F, D = case["B"], case["F"], case["D"]
    x = case["x"]
    negz = {tuple(p) for p in obs.get("x_negzero", [])}
    ent = []
    for i in range(B):
        p = rec["partner"][i]
        for j in range(F):
            for k in range(D):
                own, par = val_of(case, x[i][j][k]), val_of(case, x[p][j][k])
                keep = rec["own"][i][j][k]
                out = own if keep else par
                if out == 0:
                    out = -0.0 if (i, j, k) in negz else 0.0
                tiny = min(abs(own), abs(par)) < 1.2e-38
                gap = abs(math.log2(abs(own) or 1e-50) - math.log2(abs(par) or 1e-50))
                # a row that took no entry from its partner: the partner is known at best through the target (not
                # uniquely when targets repeat), and the sign of a ZERO output depends on the sign of the partner's
                # entry (-0.0 + 0.0 * y): some row of the batch must explain it
                amb = (out == 0 and all(v for c_ in rec["own"][i] for v in c_))
                ent.append(((0 if tiny else 1, 0 if not keep else 1, -gap),
                            (keep, own, par, out, [val_of(case, x[r][j][k]) for r in range(B)] if amb else None)))
    ent.sort(key=lambda e: e[0])
    rnd = C.Rng(case["seed"])
    pick = ent[:SELECT_SAMPLE * 2 // 3] + rnd.sample(ent[SELECT_SAMPLE * 2 // 3:],
                                                     min(SELECT_SAMPLE // 3, max(0, len(ent) - SELECT_SAMPLE * 2 // 3)))
    items, extra = [], []
    for _, (keep, own, par, out, amb) in pick:
        if amb is None:
            items.append(f"({C.cbool(keep)}, {ctriple(f32_triple(own))}, {ctriple(f32_triple(par))}, "
                         f"{ctriple(f32_triple(out))})")
        else:
            cands = [f"({C.cbool(keep)}, {ctriple(f32_triple(own))}, {ctriple(f32_triple(v))}, "
                     f"{ctriple(f32_triple(out))})" for v in amb]
            extra.append(f"sel_any {C.clist(cands)}")
    return " && ".join([f"sel_ok {C.clist(items)}"] + extra)


def share_term(case, obs, rec):
    """feature mode: the lambda read off the implementation's target (rows where own and partner targets differ by
    at least 1 in some component) against the executable right-hand side of feature_mode_lambda_is_mi_share"""
    if case["mode"] != "feature" or case["mi"] is None or zero_sum_mi(case) or sum(fr_of(m) for m in case["mi"]) <= 0:
        return None
    tg = targets(case)
    ym = obs["y"] if case["target"] == "class" else [[v] for v in obs["y"]]
    rows = []
    for i in range(case["B"]):
        p = rec["partner"][i]
        diff = [c for c in range(len(tg[i])) if abs(tg[i][c] - tg[p][c]) >= 1]
        if p == i or not diff:
            continue
        c0 = diff[0]
        lam = (fr_of(ym[i][c0]) - tg[p][c0]) / (tg[i][c0] - tg[p][c0])
        rows.append(f"({C.clist(rec['mask'][i], C.cbool)}, {cq(lam)})")
    if not rows:
        return None
    mi = C.clist([fr_of(m) for m in case["mi"]], cq)
    return f"share_agrees {cq(rec['tol'])} {mi} {C.clist(rows)}"


def foreign_term(case, obs):
    """The oracle found an output entry that is no input entry: at IEEE level no mask bit and no partner row makes
    select32 produce it (evaluates to false unless the model and the bit lookup disagree)."""
    bad = obs.get("x_bad")
    if not bad or bad[0] is None or obs.get("x_dtype") != "torch.float32":
        return None
    i, j, k, rep = bad
    try:
        out = f32_triple(float(rep))
    except (ValueError, OverflowError):
        out = None
    if out is None or obs["x_shape"] != [case["B"], case["F"], case["D"]]:
        return "false"
    x = case["x"]
    own = f32_triple(val_of(case, x[i][j][k]))
    cands = [f"(true, {ctriple(own)}, {ctriple(own)}, {ctriple(out)})"]
    cands += [f"(false, {ctriple(own)}, {ctriple(f32_triple(val_of(case, x[p][j][k])))}, {ctriple(out)})"
              for p in range(case["B"])]
    return f"sel_any {C.clist(cands)}"


def coq_term_one(case, obs):
    if "harness_exc" in obs or obs.get("hookless"):
        return None
    if obs.get("args_modified"):
        return "false"               # the model is a pure function of its arguments
    x, y, nc, mt, mi = coq_inputs(case)
    B, F, D = case["B"], case["F"], case["D"]
    if zero_sum_mi(case):
        # outside the property's quantifier (scores >= 0 with positive sum): what a zero-sum score vector yields
        # (the current code: nan targets) is not demanded of the implementation -- a harmless rewrite may differ
        # there.  The model's YMNaN branch documents the current behaviour (Props/C19.v nan_target_iff_zero_sum_mi).
        return None
    if not obs["ok"]:
        # raise / no-raise: any well-shaped draws will do (the raising conditions do not depend on them)
        n = F if case["mode"] == "feature" else D
        dr = (f"{{| rates := {C.clist([Fr(1, 2)] * B, cq)}; perm := {C.clist(list(range(B)), C.cnat)}; "
              f"unif := {C.clist([[Fr(0)] * n] * B, lambda r: C.clist(r, cq))} |}}")
        return f"mixup_raises {x} {y} {nc} {mt} {mi} {dr}"
    f, rec = analyse(case, obs)
    if expects_raise(case):
        return None                  # the model mirrors a raise of the current code that the statement does not
                                     # demand (mi_scores missing, class index out of range): the implementation
                                     # returned normally, nothing to compare
    if rec is None:
        if zero_sum_mi(case):
            return "false"           # feature tensor not traceable
        if obs.get("x") is None:
            return foreign_term(case, obs)
        return None                  # the oracle reports the structural failure
    if case["mode"] == "feature":
        rates = [Fr(1, 2)] * B
    elif case["mode"] == "hidden":
        rates = rec["lam"]
    else:
        rates = [Fr(1, 2)] * B
    # canonical uniforms: -1 where the recovered mask keeps the own entry (u < rate), 2 where it takes the partner's
    if rec["mask"] is None:
        unif = []
    else:
        unif = [[Fr(-1) if m else Fr(2) for m in row] for row in rec["mask"]]
    dr = (f"{{| rates := {C.clist(rates, cq)}; perm := {C.clist(rec['partner'], C.cnat)}; "
          f"unif := {C.clist(unif, lambda r: C.clist(r, cq))} |}}")
    xo = C.clist(obs["x"], lambda r: C.clist(r, lambda c: C.clist(c, C.cz)))
    if zero_sum_mi(case):
        if not rec["nan"]:
            return "false"           # the model says: every target entry is nan
        yo = "YMNaN"
    elif case["target"] == "class":
        yo = f"(YMClass {C.clist(obs['y'], lambda r: C.clist([fr_of(v) for v in r], cq))})"
    else:
        yo = f"(YMScalar {C.clist([fr_of(v) for v in obs['y']], cq)})"
    sh = share_term(case, obs, rec)
    return (f"(mixup_agrees {x} {y} {nc} {mt} {mi} {dr} {cq(rec['tol'])} {xo} {yo} && {select_term(case, obs, rec)}"
            + (f" && {sh}" if sh else "") + ")")


def coq_term(case, obs):
    if "harness_exc" in obs:
        return None
    if case["entry"] != "multi":
        return coq_term_one(case, obs)
    # the model is a function of the arguments of ONE call: a sequence is the conjunction of its calls
    terms = [coq_term_one(sub, o) for sub, o in zip(case["calls"], obs["calls"])]
    terms = [t for t in terms if t is not None]
    return "(" + " && ".join(terms) + ")" if terms else None


def sanity(cases, obss):
    """Fail-closed distribution check: a run whose inputs degenerate must not report green.  All requirements are
    evaluated on the REQUIRED (fixed-seed) stream, so that they do not depend on the run's seed; the bound on raising
    calls is additionally evaluated over the whole run."""
    req = [(c, o) for c, o in zip(cases, obss) if c is not None and c.get("req")]
    if len(req) < sum(REQUIRED_N):
        return [f"only {len(req)} of the {sum(REQUIRED_N)} cases of the required stream were run"]
    whole = stats(cases, obss)
    d = stats([c for c, _ in req], [o for _, o in req])
    probs = []
    if whole["raise_cases"] > 0.2 * max(1, whole["total"]):
        probs.append(f"{whole['raise_cases']} of {whole['total']} calls of the whole run raise")
    n = d["total"]
    if n == 0:
        return ["no calls"]
    for k, vals in (("mode", ["None", "feature", "hidden"]), ("target", ["class", "scalar_f", "scalar_i"]),
                    ("entry", ["direct", "forward"])):
        for v in vals:
            if d[k].get(v, 0) == 0:
                probs.append(f"{k} {v} never drawn")
    for k, hi in (("B", 6), ("F", 4), ("D", 4)):
        for v in range(1, hi + 1):
            if d[k].get(str(v), 0) == 0:
                probs.append(f"{k}={v} never drawn")
    if d["raise_cases"] > 0.2 * n:
        probs.append(f"{d['raise_cases']} of {n} calls raise")
    if d["rows"] == 0 or d["rows_mixed"] < 0.2 * d["rows"]:
        probs.append(f"only {d['rows_mixed']} of {d['rows']} rows are visibly mixed with a partner")
    if d["rows_with_partner_entries"] < 0.15 * max(1, d["rows"]):
        probs.append("too few rows take feature entries from their partner")
    if d["distinct_targets"] < 0.5 * n:
        probs.append("fewer than half of the calls have all-distinct targets (partner recovery would be ambiguous)")
    if d["multi_call_cases"] == 0 or d["calls_with_mi_tensor_refreshed_in_place"] == 0:
        probs.append("no multi-call sequence with an in-place refreshed mi_scores tensor")
    if d["zero_sum_mi_cases"] == 0:
        probs.append("zero-sum mi_scores never drawn")
    if d["calls_with_entry_magnitudes_spread_over_1e6"] < 0.3 * n:
        probs.append("fewer than 30 % of the calls carry feature entries of widely different magnitudes")
    if d["calls_with_zero_or_subnormal_entries"] == 0:
        probs.append("no call with zero / subnormal feature entries")
    for k in ("rows_taking_every_entry_from_the_partner", "rows_keeping_every_entry_but_mixing_the_target",
              "calls_where_every_row_is_its_own_partner_B_ge_2", "calls_with_a_single_row", "mi_with_leading_zero",
              "mi_with_single_nonzero", "mi_not_sorted_descending", "beta_at_most_0.01", "beta_at_least_100",
              "mi_mass_exactly_one", "mi_mass_within_1e-3_of_one_but_not_one",
              "mi_mass_within_1e-4_of_one_but_not_one", "mi_mass_about_1e-2_off_one", "mi_mass_far_from_one",
              "mi_is_the_refutation_witness", "num_classes_2", "num_classes_40", "whole_valued_float_targets"):
        if d[k] == 0:
            probs.append(f"boundary never hit: {k} = 0")
    for yd in ("float32", "float64", "int64", "int32"):
        if d["y_dtype"].get(yd, 0) == 0:
            probs.append(f"target dtype {yd} never drawn")
    if d["calls_on_kept_argument_objects"] == 0:
        probs.append("no repeated call on the untouched argument objects of the previous call")
    return probs
