"""C17 — fitted cat-to-num transform is pure, label-independent and as documented.

Implementation under test: torch_frame.transforms.CatToNumTransform (fit, __call__/forward, transformed_stats,
state_dict / load_state_dict).  A case is a HISTORY: [call before fit] ; fit ; keys ; (call | round trip)*, where the
frames to transform have the fitted schema and are row subsets of a pool (any rows, single rows, repeated rows),
with label content that is absent / a strict subset of the classes / arbitrary / of another dtype.

oracle: plain-Python reference of the documented estimate with exact Fractions (never looks at the transformed
frame's y, never at other rows); correspondence: coq/Model/CatToNum.v `run_history` on the same history.
"""
from __future__ import annotations

import copy
import io
import json
from fractions import Fraction as Fr

import torch

from harness import common as C

PROP = "C17"
HEADER = "Require Import Coq.QArith.QArith PF.Lib.ListX PF.Model.CatToNum."
MODEL_TARGETS = ["Model/CatToNum.vo"]
SHARD = 60
RULE = ("histories [call-before-fit]; fit; keys; (call | state_dict round trip)* of CatToNumTransform on directly "
        "built TensorFrames; distinct = distinct (task, #numerical, #categorical, num_classes, per call: rows kind, "
        "label kind, has-missing, ok/err, output width, round trips before it); non-trivial = at least one "
        "successful call on a frame whose labels differ from the training labels (absent, subset of classes, other "
        "dtype, arbitrary) or on a strict row subset, or an expected raise")
TRUSTED = [
    "Coq 8.16.1 kernel + vm_compute (no native_compute)",
    "hand-written model coq/Model/CatToNum.v of cat_to_num_transform.py / fittable_base_transform.py / "
    "base_transform.py, tied to /repo by this run's observational correspondence over whole histories",
    "modelled primitives: torch index_select / tensor[index], broadcasting of [N,K-1] + [K-1], torch.cat(dim=1), "
    "F.one_hot, dict insertion order, TensorFrame.validate; rationals stand for float32 "
    "(generated cells compared with tolerance 1e-6 * (max count + max|y| + 1) / (n_train + 1))",
    "harness/c17.py (generator, Fraction reference, input-frame snapshot, Coq literal printer)",
]
ASSUMPTIONS = [
    "copy.copy(tf) + dict rebinding keeps the caller's frame intact: a pure function in the model; on the real "
    "objects checked by a before/after snapshot of dict keys, name lists, tensors and y on every call",
    "float32 round-off of the estimate is outside the exact model (stated tolerance)",
    "frames to transform are within the property's quantifier: fitted schema, >= 1 row, every categorical column "
    "has a non-missing entry",
]

NUM_NAMES = ["n0", "n1", "num_2"]
CAT_NAMES = ["c0", "c1", "cat_2", "a", "a_0x", "k_1"]


# ------------------------------------------------------------------ generator
def q(v):
    v = Fr(v)
    return [v.numerator, v.denominator]


def fr(v):
    return Fr(v[0], v[1])


def gen_labels(rng, task, n, k):
    if task == "regression":
        vals = [q(Fr(rng.randint(-32, 32), 4)) for _ in range(n)]
        if rng.chance(0.12) and n > 1:
            for i in rng.sample(range(n), rng.randint(1, min(2, n - 1))):
                vals[i] = None
        return {"t": "float", "v": vals}
    if task == "binary":
        vals = [rng.randrange(2) for _ in range(n)]
        if rng.chance(0.25):
            return {"t": "float", "v": [q(v) for v in vals]}
        return {"t": "int", "v": vals}
    vals = [rng.randrange(k) for _ in range(n)]
    vals[rng.randrange(n)] = k - 1            # the top class is present: num_classes = k
    return {"t": "int", "v": vals}


def other_labels(rng, task, n, k, kind, own):
    """label content of a frame to transform"""
    if kind == "none":
        return None
    if kind == "own":
        return own
    if kind == "subset":                      # only some of the classes (the frame's max label is <= 1)
        return {"t": "int", "v": [rng.randrange(2) if rng.chance(0.5) else 0 for _ in range(n)]}
    if kind == "zeros":
        return {"t": "int", "v": [0] * n}
    if kind == "bigint":                      # labels above the fitted classes
        return {"t": "int", "v": [rng.randint(0, 9) for _ in range(n)]}
    if kind == "float":
        return {"t": "float", "v": [q(Fr(rng.randint(-20, 20), 2)) if rng.chance(0.9) else None for _ in range(n)]}
    raise AssertionError(kind)


def frame_of(pool, rows, y):
    def sel(b):
        if b is None:
            return None
        return {"names": b["names"], "cols": [[c[r] for r in rows] for c in b["cols"]]}
    return {"num": sel(pool["num"]), "cat": sel(pool["cat"]), "y": y}


def sel_labels(y, rows):
    return None if y is None else {"t": y["t"], "v": [y["v"][r] for r in rows]}


def gen_case(rng, tier):
    task = rng.pick(["regression", "binary", "multiclass", "multiclass"])
    k = rng.pick([3, 4]) if task == "multiclass" else 2
    ncat = rng.wpick([(4, 1), (4, 2), (2, 3)])
    nnum = rng.wpick([(3, 0), (3, 1), (2, 2)])
    cat_names = rng.sample(CAT_NAMES, ncat)
    num_names = rng.sample(NUM_NAMES, nnum)
    P = rng.randint(3, 9)                     # pool rows; the training frame is a prefix (or all) of the pool
    ntrain = P if rng.chance(0.5) else rng.randint(2, P)
    stats, cat_cols = {}, []
    for name in cat_names:
        m = rng.randint(1, 4)
        while True:
            raw = [rng.randrange(m) if rng.chance(0.7) else rng.randrange(1 + m // 2) for _ in range(P)]
            raw = [(-1 if rng.chance(0.2) else v) for v in raw]
            if any(v >= 0 for v in raw[:ntrain]):
                break
        # statistics as compute_col_stats would produce them on the pool: categories ordered by decreasing count
        cnt = {}
        for v in raw:
            if v >= 0:
                cnt[v] = cnt.get(v, 0) + 1
        order = sorted(cnt, key=lambda v: (-cnt[v], v))
        relabel = {v: i for i, v in enumerate(order)}
        counts = [cnt[v] for v in order]
        if rng.chance(0.2):
            counts.append(rng.randint(0, counts[-1]))       # a category of the statistics that no pool row carries
        if rng.chance(0.15):
            counts = [c + rng.randint(0, 3) for c in counts]  # statistics of a larger table than the frame
            counts.sort(reverse=True)
        cat_cols.append([relabel[v] if v >= 0 else -1 for v in raw])
        stats[name] = counts
    num_cols = []
    for name in num_names:
        num_cols.append([None if rng.chance(0.1) else q(Fr(rng.randint(-64, 64), 8)) for _ in range(P)])
        stats[name] = []
    pool = {"num": {"names": num_names, "cols": num_cols} if nnum else None,
            "cat": {"names": cat_names, "cols": cat_cols}}
    ypool = gen_labels(rng, task, P, k)
    if task == "multiclass":                   # the top class lies inside the training prefix
        ypool["v"][rng.randrange(ntrain)] = k - 1
    if task == "regression" and all(v is None for v in ypool["v"][:ntrain]):
        ypool["v"][0] = q(1)
    train_rows = list(range(ntrain))
    steps = []
    if rng.chance(0.12):
        rows = [rng.randrange(P)]
        steps.append({"op": "call", "frame": frame_of(pool, rows, sel_labels(ypool, rows)), "why": "unfitted",
                      "rows": "single", "labels": "own"})
    fit_y = sel_labels(ypool, train_rows)
    if rng.chance(0.02):
        fit_y = None                            # malformed: fitting without a target
    steps.append({"op": "fit", "frame": frame_of(pool, train_rows, fit_y), "stats": stats})
    steps.append({"op": "keys"})
    ncalls = rng.randint(2, 5)
    label_kinds = ["none", "own", "subset", "zeros", "bigint", "float"]
    prev_rows = None
    for _ in range(ncalls):
        if rng.chance(0.25):
            steps.append({"op": "roundtrip", "how": rng.pick(["direct", "deepcopy", "torch"])})
        r = rng.random()
        if prev_rows is not None and r < 0.3:
            rows, rk = prev_rows, "same"        # same rows, other labels: label independence, directly
        elif r < 0.45:
            rows, rk = list(range(P)), "all"
        elif r < 0.6:
            rows, rk = [rng.randrange(P)], "single"
        elif r < 0.8:
            rows, rk = sorted(rng.sample(range(P), rng.randint(1, P))), "subset"
        else:
            rows, rk = [rng.randrange(P) for _ in range(rng.randint(1, P + 2))], "multiset"
        # within the quantifier: every categorical column keeps a non-missing entry
        for col in cat_cols:
            if all(col[r_] < 0 for r_ in rows):
                rows = rows + [rng.pick([i for i in range(P) if col[i] >= 0])]
        prev_rows = rows
        lk = rng.pick(label_kinds)
        y = other_labels(rng, task, len(rows), k, lk, sel_labels(ypool, rows))
        frame = frame_of(pool, rows, y)
        st = {"op": "call", "frame": frame, "rows": rk, "labels": lk}
        if rng.chance(0.06):                    # a category index not seen at fit time
            ci = rng.randrange(ncat)
            frame["cat"]["cols"][ci] = list(frame["cat"]["cols"][ci])
            frame["cat"]["cols"][ci][rng.randrange(len(rows))] = len(stats[cat_names[ci]]) + rng.randint(0, 2)
            st["why"] = "unseen"
        steps.append(st)
    if rng.chance(0.3):
        steps.append({"op": "keys"})
    return {"task": task, "k": k, "steps": steps}


def exhaustive_small(rng):
    """Thorough tier: for one fit per task, EVERY index list of length 1..3 over a 3-row pool x EVERY integer label
    content over {0,1,2} (plus absent and float labels) -- the finite small scope of 'any row subset, any label
    content'."""
    import itertools
    out = []
    for task, ytrain in (("regression", {"t": "float", "v": [q(Fr(3, 2)), q(-2), q(Fr(1, 4))]}),
                         ("binary", {"t": "int", "v": [1, 0, 1]}),
                         ("multiclass", {"t": "int", "v": [2, 0, 1]})):
        pool = {"num": {"names": ["n0"], "cols": [[q(1), None, q(Fr(-5, 2))]]},
                "cat": {"names": ["c0", "a"], "cols": [[0, -1, 1], [1, 0, -1]]}}
        stats = {"c0": [2, 1], "a": [1, 1, 0], "n0": []}
        fit = {"op": "fit", "frame": frame_of(pool, [0, 1, 2], ytrain), "stats": stats}
        calls = []
        for ln in (1, 2, 3):
            for rows in itertools.product(range(3), repeat=ln):
                rows = list(rows)
                if any(all(c[r] < 0 for r in rows) for c in pool["cat"]["cols"]):
                    continue
                ys = [None, {"t": "float", "v": [q(Fr(7, 2))] * ln}]
                ys += [{"t": "int", "v": list(v)} for v in itertools.product(range(3), repeat=ln)]
                for y in ys:
                    lk = "none" if y is None else ("float" if y["t"] == "float" else
                                                   ("subset" if max(y["v"]) <= 1 else "own"))
                    calls.append({"op": "call", "frame": frame_of(pool, rows, y), "rows": "multiset", "labels": lk})
        for k0 in range(0, len(calls), 12):
            out.append({"task": task, "k": 3 if task == "multiclass" else 2,
                        "steps": [fit, {"op": "keys"}] + calls[k0:k0 + 12]})
    return out


def generate(rng, tier):
    n = 700 if tier == "quick" else 20000
    cases = [gen_case(rng, tier) for _ in range(n)]
    if tier == "thorough":
        cases += exhaustive_small(rng)
    return cases


# ------------------------------------------------------------------ implementation
def build_y(y):
    if y is None:
        return None
    if y["t"] == "float":
        return torch.tensor([float("nan") if v is None else float(fr(v)) for v in y["v"]], dtype=torch.float32)
    return torch.tensor(y["v"], dtype=torch.long)


def build_frame(frame):
    import torch_frame
    from torch_frame import stype
    fd, cd = {}, {}
    if frame["num"] is not None:
        cols = frame["num"]["cols"]
        rows = list(zip(*[[float("nan") if v is None else float(fr(v)) for v in c] for c in cols]))
        fd[stype.numerical] = torch.tensor(rows, dtype=torch.float32).reshape(len(cols[0]), len(cols))
        cd[stype.numerical] = list(frame["num"]["names"])
    if frame["cat"] is not None:
        cols = frame["cat"]["cols"]
        fd[stype.categorical] = torch.tensor(list(zip(*cols)), dtype=torch.long).reshape(len(cols[0]), len(cols))
        cd[stype.categorical] = list(frame["cat"]["names"])
    return torch_frame.TensorFrame(feat_dict=fd, col_names_dict=cd, y=build_y(frame["y"]))


def build_stats(frame, stats):
    from torch_frame.data.stats import StatType
    cs = {}
    for name in (frame["cat"]["names"] if frame["cat"] else []):
        cs[name] = {StatType.COUNT: (list(range(len(stats[name]))), list(stats[name]))}
    for name in (frame["num"]["names"] if frame["num"] else []):
        cs[name] = {StatType.MEAN: 0.0, StatType.STD: 1.0, StatType.QUANTILES: [0.0, 0.25, 0.5, 0.75, 1.0]}
    return cs


def snapshot(tf):
    return dict(fkeys=list(tf.feat_dict.keys()), ckeys=list(tf.col_names_dict.keys()),
                names={str(k): list(v) for k, v in tf.col_names_dict.items()},
                feats={str(k): (v, v.clone()) for k, v in tf.feat_dict.items()},
                y=None if tf.y is None else (tf.y, tf.y.clone()))


def same_snapshot(tf, s):
    if list(tf.feat_dict.keys()) != s["fkeys"] or list(tf.col_names_dict.keys()) != s["ckeys"]:
        return False
    if {str(k): list(v) for k, v in tf.col_names_dict.items()} != s["names"]:
        return False
    for k, v in tf.feat_dict.items():
        obj, val = s["feats"][str(k)]
        if v is not obj or v.shape != val.shape or not torch.equal(torch.nan_to_num(v.double(), nan=-777.0),
                                                                   torch.nan_to_num(val.double(), nan=-777.0)):
            return False
    if (tf.y is None) != (s["y"] is None):
        return False
    if tf.y is not None:
        obj, val = s["y"]
        if tf.y is not obj or not torch.equal(torch.nan_to_num(tf.y.double(), nan=-777.0),
                                              torch.nan_to_num(val.double(), nan=-777.0)):
            return False
    return True


def cell(v):
    v = float(v)
    if v != v:
        return None
    if v in (float("inf"), float("-inf")):
        return "inf"
    return q(Fr(v))


def run(case):
    from torch_frame import stype
    from torch_frame.transforms import CatToNumTransform
    t = CatToNumTransform()
    out = []
    for st in case["steps"]:
        if st["op"] == "fit":
            tf = build_frame(st["frame"])
            cs = build_stats(st["frame"], st["stats"])
            try:
                t.fit(tf, cs)
            except Exception as ex:
                out.append({"ok": False, "exc": C.exc_name(ex)})
                break
            out.append({"ok": True})
        elif st["op"] == "keys":
            try:
                out.append({"ok": True, "keys": [str(k_) for k_ in t.transformed_stats.keys()]})
            except Exception as ex:
                out.append({"ok": False, "exc": C.exc_name(ex)})
        elif st["op"] == "roundtrip":
            sd = t.state_dict()
            if st["how"] == "deepcopy":
                sd = copy.deepcopy(sd)
            elif st["how"] == "torch":
                buf = io.BytesIO()
                torch.save(sd, buf)
                buf.seek(0)
                sd = torch.load(buf, weights_only=False)
            t = CatToNumTransform().load_state_dict(sd)
            out.append({"ok": True})
        else:
            tf = build_frame(st["frame"])
            snap = snapshot(tf)
            try:
                r = t(tf)
            except Exception as ex:
                out.append({"ok": False, "exc": C.exc_name(ex), "src_same": same_snapshot(tf, snap)})
                continue
            rec = {"ok": True, "src_same": same_snapshot(tf, snap), "is_new": r is not tf,
                   "has_cat": stype.categorical in r.feat_dict or stype.categorical in r.col_names_dict,
                   "stypes": sorted(str(s) for s in r.feat_dict.keys())}
            if stype.numerical in r.feat_dict:
                x = r.feat_dict[stype.numerical]
                rec["names"] = [str(n) for n in r.col_names_dict[stype.numerical]]
                rec["cols"] = [[cell(v) for v in x[:, j].tolist()] for j in range(x.shape[1])]
                rec["dtype"] = str(x.dtype)
            else:
                rec["names"], rec["cols"] = [], []
            rec["nrows"] = r.num_rows
            out.append(rec)
    return {"steps": out}


# ------------------------------------------------------------------ reference + oracle
class RefErr(Exception):
    pass


def ref_fit(frame, stats):
    """(n_train, num_classes, priors) by the documented rule, exact."""
    y = frame["y"]
    if y is None:
        raise RefErr("no target")
    n = len(frame["cat"]["cols"][0])
    if y["t"] == "int" and max(y["v"]) > 1:
        k = max(y["v"]) + 1
        prior = [Fr(sum(1 for v in y["v"] if v == c), n) for c in range(k - 1)]
    else:
        vals = [fr(v) if y["t"] == "float" else Fr(v) for v in y["v"] if v is not None]
        if not vals:
            raise RefErr("only nan targets")
        k = 2
        prior = [sum(vals) / len(vals)]
    scale = max([Fr(1)] + [abs(fr(v)) if y["t"] == "float" else Fr(abs(v)) for v in y["v"] if v is not None])
    return dict(n=n, k=k, prior=prior, stats=stats, cat_names=frame["cat"]["names"],
                num_names=frame["num"]["names"] if frame["num"] else [], scale=scale)


def ref_names(fi):
    return fi["num_names"] + [f"{c}_{i}" for c in fi["cat_names"] for i in range(fi["k"] - 1)]


def ref_call(fi, frame):
    cols = [[None if v is None else fr(v) for v in c] for c in (frame["num"]["cols"] if frame["num"] else [])]
    for name, col in zip(frame["cat"]["names"], frame["cat"]["cols"]):
        count = fi["stats"][name]
        for pk in fi["prior"]:
            cols.append([(Fr(count[c if c >= 0 else 0]) + pk) / (fi["n"] + 1) for c in col])
    return ref_names(fi), cols


def case_tol(case):
    """float32 tolerance of the generated cells for this history"""
    fitst = [s for s in case["steps"] if s["op"] == "fit"]
    if not fitst:
        return Fr(1, 10 ** 6)
    f = fitst[0]
    y = f["frame"]["y"]
    ys = [Fr(0)] if y is None else [abs(fr(v)) if y["t"] == "float" else Fr(abs(v)) for v in y["v"] if v is not None]
    mc = max([1] + [c for cs in f["stats"].values() for c in cs])
    n = len(f["frame"]["cat"]["cols"][0])
    return Fr(1, 10 ** 6) * (mc + max(ys + [Fr(0)]) + 1) / (n + 1)


def fail(key, what, **kw):
    d = dict(key=key, what=what)
    d.update(kw)
    return d


def oracle(case, obs):
    if "harness_exc" in obs:
        return fail("harness-exc", "harness failed to run the case: " + obs["harness_exc"], tb=obs.get("tb"))
    tol = case_tol(case)
    fi = None
    task = case["task"]
    for k, (st, o) in enumerate(zip(case["steps"], obs["steps"])):
        if st["op"] == "fit":
            try:
                fi = ref_fit(st["frame"], st["stats"])
            except RefErr:
                return None                     # fitting without usable target: outside the property
            if not o["ok"]:
                return fail(f"fit-raises:{task}", f"fit raised {o.get('exc')} on a valid training frame", observed=o)
        elif st["op"] == "keys":
            if fi is None:
                continue
            if not o["ok"] or o["keys"] != ref_names(fi):
                return fail(f"stats-keys:{task}", "transformed_stats keys are not the output column names "
                            "(numerical columns, then one per categorical column and non-reference class)",
                            expected=ref_names(fi), observed=o)
        elif st["op"] == "roundtrip":
            if not o["ok"]:
                return fail("roundtrip-raises", "state_dict/load_state_dict raised", observed=o)
        else:
            lk = f"{task}:{st.get('labels')}"
            if not o.get("src_same", True):
                return fail(f"source-modified:{task}", f"step {k}: the transform modified the input frame", observed=o)
            if fi is None:
                if o["ok"]:
                    return fail("no-raise:unfitted", f"step {k}: transform used before fit returned a frame",
                                observed=o)
                continue
            if st.get("why") == "unseen":
                if o["ok"]:
                    return fail(f"no-raise:unseen:{task}", f"step {k}: a category index not seen at fit time was "
                                "transformed without a raise", observed=o)
                continue
            if not o["ok"]:
                return fail(f"raises:{lk}", f"step {k}: transform raised {o.get('exc')} on a frame with the fitted "
                            f"schema (labels: {st.get('labels')}, rows: {st.get('rows')})", observed=o)
            names, cols = ref_call(fi, st["frame"])
            if not o["is_new"]:
                return fail(f"not-new:{task}", f"step {k}: the transform returned the input object itself", observed=o)
            if o["has_cat"]:
                return fail(f"cat-left:{task}", f"step {k}: the result still has categorical columns", observed=o)
            if o["names"] != names:
                return fail(f"names:{lk}", f"step {k}: output column names differ from numerical columns ++ "
                            "generated names", expected=names, observed=o["names"])
            if len(o["cols"]) != len(cols) or any(len(a) != len(b) for a, b in zip(o["cols"], cols)):
                return fail(f"width:{lk}", f"step {k}: output block has the wrong shape",
                            expected=[len(cols), len(cols[0])], observed=[len(o["cols"]), o.get("nrows")])
            nn = len(fi["num_names"])
            for j, (a, b) in enumerate(zip(o["cols"], cols)):
                for i, (va, vb) in enumerate(zip(a, b)):
                    if vb is None or va is None or va == "inf":
                        good = va is None and vb is None
                    elif j < nn:
                        good = fr(va) == vb
                    else:
                        good = abs(fr(va) - vb) <= tol
                    if not good:
                        kind = "numerical-changed" if j < nn else "value"
                        return fail(f"{kind}:{lk}", f"step {k}: cell (row {i}, column {names[j]}) is not "
                                    + ("the original numerical cell" if j < nn else
                                       "(count + prior) / (n_train + 1)"),
                                    expected=None if vb is None else str(vb), observed=va)
    if len(obs["steps"]) < len(case["steps"]) and fi is not None:
        return fail("short-run", "history stopped early", observed=obs)
    return None


def shrink(case):
    steps = case["steps"]
    for k in range(len(steps)):
        if steps[k]["op"] != "fit":
            yield dict(case, steps=steps[:k] + steps[k + 1:])
    # drop rows of call frames
    for k, st in enumerate(steps):
        if st["op"] != "call":
            continue
        f = st["frame"]
        n = len(f["cat"]["cols"][0])
        if n <= 1:
            continue
        for r in range(n):
            def cut(b):
                return None if b is None else {"names": b["names"], "cols": [c[:r] + c[r + 1:] for c in b["cols"]]}
            y = f["y"]
            if y is not None:
                y = {"t": y["t"], "v": y["v"][:r] + y["v"][r + 1:]}
            nf = {"num": cut(f["num"]), "cat": cut(f["cat"]), "y": y}
            if any(all(v < 0 for v in c) for c in nf["cat"]["cols"]):
                continue
            yield dict(case, steps=steps[:k] + [dict(st, frame=nf)] + steps[k + 1:])


def nontrivial_sig(case, obs):
    steps = obs.get("steps", [])
    sig, nontriv, rts = [case["task"], case["k"]], False, 0
    for st, o in zip(case["steps"], steps):
        if st["op"] == "fit":
            f = st["frame"]
            sig.append(("fit", len(f["num"]["names"]) if f["num"] else 0, len(f["cat"]["names"]), o["ok"]))
        elif st["op"] == "roundtrip":
            rts += 1
        elif st["op"] == "call":
            miss = any(v < 0 for c in st["frame"]["cat"]["cols"] for v in c)
            sig.append((st.get("rows"), st.get("labels"), miss, o["ok"], len(o.get("names", [])), rts, st.get("why")))
            if not o["ok"] and st.get("why"):
                nontriv = True
            if o["ok"] and (st.get("labels") != "own" or st.get("rows") not in ("all",)):
                nontriv = True
    return json.dumps(sig) if nontriv else None


def stats(cases, obss):
    d = {"total": 0, "task": {}, "ncat": {}, "nnum": {}, "labels": {}, "rows": {}, "calls": 0, "call_errors": 0,
         "unfitted_calls": 0, "unseen_calls": 0, "roundtrips": {}, "fit_errors": 0, "calls_with_missing": 0,
         "history_len": {}}
    for c, o in zip(cases, obss):
        if c is None:
            continue
        d["total"] += 1
        d["task"][c["task"]] = d["task"].get(c["task"], 0) + 1
        d["history_len"][len(c["steps"])] = d["history_len"].get(len(c["steps"]), 0) + 1
        for st, ob in zip(c["steps"], (o or {}).get("steps", [])):
            if st["op"] == "fit":
                f = st["frame"]
                nn = len(f["num"]["names"]) if f["num"] else 0
                d["nnum"][nn] = d["nnum"].get(nn, 0) + 1
                d["ncat"][len(f["cat"]["names"])] = d["ncat"].get(len(f["cat"]["names"]), 0) + 1
                d["fit_errors"] += int(not ob["ok"])
            elif st["op"] == "roundtrip":
                d["roundtrips"][st["how"]] = d["roundtrips"].get(st["how"], 0) + 1
            elif st["op"] == "call":
                d["calls"] += 1
                d["call_errors"] += int(not ob["ok"])
                d["labels"][st["labels"]] = d["labels"].get(st["labels"], 0) + 1
                d["rows"][st["rows"]] = d["rows"].get(st["rows"], 0) + 1
                d["unfitted_calls"] += int(st.get("why") == "unfitted")
                d["unseen_calls"] += int(st.get("why") == "unseen")
                d["calls_with_missing"] += int(any(v < 0 for col in st["frame"]["cat"]["cols"] for v in col))
    return d


# ------------------------------------------------------------------ Coq side
def cq(f):
    f = Fr(f)
    n = f"({f.numerator})%Z" if f.numerator < 0 else f"{f.numerator}%Z"
    return f"(Qmake {n} {f.denominator}%positive)"


def ccell(v):
    return "None" if v is None else f"(Some {cq(fr(v))})"


def coq_block(b, f):
    if b is None:
        return "None"
    return f"(Some (mkblock {C.clist(b['names'], C.cstr)} {C.clist(b['cols'], lambda c: C.clist(c, f))}))"


def coq_target(y):
    if y is None:
        return "None"
    if y["t"] == "float":
        return f"(Some (YFloat {C.clist(y['v'], ccell)}))"
    return f"(Some (YInt {C.clist(y['v'], C.cz)}))"


def coq_frame(f):
    return f"(mkframe {coq_block(f['num'], ccell)} {coq_block(f['cat'], C.cz)} {coq_target(f['y'])})"


def coq_stats(stats):
    return C.clist(list(stats.items()), lambda kv: f"({C.cstr(kv[0])}, {C.clist(kv[1], C.cz)})")


def coq_step(st):
    if st["op"] == "fit":
        return f"SFit {coq_frame(st['frame'])} {coq_stats(st['stats'])}"
    if st["op"] == "call":
        return f"SCall {coq_frame(st['frame'])}"
    if st["op"] == "roundtrip":
        return "SRoundTrip"
    return "SKeys"


def coq_obs(st, o):
    if not o["ok"]:
        return "OErr"
    if st["op"] in ("fit", "roundtrip"):
        return "ODone"
    if st["op"] == "keys":
        return f"OKeys {C.clist(o['keys'], C.cstr)}"
    cols = C.clist(o["cols"], lambda c: C.clist(c, ccell))
    return f"OFrame {C.clist(o['names'], C.cstr)} {cols} {C.cbool(o['has_cat'])}"


def coq_term(case, obs):
    if "steps" not in obs:
        return None
    if any(v == "inf" for o in obs["steps"] for c in o.get("cols", []) for v in c):
        return "false"
    if any(not o.get("src_same", True) or not o.get("is_new", True) for o in obs["steps"]):
        return "false"               # the model's purity assumption (call = forward of an untouched copy) is violated
    n = len(obs["steps"])
    steps = C.clist(case["steps"][:n], coq_step)
    os_ = C.clist(list(zip(case["steps"][:n], obs["steps"])), lambda p: coq_obs(*p))
    return f"history_agrees {cq(case_tol(case))} {steps} {os_}"
