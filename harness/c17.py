"""C17 — fitted cat-to-num transform is pure, label-independent and as documented.

Implementation under test: torch_frame.transforms.CatToNumTransform (fit, __call__/forward, transformed_stats,
state_dict / load_state_dict).  A case is a HISTORY: [call before fit] ; fit ; keys ; (call | round trip)*, where the
frames to transform have the fitted schema and are row subsets of a pool (any rows, single rows, repeated rows),
with label content that is absent / a strict subset of the classes / arbitrary / of another dtype.
A third of the histories keep TWO OR THREE transform instances alive, fitted on different data over the SAME column
names and used interleaved (fit a; call a; save a; fit b; call a on the same frame again; call b; load a's saved
state into a fresh instance; call it): a fitted transform is a value of its own, nothing another instance does may
change what it returns (the oracle compares with the instance's own fit AND with its own earlier output).

oracle: plain-Python reference of the documented estimate with exact Fractions (never looks at the transformed
frame's y, never at other rows); correspondence: coq/Model/CatToNum.v `run_history` on the same history.
"""
from __future__ import annotations

import copy
import io
import json
from fractions import Fraction as Fr

import torch

from harness import common as C

PROP = "C17"
HEADER = "Require Import Coq.QArith.QArith PF.Lib.ListX PF.Model.CatToNum."
MODEL_TARGETS = ["Model/CatToNum.vo"]
SHARD = 45
RULE = ("histories [call-before-fit]; fit; keys; (call | state_dict round trip)* of CatToNumTransform on directly "
        "built TensorFrames, one third of them interleaving 2-3 instances fitted on different data with the same "
        "column names (incl. save before / load after another instance's fit, repeated frames); distinct = distinct (task, #numerical, #categorical, num_classes, per call: rows kind, "
        "label kind, has-missing, ok/err, output width, round trips before it); non-trivial = at least one "
        "successful call on a frame whose labels differ from the training labels (absent, subset of classes, other "
        "dtype, arbitrary) or on a strict row subset, or an expected raise")
TRUSTED = [
    "Coq 8.16.1 kernel + vm_compute (no native_compute)",
    "hand-written model coq/Model/CatToNum.v of cat_to_num_transform.py / fittable_base_transform.py / "
    "base_transform.py, tied to /repo by this run's observational correspondence over whole histories, all transform "
    "instances interleaved on the object-store model (run_store: state_dict = the live attribute dict, "
    "load_state_dict = dict update, slots rebound by round trips into fresh instances)",
    "modelled primitives: torch index_select / tensor[index], broadcasting of [N,K-1] + [K-1], torch.cat(dim=1), "
    "F.one_hot, dict insertion order, TensorFrame.validate; rationals stand for float32 "
    "(generated cells compared with tolerance 1e-6 * (max count + max|y| + 1) / (n_train + 1))",
    "harness/c17.py (generator, Fraction reference, input-frame snapshot, Coq literal printer)",
]
ASSUMPTIONS = [
    "copy.copy(tf) + dict rebinding keeps the caller's frame intact: a pure function in the model; on the real "
    "objects checked by a before/after snapshot of dict keys, name lists, tensors and y on every call",
    "float32 round-off of the estimate is outside the exact model (stated tolerance)",
    "frames to transform are within the property's quantifier: fitted schema, >= 1 row, every categorical column "
    "has a non-missing entry",
    "a raise is demanded only where the statement demands one (use before fitting; unseen category index); where the "
    "current code raises beyond that (fit without target, clashing documented names) a normal return is accepted "
    "if the remaining clauses hold, and the model (which mirrors those raises) is then not compared",
]

# ERROR_PATHS -- every raise / special-case branch / dtype cast / float comparison of the anchored code
# (cat_to_num_transform.py, fittable_base_transform.py, base_transform.py), the generator kind that reaches it and the
# oracle key that notices a change ("corr" = the run_history correspondence with coq/Model/CatToNum.v).
#
#  site                                                     reached by                               noticed by
#  -------------------------------------------------------- ---------------------------------------- ---------------------
#  _fit: tf_train.y is None -> RuntimeError                  malformed fit (2 % of single histories)  corr (OErr)
#  _fit: no categorical columns -> stats unchanged, return   NOT generated (every world has 1-3 categorical columns;
#                                                            modelled branch, reviewer note C17-4)    --
#  _replace_nans: col < 0 is missing; all missing -> raise   missing entries in ~60 % of fits/calls;  value:*, raises:*
#     (also empty frame); fill with 0 = most frequent        all-missing columns are outside the
#                                                            quantifier and never generated
#  _replace_nans: MEAN / ZEROS / unsupported strategy        not reachable from CatToNumTransform     --
#  _fit: not is_floating_point(y) and y.max() > 1            int labels with max 0 / 1 / 2 / 3 / 5 /  width:*, names:*,
#     (multiclass decision, num_classes = max + 1)           10 (num_classes 2,3,4,6,11: sanity);     value:*, stats-keys:*
#                                                            whole-valued FLOAT labels (regression);
#                                                            only-top-class fits
#  _fit: F.one_hot(y, K)[:, :-1].float().mean(0)             multiclass fits (int64)                  value:multiclass:*
#     int32 / int16 / uint8 multiclass labels: one_hot       NOT generated -- clean tree raises RuntimeError; reported
#     accepts LongTensor only                                 as a finding (pending_fixes/C17-C19-int32-class-labels.diff)
#  _fit: target[~isnan]; all nan -> ValueError; mean         regression fits with 1-2 nan targets     value:regression:*
#     over the rest (float cast .float(): float64, int32)    (sanity: fits_with_nan_targets); all-nan
#                                                            is outside the property (ref: RefErr)
#  _fit: torch.tensor(COUNT[1]); index_select(count, feat)   counts of a larger table / extra          value:*, fit-raises:*
#                                                            categories (20 % / 15 %)
#  _fit: (v + target_mean) / (data_size + 1) in float32      n_train 1..9, counts up to ~12           value:* (1e-6 rel.)
#  _fit: name clash -> ValueError                            look-alike numerical names (8 %)          names-not-one-to-one,
#                                                                                                      corr
#  _fit: copy.copy(col_stats[col]) / compute_col_stats       numerical columns 0..2                    stats-keys:*
#  forward: not is_fitted -> ValueError                      call before fit (12 %), unfitted          no-raise:unfitted
#                                                            instance next to fitted ones
#  _forward: no categorical columns -> return tf             NOT generated (see above)                --
#  _forward: width from self.num_classes (repaired)          labels none / subset / zeros / bigint /   raises:*, width:*
#                                                            float / other dtype on the call frame
#  _forward: max_cat >= len(count) -> RuntimeError           unseen index = len(count) + {0,1,2} (6 %) no-raise:unseen
#  _forward: torch.cat(...).to(float32) / no numerical       frames with 0 / 1 / 2 numerical columns   numerical-changed:*,
#     columns -> transformed tensor alone                    (sanity), NaN numerical cells             result-aliased,
#                                                                                                      result-overwritten
#  _forward: pop categorical from the COPY's dicts           every call (input snapshot)               source-modified,
#     (__call__: copy.copy(tf))                                                                        cat-left, not-new
#  validate() of the result                                  every call                                raises:*
#  transformed_stats: None -> ValueError                     keys before fit: not generated            --
#  state_dict (live __dict__) / load_state_dict (update)     direct / deepcopy / torch.save / self /   raises:*, history-
#                                                            self2 / save..load, also into the same    dependent:*, stats-
#                                                            object (sanity)                           keys:*
#  label dtypes: int64 / int32 / float32 / float64           fit: all four (int32 only for max <= 1);  value:*, raises:*
#                                                            call frames: all four (sanity)
# CLAUSES -- raise / rejection demands of the oracle and the words of the property statement that back them.
#   no-raise:unfitted          "Using the transform before fitting ... raises."                              BACKED
#   no-raise:unseen:<task>     "... or on a category index not seen at fit time, raises."                    BACKED
#   (name clash)               the statement demands "its column names and their one-to-one correspondence with the
#                              transformed statistics", NOT a raise: fit may refuse, or accept with distinct names that
#                              are the statistics keys (names-not-one-to-one otherwise).  RELAXED (was no-raise:name-clash)
#   fit without a target, all-nan targets, all-missing columns, empty frames: the current code raises, the statement
#                              is silent -> no oracle demand; the correspondence term is dropped when the implementation
#                              returns normally on a target-less fit; the other three are never generated.  RELAXED
#   raises:* / fit-raises:* / roundtrip-raises are demands NOT to raise on inputs inside the quantifier.
NUM_NAMES = ["n0", "n1", "num_2"]
CAT_NAMES = ["c0", "c1", "cat_2", "a", "a_0x", "k_1"]


# ------------------------------------------------------------------ generator
def q(v):
    v = Fr(v)
    return [v.numerator, v.denominator]


def fr(v):
    return Fr(v[0], v[1])


def gen_labels(rng, task, n, k):
    """training labels; "dt" is the tensor dtype.  Integer labels with max > 1 (multiclass) are int64 only: F.one_hot
    rejects other integer dtypes on the clean tree (reported as a finding, not generated)."""
    if task == "regression":
        if rng.chance(0.15):
            vals = [q(rng.randint(-6, 6)) for _ in range(n)]        # whole-valued float targets
        else:
            vals = [q(Fr(rng.randint(-32, 32), 4)) for _ in range(n)]
        if rng.chance(0.12) and n > 1:
            for i in rng.sample(range(n), rng.randint(1, min(2, n - 1))):
                vals[i] = None
        return {"t": "float", "v": vals, "dt": rng.pick(["float32", "float32", "float64"])}
    if task == "binary":
        vals = [rng.randrange(2) for _ in range(n)]
        if rng.chance(0.25):
            return {"t": "float", "v": [q(v) for v in vals], "dt": rng.pick(["float32", "float64"])}
        return {"t": "int", "v": vals, "dt": rng.pick(["int64", "int64", "int32"])}
    vals = [rng.randrange(k) for _ in range(n)]
    vals[rng.randrange(n)] = k - 1            # the top class is present: num_classes = k
    return {"t": "int", "v": vals, "dt": "int64"}


def other_labels(rng, task, n, k, kind, own):
    """label content of a frame to transform"""
    if kind == "none":
        return None
    if kind == "own":
        return own
    idt = rng.pick(["int64", "int64", "int32"])      # the labels of a frame to transform may be of any dtype
    if kind == "subset":                      # only some of the classes (the frame's max label is <= 1)
        return {"t": "int", "v": [rng.randrange(2) if rng.chance(0.5) else 0 for _ in range(n)], "dt": idt}
    if kind == "zeros":
        return {"t": "int", "v": [0] * n, "dt": idt}
    if kind == "bigint":                      # labels above the fitted classes
        return {"t": "int", "v": [rng.randint(0, 9) for _ in range(n)], "dt": idt}
    if kind == "float":
        return {"t": "float", "v": [q(Fr(rng.randint(-20, 20), 2)) if rng.chance(0.9) else None for _ in range(n)],
                "dt": rng.pick(["float32", "float64"])}
    raise AssertionError(kind)


def frame_of(pool, rows, y):
    def sel(b):
        if b is None:
            return None
        return {"names": b["names"], "cols": [[c[r] for r in rows] for c in b["cols"]]}
    return {"num": sel(pool["num"]), "cat": sel(pool["cat"]), "y": y}


def sel_labels(y, rows):
    return None if y is None else dict(y, v=[y["v"][r] for r in rows])


BOUNDARIES = ["ntrain1", "one_class", "seen_once", "ntrain1+one_cat"]


def make_world(rng, cat_names, num_names, task=None, boundary=None):
    """One data set over the given schema: a pool of rows, its labels, its column statistics, a training prefix.
    boundary: a deliberately hit edge of the quantified dimensions -- a single training row, all training rows of one
    class (binary: all 0 / all 1; multiclass: only the top class; regression: a constant), a category seen once."""
    task = task or rng.pick(["regression", "binary", "multiclass", "multiclass"])
    # num_classes boundaries: 3 is the smallest multiclass problem (max label 2); 6 / 11: integer "regression-like"
    # labels are a multiclass problem to the transform
    k = rng.pick([3, 3, 4, 4, 6, 11]) if task == "multiclass" else 2
    P = rng.randint(3, 9)                     # pool rows; the training frame is a prefix (or all) of the pool
    ntrain = P if rng.chance(0.5) else rng.randint(2, P)
    if boundary and boundary.startswith("ntrain1"):
        ntrain = 1
    stats, cat_cols = {}, []
    for name in cat_names:
        m = rng.randint(1, 4)
        while True:
            raw = [rng.randrange(m) if rng.chance(0.7) else rng.randrange(1 + m // 2) for _ in range(P)]
            raw = [(-1 if rng.chance(0.2) else v) for v in raw]
            if any(v >= 0 for v in raw[:ntrain]):
                break
        # statistics as compute_col_stats would produce them on the pool: categories ordered by decreasing count
        cnt = {}
        for v in raw:
            if v >= 0:
                cnt[v] = cnt.get(v, 0) + 1
        order = sorted(cnt, key=lambda v: (-cnt[v], v))
        relabel = {v: i for i, v in enumerate(order)}
        counts = [cnt[v] for v in order]
        if rng.chance(0.2):
            counts.append(rng.randint(0, counts[-1]))       # a category of the statistics that no pool row carries
        if rng.chance(0.15):
            counts = [c + rng.randint(0, 3) for c in counts]  # statistics of a larger table than the frame
            counts.sort(reverse=True)
        col = [relabel[v] if v >= 0 else -1 for v in raw]
        if boundary == "seen_once" and counts[-1] != 1:
            counts.append(1)                    # a category that occurs exactly once, carried by one pool row
            col[rng.randrange(1, P)] = len(counts) - 1
            if all(v < 0 for v in col[:ntrain]):
                col[0] = 0
        cat_cols.append(col)
        stats[name] = counts
    num_cols = []
    for name in num_names:
        num_cols.append([None if rng.chance(0.1) else q(Fr(rng.randint(-64, 64), 8)) for _ in range(P)])
        stats[name] = []
    pool = {"num": {"names": num_names, "cols": num_cols} if num_names else None,
            "cat": {"names": cat_names, "cols": cat_cols}}
    ypool = gen_labels(rng, task, P, k)
    if task == "multiclass":                   # the top class lies inside the training prefix
        ypool["v"][rng.randrange(ntrain)] = k - 1
    if task == "regression" and all(v is None for v in ypool["v"][:ntrain]):
        ypool["v"][0] = q(1)
    if boundary == "one_class":
        if task == "multiclass":
            const = k - 1
        elif task == "binary":
            const = rng.randrange(2) if ypool["t"] == "int" else q(rng.randrange(2))
        else:
            const = q(Fr(rng.randint(-32, 32), 4))
        for r_ in range(ntrain):
            ypool["v"][r_] = const
    return dict(task=task, k=k, P=P, ntrain=ntrain, pool=pool, ypool=ypool, stats=stats, prev_rows=None,
                boundary=boundary)


LABEL_KINDS = ["none", "own", "subset", "zeros", "bigint", "float"]
# state_dict round trips: into a fresh instance (the live dict / a deep copy / torch.save bytes), or into the SAME
# object, t.load_state_dict(t.state_dict()), once or twice in a row
ROUNDTRIP_KINDS = ["direct", "deepcopy", "torch", "self", "self", "self2"]


def fit_step(rng, w, malformed=False):
    rows = list(range(w["ntrain"]))
    y = None if malformed else sel_labels(w["ypool"], rows)
    return {"op": "fit", "frame": frame_of(w["pool"], rows, y), "stats": w["stats"], "task": w["task"],
            "boundary": w.get("boundary")}


def unfitted_step(rng, w):
    rows = [rng.randrange(w["P"])]
    return {"op": "call", "frame": frame_of(w["pool"], rows, sel_labels(w["ypool"], rows)), "why": "unfitted",
            "rows": "single", "labels": "own"}


def call_step(rng, w, unseen_rate=0.06):
    P, pool = w["P"], w["pool"]
    r = rng.random()
    if w["prev_rows"] is not None and r < 0.2:
        rows, rk = w["prev_rows"], "same"       # same rows, other labels: label independence, directly
    elif w["prev_rows"] is not None and r < 0.38:
        # a frame of the SAME SHAPE as the previous one but other rows: an output buffer reused between calls would
        # overwrite the result the caller still holds
        n = len(w["prev_rows"])
        rows, rk = [rng.randrange(P) for _ in range(n)], "sameshape"
        if rows == w["prev_rows"]:
            rows = rows[1:] + [(rows[0] + 1) % P]
    elif r < 0.45:
        rows, rk = list(range(P)), "all"
    elif r < 0.6:
        rows, rk = [rng.randrange(P)], "single"
    elif r < 0.8:
        rows, rk = sorted(rng.sample(range(P), rng.randint(1, P))), "subset"
    else:
        rows, rk = [rng.randrange(P) for _ in range(rng.randint(1, P + 2))], "multiset"
    # within the quantifier: every categorical column keeps a non-missing entry
    for col in pool["cat"]["cols"]:
        if all(col[r_] < 0 for r_ in rows):
            rows = rows + [rng.pick([i for i in range(P) if col[i] >= 0])]
    if rk == "sameshape" and len(rows) != len(w["prev_rows"]):
        rk = "multiset"
    w["prev_rows"] = rows
    lk = rng.pick(LABEL_KINDS)
    y = other_labels(rng, w["task"], len(rows), w["k"], lk, sel_labels(w["ypool"], rows))
    frame = frame_of(pool, rows, y)
    st = {"op": "call", "frame": frame, "rows": rk, "labels": lk}
    if rng.chance(unseen_rate):                 # a category index not seen at fit time
        names = pool["cat"]["names"]
        ci = rng.randrange(len(names))
        frame["cat"]["cols"][ci] = list(frame["cat"]["cols"][ci])
        frame["cat"]["cols"][ci][rng.randrange(len(rows))] = len(w["stats"][names[ci]]) + rng.randint(0, 2)
        st["why"] = "unseen"
    return st


def gen_schema(rng, lookalike=0.0):
    """column names; at rate `lookalike` one numerical column is named like a generated column, '<cat>_<k>': a clash
    with the output names when k < num_classes - 1 (fit must raise), harmless otherwise"""
    ncat = rng.wpick([(4, 1), (4, 2), (2, 3)])
    nnum = rng.wpick([(3, 0), (3, 1), (2, 2)])
    cats, nums = rng.sample(CAT_NAMES, ncat), rng.sample(NUM_NAMES, nnum)
    if rng.chance(lookalike):
        name = f"{rng.pick(cats)}_{rng.pick([0, 0, 1, 2, 3])}"
        if nums:
            nums[rng.randrange(len(nums))] = name
        else:
            nums = [name]
    return cats, nums


def gen_single(rng):
    """one transform instance: [call before fit]; fit; keys; (call | round trip)*"""
    boundary = rng.pick(BOUNDARIES) if rng.chance(0.25) else None
    cats, nums = gen_schema(rng, lookalike=0.08)
    if boundary == "ntrain1+one_cat":
        cats = cats[:1]                         # exactly one categorical column, one training row
    w = make_world(rng, cats, nums, boundary=boundary)
    steps = []
    if rng.chance(0.12):
        steps.append(unfitted_step(rng, w))
    steps.append(fit_step(rng, w, malformed=rng.chance(0.02)))
    steps.append({"op": "keys"})
    first = None
    for _ in range(rng.randint(2, 5)):
        r = rng.random()
        if r < 0.22:
            steps.append({"op": "roundtrip", "how": rng.pick(ROUNDTRIP_KINDS)})
        elif r < 0.30 and first is not None:
            # s = t.state_dict(); t(frame); t.load_state_dict(s)  -- source and destination are the same object
            steps.append({"op": "save", "how": "direct"})
            steps.append(call_step(rng, w, unseen_rate=0.0))
            steps.append({"op": "load", "into": "self"})
            steps.append(dict(first, rows="repeat"))
            steps.append({"op": "keys"})
        st = call_step(rng, w)
        if boundary and rng.chance(0.5) and st.get("why") is None:
            rows = [rng.randrange(w["P"])]      # single-row frame
            for col in w["pool"]["cat"]["cols"]:
                if col[rows[0]] < 0:
                    rows = None
                    break
            if rows:
                st = {"op": "call", "frame": frame_of(w["pool"], rows, None), "rows": "single", "labels": "none"}
        steps.append(st)
        if first is None and st.get("why") is None:
            first = st
    if rng.chance(0.3):
        steps.append({"op": "keys"})
    return {"task": w["task"], "k": w["k"], "steps": steps}


def gen_multi(rng):
    """Two or three transform INSTANCES alive at once, fitted on DIFFERENT data over the SAME column names and used
    interleaved: a fitted transform is a value of its own -- its outputs may not change when another instance is
    fitted, and its saved state_dict loaded into a fresh instance later must reproduce them."""
    cat_names, num_names = gen_schema(rng)
    n = rng.pick([2, 2, 3])
    ws = [make_world(rng, cat_names, num_names) for _ in range(n)]
    steps, fitted, saved = [], [], set()

    def add(i, st):
        st = dict(st, inst=i)
        steps.append(st)
        return st

    # instance 0: fit, use, remember one call to repeat later, save its state
    add(0, fit_step(rng, ws[0]))
    add(0, {"op": "keys"})
    first = add(0, call_step(rng, ws[0], unseen_rate=0.0))
    if rng.chance(0.7):
        add(0, {"op": "save", "how": rng.pick(["direct", "deepcopy", "torch"])})
        saved.add(0)
    fitted.append(0)
    for i in range(1, n):
        if rng.chance(0.15):
            add(i, unfitted_step(rng, ws[i]))   # instance i is still unfitted although others are fitted
        add(i, fit_step(rng, ws[i]))
        fitted.append(i)
        # the earlier instances again, after the other fit: the very same frame, then fresh ones
        add(0, dict(first, rows="repeat"))
        for _ in range(rng.randint(1, 3)):
            j = rng.pick(fitted)
            r = rng.random()
            if r < 0.2 and j in saved:
                add(j, {"op": "load"})          # fresh instance <- the state_dict saved before the other fits
            elif r < 0.35:
                add(j, {"op": "roundtrip", "how": rng.pick(ROUNDTRIP_KINDS)})
            elif r < 0.45:
                add(j, {"op": "keys"})
            elif r < 0.55 and j not in saved:
                add(j, {"op": "save", "how": rng.pick(["direct", "deepcopy", "torch"])})
                saved.add(j)
                continue
            add(j, call_step(rng, ws[j]))
    if 0 in saved:
        add(0, {"op": "load"})
    add(0, dict(first, rows="repeat"))
    add(rng.pick(fitted), {"op": "keys"})
    return {"task": "multi", "k": max(w["k"] for w in ws), "steps": steps}


def gen_case(rng, tier):
    return gen_multi(rng) if rng.chance(0.35) else gen_single(rng)


def exhaustive_small(rng):
    """Thorough tier: for one fit per task, EVERY index list of length 1..3 over a 3-row pool x EVERY integer label
    content over {0,1,2} (plus absent and float labels) -- the finite small scope of 'any row subset, any label
    content'."""
    import itertools
    out = []
    for task, ytrain in (("regression", {"t": "float", "v": [q(Fr(3, 2)), q(-2), q(Fr(1, 4))]}),
                         ("binary", {"t": "int", "v": [1, 0, 1]}),
                         ("multiclass", {"t": "int", "v": [2, 0, 1]})):
        pool = {"num": {"names": ["n0"], "cols": [[q(1), None, q(Fr(-5, 2))]]},
                "cat": {"names": ["c0", "a"], "cols": [[0, -1, 1], [1, 0, -1]]}}
        stats = {"c0": [2, 1], "a": [1, 1, 0], "n0": []}
        fit = {"op": "fit", "frame": frame_of(pool, [0, 1, 2], ytrain), "stats": stats}
        calls = []
        for ln in (1, 2, 3):
            for rows in itertools.product(range(3), repeat=ln):
                rows = list(rows)
                if any(all(c[r] < 0 for r in rows) for c in pool["cat"]["cols"]):
                    continue
                ys = [None, {"t": "float", "v": [q(Fr(7, 2))] * ln}]
                ys += [{"t": "int", "v": list(v)} for v in itertools.product(range(3), repeat=ln)]
                for y in ys:
                    lk = "none" if y is None else ("float" if y["t"] == "float" else
                                                   ("subset" if max(y["v"]) <= 1 else "own"))
                    calls.append({"op": "call", "frame": frame_of(pool, rows, y), "rows": "multiset", "labels": lk})
        for k0 in range(0, len(calls), 12):
            out.append({"task": task, "k": 3 if task == "multiclass" else 2,
                        "steps": [fit, {"op": "keys"}] + calls[k0:k0 + 12]})
    return out


# The REQUIRED stream: a fixed-seed batch (own constant seed, independent of VERIF_SEED and of the tier) that alone
# covers every kind sanity() requires; it is prepended in both tiers, the run's seed only drives the additional
# random stream.  sanity() evaluates its "kind drawn" requirements on this stream.
REQUIRED_SEED = 170017
REQUIRED_N = 200
_REQUIRED = None


def required_stream():
    global _REQUIRED
    if _REQUIRED is None:
        r = C.Rng(REQUIRED_SEED)
        _REQUIRED = [dict(gen_case(r, "quick"), req=True) for _ in range(REQUIRED_N)]
    return [dict(c) for c in _REQUIRED]


def generate(rng, tier):
    n = 320 if tier == "quick" else 20000
    cases = required_stream() + [gen_case(rng, tier) for _ in range(n)]
    if tier == "thorough":
        cases += exhaustive_small(rng)
    return cases


# ------------------------------------------------------------------ implementation
def build_y(y):
    if y is None:
        return None
    if y["t"] == "float":
        return torch.tensor([float("nan") if v is None else float(fr(v)) for v in y["v"]],
                            dtype=getattr(torch, y.get("dt", "float32")))
    return torch.tensor(y["v"], dtype=getattr(torch, y.get("dt", "int64")))


def build_frame(frame):
    import torch_frame
    from torch_frame import stype
    fd, cd = {}, {}
    if frame["num"] is not None:
        cols = frame["num"]["cols"]
        rows = list(zip(*[[float("nan") if v is None else float(fr(v)) for v in c] for c in cols]))
        fd[stype.numerical] = torch.tensor(rows, dtype=torch.float32).reshape(len(cols[0]), len(cols))
        cd[stype.numerical] = list(frame["num"]["names"])
    if frame["cat"] is not None:
        cols = frame["cat"]["cols"]
        fd[stype.categorical] = torch.tensor(list(zip(*cols)), dtype=torch.long).reshape(len(cols[0]), len(cols))
        cd[stype.categorical] = list(frame["cat"]["names"])
    return torch_frame.TensorFrame(feat_dict=fd, col_names_dict=cd, y=build_y(frame["y"]))


def build_stats(frame, stats):
    from torch_frame.data.stats import StatType
    cs = {}
    for name in (frame["cat"]["names"] if frame["cat"] else []):
        cs[name] = {StatType.COUNT: (list(range(len(stats[name]))), list(stats[name]))}
    for name in (frame["num"]["names"] if frame["num"] else []):
        cs[name] = {StatType.MEAN: 0.0, StatType.STD: 1.0, StatType.QUANTILES: [0.0, 0.25, 0.5, 0.75, 1.0]}
    return cs


def snapshot(tf):
    return dict(fkeys=list(tf.feat_dict.keys()), ckeys=list(tf.col_names_dict.keys()),
                names={str(k): list(v) for k, v in tf.col_names_dict.items()},
                feats={str(k): (v, v.clone()) for k, v in tf.feat_dict.items()},
                y=None if tf.y is None else (tf.y, tf.y.clone()))


def same_snapshot(tf, s):
    if list(tf.feat_dict.keys()) != s["fkeys"] or list(tf.col_names_dict.keys()) != s["ckeys"]:
        return False
    if {str(k): list(v) for k, v in tf.col_names_dict.items()} != s["names"]:
        return False
    for k, v in tf.feat_dict.items():
        obj, val = s["feats"][str(k)]
        if v is not obj or v.shape != val.shape or not torch.equal(torch.nan_to_num(v.double(), nan=-777.0),
                                                                   torch.nan_to_num(val.double(), nan=-777.0)):
            return False
    if (tf.y is None) != (s["y"] is None):
        return False
    if tf.y is not None:
        obj, val = s["y"]
        if tf.y is not obj or not torch.equal(torch.nan_to_num(tf.y.double(), nan=-777.0),
                                              torch.nan_to_num(val.double(), nan=-777.0)):
            return False
    return True


def cell(v):
    v = float(v)
    if v != v:
        return None
    if v in (float("inf"), float("-inf")):
        return "inf"
    return q(Fr(v))


def dump_state(t, how):
    sd = t.state_dict()
    if how == "deepcopy":
        return copy.deepcopy(sd)
    if how == "torch":
        buf = io.BytesIO()
        torch.save(sd, buf)
        return buf.getvalue()
    return sd


def load_state(blob):
    from torch_frame.transforms import CatToNumTransform
    if isinstance(blob, bytes):
        blob = torch.load(io.BytesIO(blob), weights_only=False)
    return CatToNumTransform().load_state_dict(blob)


def run(case):
    from torch_frame import stype
    from torch_frame.transforms import CatToNumTransform
    ts, saved = {}, {}
    out = []
    held = []          # results of earlier calls the "caller" still holds: (step, numerical tensor, recorded cells)

    def read_cols(x):
        return [[cell(v) for v in x[:, j].tolist()] for j in range(x.shape[1])]

    def clobbered():
        return [k0 for k0, x0, cols0 in held if tuple(x0.shape) != (len(cols0[0]), len(cols0))
                or read_cols(x0) != cols0]

    def storage(x):
        return x.untyped_storage().data_ptr() if x.numel() else None

    for step_idx, st in enumerate(case["steps"]):
        i = st.get("inst", 0)
        if i not in ts:
            ts[i] = CatToNumTransform()
        t = ts[i]
        if st["op"] == "fit":
            tf = build_frame(st["frame"])
            cs = build_stats(st["frame"], st["stats"])
            try:
                t.fit(tf, cs)
            except Exception as ex:
                out.append({"ok": False, "exc": C.exc_name(ex)})
                break
            out.append({"ok": True})
        elif st["op"] == "keys":
            try:
                out.append({"ok": True, "keys": [str(k_) for k_ in t.transformed_stats.keys()]})
            except Exception as ex:
                out.append({"ok": False, "exc": C.exc_name(ex)})
        elif st["op"] == "roundtrip":
            try:
                if st["how"] in ("self", "self2"):
                    for _ in range(2 if st["how"] == "self2" else 1):
                        t.load_state_dict(t.state_dict())      # source and destination are the same object
                else:
                    ts[i] = load_state(dump_state(t, st["how"]))
                out.append({"ok": True})
            except Exception as ex:
                out.append({"ok": False, "exc": C.exc_name(ex)})
        elif st["op"] == "save":
            try:
                saved[i] = dump_state(t, st["how"])
                out.append({"ok": True})
            except Exception as ex:
                out.append({"ok": False, "exc": C.exc_name(ex)})
        elif st["op"] == "load":
            try:
                if st.get("into") == "self":
                    blob = saved[i]
                    if isinstance(blob, bytes):
                        blob = torch.load(io.BytesIO(blob), weights_only=False)
                    t.load_state_dict(blob)                    # into the object the state was taken from
                else:
                    ts[i] = load_state(saved[i])
                out.append({"ok": True})
            except Exception as ex:
                out.append({"ok": False, "exc": C.exc_name(ex)})
        else:
            tf = build_frame(st["frame"])
            snap = snapshot(tf)
            try:
                r = t(tf)
            except Exception as ex:
                out.append({"ok": False, "exc": C.exc_name(ex), "src_same": same_snapshot(tf, snap),
                            "clobbered": clobbered()})
                continue
            rec = {"ok": True, "src_same": same_snapshot(tf, snap), "is_new": r is not tf,
                   "has_cat": stype.categorical in r.feat_dict or stype.categorical in r.col_names_dict,
                   "stypes": sorted(str(s) for s in r.feat_dict.keys())}
            if stype.numerical in r.feat_dict:
                x = r.feat_dict[stype.numerical]
                rec["names"] = [str(n) for n in r.col_names_dict[stype.numerical]]
                rec["cols"] = read_cols(x)
                rec["dtype"] = str(x.dtype)
                # results of EARLIER calls are values the caller owns: this call may neither change them nor return
                # a tensor that shares storage with one of them or with the input
                rec["clobbered"] = clobbered()
                rec["aliases"] = [k0 for k0, x0, _ in held if storage(x0) is not None and storage(x0) == storage(x)]
                rec["aliases_input"] = any(storage(v) is not None and storage(v) == storage(x)
                                           for v in tf.feat_dict.values())
                if x.shape[1] > 0 and x.shape[0] > 0:
                    held.append((step_idx, x, rec["cols"]))
            else:
                rec["names"], rec["cols"] = [], []
            rec["nrows"] = r.num_rows
            # the labels are passed through untouched
            if tf.y is None or r.y is None:
                rec["y_same"] = tf.y is None and r.y is None
            else:
                rec["y_same"] = bool(r.y.dtype == tf.y.dtype and r.y.shape == tf.y.shape and torch.equal(
                    torch.nan_to_num(r.y.double(), nan=-777.0), torch.nan_to_num(tf.y.double(), nan=-777.0)))
            out.append(rec)
    return {"steps": out}


# ------------------------------------------------------------------ reference + oracle
class RefErr(Exception):
    pass


class RefClash(Exception):
    pass


def ref_fit(frame, stats, allow_clash=False):
    """(n_train, num_classes, priors) by the documented rule, exact."""
    y = frame["y"]
    if y is None:
        raise RefErr("no target")
    n = len(frame["cat"]["cols"][0])
    if y["t"] == "int" and max(y["v"]) > 1:
        k = max(y["v"]) + 1
        prior = [Fr(sum(1 for v in y["v"] if v == c), n) for c in range(k - 1)]
    else:
        vals = [fr(v) if y["t"] == "float" else Fr(v) for v in y["v"] if v is not None]
        if not vals:
            raise RefErr("only nan targets")
        k = 2
        prior = [sum(vals) / len(vals)]
    scale = max([Fr(1)] + [abs(fr(v)) if y["t"] == "float" else Fr(abs(v)) for v in y["v"] if v is not None])
    fi = dict(n=n, k=k, prior=prior, stats=stats, cat_names=frame["cat"]["names"],
              num_names=frame["num"]["names"] if frame["num"] else [], scale=scale)
    names = ref_names(fi)
    if len(set(names)) != len(names):
        if not allow_clash:
            raise RefClash(names)  # with the documented names, names <-> statistics cannot be one-to-one
        fi["free_names"] = True
    return fi


def ref_names(fi):
    return fi["num_names"] + [f"{c}_{i}" for c in fi["cat_names"] for i in range(fi["k"] - 1)]


def ref_call(fi, frame):
    cols = [[None if v is None else fr(v) for v in c] for c in (frame["num"]["cols"] if frame["num"] else [])]
    for name, col in zip(frame["cat"]["names"], frame["cat"]["cols"]):
        count = fi["stats"][name]
        for pk in fi["prior"]:
            cols.append([(Fr(count[c if c >= 0 else 0]) + pk) / (fi["n"] + 1) for c in col])
    return ref_names(fi), cols


def fit_tol(f):
    """float32 tolerance of the cells generated by a transform fitted with this fit step"""
    y = f["frame"]["y"]
    ys = [Fr(0)] if y is None else [abs(fr(v)) if y["t"] == "float" else Fr(abs(v)) for v in y["v"] if v is not None]
    mc = max([1] + [c for cs in f["stats"].values() for c in cs])
    n = len(f["frame"]["cat"]["cols"][0])
    return Fr(1, 10 ** 6) * (mc + max(ys + [Fr(0)]) + 1) / (n + 1)


def inst_tol(case, inst):
    fitst = [s for s in case["steps"] if s["op"] == "fit" and s.get("inst", 0) == inst]
    return fit_tol(fitst[0]) if fitst else Fr(1, 10 ** 6)


def fail(key, what, **kw):
    d = dict(key=key, what=what)
    d.update(kw)
    return d


def same_cells(a, b, tol):
    if len(a) != len(b) or any(len(x) != len(y) for x, y in zip(a, b)):
        return False
    for x, y in zip(a, b):
        for va, vb in zip(x, y):
            if va is None or vb is None or va == "inf" or vb == "inf":
                if va != vb:
                    return False
            elif abs(fr(va) - fr(vb)) > tol:
                return False
    return True


def oracle(case, obs):
    if "harness_exc" in obs:
        return fail("harness-exc", "harness failed to run the case: " + obs["harness_exc"], tb=obs.get("tb"))
    fis, tasks, tols, seen = {}, {}, {}, {}
    others_fitted = {}             # inst -> number of fits of OTHER instances since this instance was fitted
    for k, (st, o) in enumerate(zip(case["steps"], obs["steps"])):
        inst = st.get("inst", 0)
        fi = fis.get(inst)
        task = tasks.get(inst, case["task"])
        if st["op"] == "fit":
            task = tasks[inst] = st.get("task", case["task"])
            try:
                fis[inst] = ref_fit(st["frame"], st["stats"])
            except RefErr:
                return None                     # fitting without usable target: outside the property
            except RefClash:
                # The statement demands the one-to-one correspondence names <-> transformed statistics, not a raise:
                # refusing is fine (the history ends); accepting is fine too as long as the names the transform then
                # uses are duplicate-free and ARE the statistics keys (checked below, key names-not-one-to-one).
                if not o["ok"]:
                    return None
                fis[inst] = ref_fit(st["frame"], st["stats"], allow_clash=True)
            tols[inst] = fit_tol(st)
            for j in others_fitted:
                others_fitted[j] += 1
            others_fitted[inst] = 0
            seen = {kk: v for kk, v in seen.items() if kk[0] != inst}
            if not o["ok"]:
                return fail(f"fit-raises:{task}", f"fit raised {o.get('exc')} on a valid training frame", observed=o)
        elif st["op"] == "keys":
            if fi is None:
                continue
            if fi.get("free_names"):
                if not o["ok"] or len(set(o["keys"])) != len(o["keys"]) or len(o["keys"]) != len(ref_names(fi)):
                    return fail(f"names-not-one-to-one:{task}", "the documented output names clash and fit accepted "
                                "them, but the transformed statistics do not have one distinct key per output column",
                                expected=f"{len(ref_names(fi))} distinct keys", observed=o)
                fi["keys_seen"] = o["keys"]
            elif not o["ok"] or o["keys"] != ref_names(fi):
                return fail(f"stats-keys:{task}", "transformed_stats keys are not the output column names "
                            "(numerical columns, then one per categorical column and non-reference class)",
                            expected=ref_names(fi), observed=o)
        elif st["op"] in ("roundtrip", "save", "load"):
            if not o["ok"]:
                return fail("roundtrip-raises", f"state_dict/load_state_dict ({st['op']}) raised", observed=o)
        else:
            lk = f"{task}:{st.get('labels')}"
            tol = tols.get(inst, Fr(1, 10 ** 6))
            if not o.get("src_same", True):
                return fail(f"source-modified:{task}", f"step {k}: the transform modified the input frame", observed=o)
            if o.get("clobbered"):
                return fail(f"result-overwritten:{task}", f"step {k}: this call changed the result returned at step "
                            f"{o['clobbered'][0]}, which the caller still holds (rows: {st.get('rows')}, numerical "
                            f"columns: {len(st['frame']['num']['names']) if st['frame']['num'] else 0})",
                            observed=o.get("cols"))
            if o.get("aliases") or o.get("aliases_input"):
                return fail(f"result-aliased:{task}", f"step {k}: the returned numerical tensor shares storage with "
                            + (f"the result of step {o['aliases'][0]}" if o.get("aliases") else "an input tensor"),
                            observed=dict(aliases=o.get("aliases"), aliases_input=o.get("aliases_input")))
            if fi is None:
                if o["ok"]:
                    return fail("no-raise:unfitted", f"step {k}: transform used before fit returned a frame",
                                observed=o)
                continue
            # a fitted transform is a value: the same instance on the same frame returns what it returned before,
            # whatever happened to OTHER instances (fits, round trips) in between
            fk = (inst, json.dumps(st["frame"], sort_keys=True))
            if fk in seen:
                k0, o0 = seen[fk]
                if o0["ok"] != o["ok"] or (o["ok"] and (o0["names"] != o["names"]
                                                        or not same_cells(o0["cols"], o["cols"], tol))):
                    why = ("another instance was fitted in between" if others_fitted.get(inst) else
                           "only calls / state_dict round trips of this instance in between")
                    return fail(f"history-dependent:{task}", f"step {k}: instance {inst} returned a different result "
                                f"for the very frame of step {k0} ({why})", expected=o0, observed=o)
            else:
                seen[fk] = (k, o)
            if st.get("why") == "unseen":
                if o["ok"]:
                    return fail(f"no-raise:unseen:{task}", f"step {k}: a category index not seen at fit time was "
                                "transformed without a raise", observed=o)
                continue
            if not o["ok"]:
                return fail(f"raises:{lk}", f"step {k}: transform raised {o.get('exc')} on a frame with the fitted "
                            f"schema (labels: {st.get('labels')}, rows: {st.get('rows')})", observed=o)
            names, cols = ref_call(fi, st["frame"])
            if not o["is_new"]:
                return fail(f"not-new:{task}", f"step {k}: the transform returned the input object itself", observed=o)
            if o["has_cat"]:
                return fail(f"cat-left:{task}", f"step {k}: the result still has categorical columns", observed=o)
            if not o.get("y_same", True):
                return fail(f"y-changed:{task}", f"step {k}: the labels of the result are not the labels of the input "
                            "frame", observed=o)
            if fi.get("free_names"):
                if (len(set(o["names"])) != len(o["names"]) or len(o["names"]) != len(names)
                        or o["names"] != fi.get("keys_seen", o["names"])):
                    return fail(f"names-not-one-to-one:{task}", f"step {k}: the output column names are not distinct / "
                                "not the transformed-statistics keys", expected=fi.get("keys_seen"), observed=o["names"])
                names = o["names"]
            elif o["names"] != names:
                return fail(f"names:{lk}", f"step {k}: output column names differ from numerical columns ++ "
                            "generated names", expected=names, observed=o["names"])
            if len(o["cols"]) != len(cols) or any(len(a) != len(b) for a, b in zip(o["cols"], cols)):
                return fail(f"width:{lk}", f"step {k}: output block has the wrong shape",
                            expected=[len(cols), len(cols[0])], observed=[len(o["cols"]), o.get("nrows")])
            nn = len(fi["num_names"])
            for j, (a, b) in enumerate(zip(o["cols"], cols)):
                for i, (va, vb) in enumerate(zip(a, b)):
                    if vb is None or va is None or va == "inf":
                        good = va is None and vb is None
                    elif j < nn:
                        good = fr(va) == vb
                    else:
                        good = abs(fr(va) - vb) <= tol
                    if not good:
                        kind = "numerical-changed" if j < nn else "value"
                        return fail(f"{kind}:{lk}", f"step {k}: cell (row {i}, column {names[j]}) of instance {inst} "
                                    "is not " + ("the original numerical cell" if j < nn else
                                                 "(count + prior) / (n_train + 1) of ITS OWN fit"),
                                    expected=None if vb is None else str(vb), observed=va)
    if len(obs["steps"]) < len(case["steps"]) and fis:
        return fail("short-run", "history stopped early", observed=obs)
    return None


def shrink(case):
    steps = case["steps"]
    insts = sorted({s_.get("inst", 0) for s_ in steps})
    if len(insts) > 1:
        for i in insts:                          # drop a whole instance
            yield dict(case, steps=[s_ for s_ in steps if s_.get("inst", 0) != i])
    for k in range(len(steps)):
        if steps[k]["op"] == "fit":
            continue
        if steps[k]["op"] == "save" and any(s_["op"] == "load" and s_.get("inst", 0) == steps[k].get("inst", 0)
                                            for s_ in steps[k:]):
            continue
        yield dict(case, steps=steps[:k] + steps[k + 1:])
    # drop rows of call frames
    for k, st in enumerate(steps):
        if st["op"] != "call":
            continue
        f = st["frame"]
        n = len(f["cat"]["cols"][0])
        if n <= 1:
            continue
        for r in range(n):
            def cut(b):
                return None if b is None else {"names": b["names"], "cols": [c[:r] + c[r + 1:] for c in b["cols"]]}
            y = f["y"]
            if y is not None:
                y = dict(y, v=y["v"][:r] + y["v"][r + 1:])
            nf = {"num": cut(f["num"]), "cat": cut(f["cat"]), "y": y}
            if any(all(v < 0 for v in c) for c in nf["cat"]["cols"]):
                continue
            yield dict(case, steps=steps[:k] + [dict(st, frame=nf)] + steps[k + 1:])


def nontrivial_sig(case, obs):
    steps = obs.get("steps", [])
    sig, nontriv, rts = [case["task"], case["k"]], False, 0
    fitted = set()
    for st, o in zip(case["steps"], steps):
        inst = st.get("inst", 0)
        if st["op"] == "fit":
            f = st["frame"]
            sig.append(("fit", inst, st.get("task"), len(f["num"]["names"]) if f["num"] else 0,
                        len(f["cat"]["names"]), o["ok"]))
            fitted.add(inst)
        elif st["op"] in ("roundtrip", "load"):
            rts += 1
            sig.append((st["op"], inst))
        elif st["op"] == "call":
            miss = any(v < 0 for c in st["frame"]["cat"]["cols"] for v in c)
            sig.append((inst, len(fitted), st.get("rows"), st.get("labels"), miss, o["ok"], len(o.get("names", [])),
                        rts, st.get("why")))
            if not o["ok"] and st.get("why"):
                nontriv = True
            if o["ok"] and (st.get("labels") != "own" or st.get("rows") not in ("all",)):
                nontriv = True
    return json.dumps(sig) if nontriv else None


def stats(cases, obss):
    d = {"total": 0, "task": {}, "ncat": {}, "nnum": {}, "labels": {}, "rows": {}, "calls": 0, "call_errors": 0,
         "unfitted_calls": 0, "unseen_calls": 0, "roundtrips": {}, "fit_errors": 0, "calls_with_missing": 0,
         "history_len": {}, "instances": {}, "calls_after_another_instance_was_fitted": 0,
         "repeated_frame_calls": 0, "loads_of_saved_state": 0, "name_clash_fits": 0,
         "lookalike_names_without_clash": 0, "same_shape_other_data_after_call": 0,
         "same_shape_other_data_without_numerical": 0, "loads_into_the_same_object": 0,
         "fits_with_one_training_row": 0, "fits_with_one_categorical_column_and_one_row": 0,
         "fits_with_a_single_label_value": 0, "fits_multiclass_with_only_the_top_class": 0,
         "fits_with_a_category_seen_once": 0, "fits_with_missing_training_entries": 0,
         "calls_on_a_category_seen_once": 0, "label_dtypes": {}, "num_classes": {},
         "fits_with_nan_targets": 0, "fits_with_whole_valued_float_targets": 0}
    for c, o in zip(cases, obss):
        if c is None:
            continue
        d["total"] += 1
        d["task"][c["task"]] = d["task"].get(c["task"], 0) + 1
        d["history_len"][len(c["steps"])] = d["history_len"].get(len(c["steps"]), 0) + 1
        ni = len({s_.get("inst", 0) for s_ in c["steps"]})
        d["instances"][ni] = d["instances"].get(ni, 0) + 1
        fit_order = []
        last_shape = {}
        cur_stats = {}
        for st, ob in zip(c["steps"], (o or {}).get("steps", [])):
            inst = st.get("inst", 0)
            if st["op"] == "fit":
                f = st["frame"]
                nn = len(f["num"]["names"]) if f["num"] else 0
                d["nnum"][nn] = d["nnum"].get(nn, 0) + 1
                d["ncat"][len(f["cat"]["names"])] = d["ncat"].get(len(f["cat"]["names"]), 0) + 1
                d["fit_errors"] += int(not ob["ok"])
                fit_order.append(inst)
                cur_stats[inst] = st["stats"]
                if f["y"] is not None:
                    dtk = "fit:" + f["y"].get("dt", "?")
                    d["label_dtypes"][dtk] = d["label_dtypes"].get(dtk, 0) + 1
                    if f["y"]["t"] == "int" and max(f["y"]["v"]) > 1:
                        kk = max(f["y"]["v"]) + 1
                        d["num_classes"][kk] = d["num_classes"].get(kk, 0) + 1
                    elif f["y"]["t"] == "int":
                        d["num_classes"][2] = d["num_classes"].get(2, 0) + 1
                    d["fits_with_nan_targets"] += int(any(v is None for v in f["y"]["v"]))
                    d["fits_with_whole_valued_float_targets"] += int(
                        f["y"]["t"] == "float" and all(v is None or v[1] == 1 for v in f["y"]["v"]))
                ntr = len(f["cat"]["cols"][0])
                d["fits_with_one_training_row"] += int(ntr == 1)
                d["fits_with_one_categorical_column_and_one_row"] += int(ntr == 1 and len(f["cat"]["names"]) == 1)
                if f["y"] is not None:
                    d["fits_with_a_single_label_value"] += int(ntr > 1 and len({json.dumps(v) for v in f["y"]["v"]}) == 1)
                    d["fits_multiclass_with_only_the_top_class"] += int(
                        f["y"]["t"] == "int" and len(set(f["y"]["v"])) == 1 and f["y"]["v"][0] > 1)
                d["fits_with_a_category_seen_once"] += int(any(1 in cs_ for cs_ in st["stats"].values()))
                d["fits_with_missing_training_entries"] += int(any(v < 0 for c_ in f["cat"]["cols"] for v in c_))
                gen = {f"{cn}_{i}" for cn in f["cat"]["names"] for i in range(4)}
                look = [nm for nm in (f["num"]["names"] if f["num"] else []) if nm in gen]
                if look:
                    try:
                        ref_fit(f, st["stats"])
                        d["lookalike_names_without_clash"] += 1
                    except RefClash:
                        d["name_clash_fits"] += 1
                    except RefErr:
                        pass
            elif st["op"] in ("roundtrip", "save"):
                d["roundtrips"][st["how"]] = d["roundtrips"].get(st["how"], 0) + 1
            elif st["op"] == "load":
                d["loads_of_saved_state"] += 1
                d["loads_into_the_same_object"] += int(st.get("into") == "self")
            elif st["op"] == "call":
                d["calls"] += 1
                d["call_errors"] += int(not ob["ok"])
                if st["frame"]["y"] is not None:
                    dtk = "call:" + st["frame"]["y"].get("dt", "?")
                    d["label_dtypes"][dtk] = d["label_dtypes"].get(dtk, 0) + 1
                d["labels"][st["labels"]] = d["labels"].get(st["labels"], 0) + 1
                d["rows"][st["rows"]] = d["rows"].get(st["rows"], 0) + 1
                d["unfitted_calls"] += int(st.get("why") == "unfitted")
                d["unseen_calls"] += int(st.get("why") == "unseen")
                d["calls_with_missing"] += int(any(v < 0 for col in st["frame"]["cat"]["cols"] for v in col))
                d["calls_after_another_instance_was_fitted"] += int(inst in fit_order and fit_order[-1] != inst)
                d["repeated_frame_calls"] += int(st.get("rows") == "repeat")
                if cur_stats.get(inst):
                    d["calls_on_a_category_seen_once"] += int(any(
                        0 <= v < len(cur_stats[inst][nm]) and cur_stats[inst][nm][v] == 1
                        for nm, col in zip(st["frame"]["cat"]["names"], st["frame"]["cat"]["cols"]) for v in col))
                shape = (inst, len(st["frame"]["cat"]["cols"][0]), st["frame"]["num"] is None)
                if ob["ok"] and last_shape.get(inst) == shape and st.get("rows") not in ("same", "repeat"):
                    d["same_shape_other_data_after_call"] += 1
                    d["same_shape_other_data_without_numerical"] += int(st["frame"]["num"] is None)
                if ob["ok"]:
                    last_shape[inst] = shape
    return d


# ------------------------------------------------------------------ Coq side
def cq(f):
    f = Fr(f)
    n = f"({f.numerator})%Z" if f.numerator < 0 else f"{f.numerator}%Z"
    return f"(Qmake {n} {f.denominator}%positive)"


def ccell(v):
    return "None" if v is None else f"(Some {cq(fr(v))})"


def coq_block(b, f):
    if b is None:
        return "None"
    return f"(Some (mkblock {C.clist(b['names'], C.cstr)} {C.clist(b['cols'], lambda c: C.clist(c, f))}))"


def coq_target(y):
    if y is None:
        return "None"
    if y["t"] == "float":
        return f"(Some (YFloat {C.clist(y['v'], ccell)}))"
    return f"(Some (YInt {C.clist(y['v'], C.cz)}))"


def coq_frame(f):
    return f"(mkframe {coq_block(f['num'], ccell)} {coq_block(f['cat'], C.cz)} {coq_target(f['y'])})"


def coq_stats(stats):
    return C.clist(list(stats.items()), lambda kv: f"({C.cstr(kv[0])}, {C.clist(kv[1], C.cz)})")


def coq_step(st):
    if st["op"] == "fit":
        return f"SFit {coq_frame(st['frame'])} {coq_stats(st['stats'])}"
    if st["op"] == "call":
        return f"SCall {coq_frame(st['frame'])}"
    if st["op"] in ("roundtrip", "load"):
        return "SRoundTrip"       # a fresh instance with the (saved) state: the identity on the model's values
    return "SKeys"


def coq_mstep(st):
    i = C.cnat(st.get("inst", 0))
    if st["op"] == "fit":
        return f"MFit {i} {coq_frame(st['frame'])} {coq_stats(st['stats'])}"
    if st["op"] == "call":
        return f"MCall {i} {coq_frame(st['frame'])}"
    if st["op"] == "keys":
        return f"MKeys {i}"
    if st["op"] == "roundtrip":
        kind = {"direct": "(RtFresh false)", "deepcopy": "(RtFresh true)", "torch": "(RtFresh true)",
                "self": "RtSelf", "self2": "RtSelf2"}[st["how"]]
        return f"MRound {i} {kind}"
    if st["op"] == "save":
        return f"MSave {i} {C.cbool(st['how'] != 'direct')}"
    if st["op"] == "load":
        return f"MLoad {i} {C.cbool(st.get('into') == 'self')}"
    raise AssertionError(st["op"])


def coq_obs(st, o):
    if not o["ok"]:
        return "OErr"
    if st["op"] in ("fit", "roundtrip", "load", "save"):
        return "ODone"
    if st["op"] == "keys":
        return f"OKeys {C.clist(o['keys'], C.cstr)}"
    cols = C.clist(o["cols"], lambda c: C.clist(c, ccell))
    return f"OFrame {C.clist(o['names'], C.cstr)} {cols} {C.cbool(o['has_cat'])}"


def coq_term(case, obs):
    """In the model transform instances are independent values, so a history over several instances is the
    conjunction of the per-instance histories (a saved state is loaded only while its instance is not re-fitted:
    load = round trip)."""
    if "steps" not in obs:
        return None
    if any(v == "inf" for o in obs["steps"] for c in o.get("cols", []) for v in c):
        return "false"
    if any(not o.get("src_same", True) or not o.get("is_new", True) or not o.get("y_same", True)
           or o.get("clobbered") or o.get("aliases") or o.get("aliases_input") for o in obs["steps"]):
        return "false"               # the model's purity assumption (call = forward of an untouched copy) is violated
    if any(st["op"] in ("save", "load", "roundtrip") and not o["ok"] for st, o in zip(case["steps"], obs["steps"])):
        return "false"
    pairs = list(zip(case["steps"], obs["steps"]))
    for st, o in pairs:
        if st["op"] == "fit" and o["ok"]:
            # the model mirrors two raises of the current code that the statement does not demand (fit without a
            # target; clashing documented names): where the implementation returned normally there is nothing to
            # compare the model with
            if st["frame"]["y"] is None:
                return None
            try:
                ref_fit(st["frame"], st["stats"])
            except RefClash:
                return None
            except RefErr:
                return None
    # the whole history, all instances interleaved, on the object-store model (state_dict = the LIVE dict of the object,
    # load_state_dict = update): run_store of coq/Model/CatToNum.v
    tol = max(inst_tol(case, inst) for inst in {st.get("inst", 0) for st, _ in pairs})
    steps = C.clist([st for st, _ in pairs], coq_mstep)
    os_ = C.clist(pairs, lambda p_: coq_obs(*p_))
    return f"store_history_agrees {cq(tol)} {steps} {os_}"


def sanity(cases, obss):
    """Fail-closed distribution check: a run whose inputs degenerate must not report green.  Every "kind drawn"
    requirement is evaluated on the REQUIRED (fixed-seed) stream, so that it does not depend on the run's seed; the
    two ratio bounds are additionally evaluated over the whole run."""
    req = [(c, o) for c, o in zip(cases, obss) if c is not None and c.get("req")]
    if len(req) < REQUIRED_N:
        return [f"only {len(req)} of the {REQUIRED_N} cases of the required stream were run"]
    whole = stats(cases, obss)
    d = stats([c for c, _ in req], [o for _, o in req])
    probs = []
    if whole["calls"] and whole["call_errors"] > 0.4 * whole["calls"]:
        probs.append(f"{whole['call_errors']} of {whole['calls']} calls of the whole run raise")
    if whole["fit_errors"] > 0.2 * max(1, whole["total"]):
        probs.append(f"{whole['fit_errors']} fits of the whole run raise")
    if d["total"] == 0 or d["calls"] == 0:
        return ["no histories / no calls"]
    for t in ("regression", "binary", "multiclass", "multi"):
        if d["task"].get(t, 0) == 0:
            probs.append(f"task {t} never drawn")
    for k in LABEL_KINDS:
        if d["labels"].get(k, 0) == 0:
            probs.append(f"label content '{k}' never drawn")
    for k in ("all", "single", "subset", "multiset", "same", "repeat", "sameshape"):
        if d["rows"].get(k, 0) == 0:
            probs.append(f"row selection '{k}' never drawn")
    if d["nnum"].get(0, 0) == 0 or sum(v for k_, v in d["nnum"].items() if k_ > 0) == 0:
        probs.append("frames with AND without numerical columns are not both drawn")
    for k in ("direct", "deepcopy", "torch", "self", "self2"):
        if d["roundtrips"].get(k, 0) == 0:
            probs.append(f"state_dict round trip '{k}' never drawn")
    if d["call_errors"] > 0.4 * d["calls"]:
        probs.append(f"{d['call_errors']} of {d['calls']} calls raise")
    if d["fit_errors"] > 0.2 * d["total"]:
        probs.append(f"{d['fit_errors']} fits raise")
    for k in ("unfitted_calls", "unseen_calls", "calls_with_missing", "calls_after_another_instance_was_fitted",
              "repeated_frame_calls", "loads_of_saved_state", "name_clash_fits", "lookalike_names_without_clash",
              "same_shape_other_data_after_call", "same_shape_other_data_without_numerical",
              "loads_into_the_same_object", "fits_with_one_training_row",
              "fits_with_one_categorical_column_and_one_row", "fits_with_a_single_label_value",
              "fits_multiclass_with_only_the_top_class", "fits_with_a_category_seen_once",
              "fits_with_missing_training_entries", "calls_on_a_category_seen_once"):
        if d[k] == 0:
            probs.append(f"{k} = 0")
    for k in ("fit:int64", "fit:int32", "fit:float32", "fit:float64", "call:int64", "call:int32", "call:float32",
              "call:float64"):
        if d["label_dtypes"].get(k, 0) == 0:
            probs.append(f"label dtype {k} never drawn")
    for k in (2, 3, 4, 11):
        if d["num_classes"].get(k, 0) == 0:
            probs.append(f"num_classes = {k} never fitted")
    for k in ("fits_with_nan_targets", "fits_with_whole_valued_float_targets"):
        if d[k] == 0:
            probs.append(f"{k} = 0")
    if sum(v for k_, v in d["instances"].items() if k_ >= 2) == 0:
        probs.append("no history with several transform instances")
    return probs
