"""C10 — a data-loader epoch is an exact partition of the rows."""
from __future__ import annotations

import json
import os

os.environ.setdefault("TQDM_DISABLE", "1")

import numpy as np  # noqa: E402
import torch  # noqa: E402

import torch_frame  # noqa: E402
from torch_frame.data import DataLoader, MultiEmbeddingTensor, MultiNestedTensor, TensorFrame  # noqa: E402

from harness import common as C  # noqa: E402
from harness import dfgen as D  # noqa: E402

PROP = "C10"
HEADER = "Require Import PF.Lib.ListX PF.Lib.Chunks PF.Model.Loader PF.Model.LoaderCall PF.Model.LoaderFetch."
MODEL_TARGETS = ["Model/Loader.vo", "Model/LoaderCall.vo", "Model/LoaderFetch.vo"]
SHARD = 250
RULE = ("one or two epochs of a torch_frame DataLoader over a TensorFrame (dense, ragged, embedding, dict-valued "
        "columns, with/without y, with/without an explicit num_rows, feature-less) or a materialized / unmaterialized Dataset of 0..12 rows with a "
        "row-id payload in every column; distinct = distinct (source kind, stype set, n, batch_size, sampling kind, "
        "drop_last, user collate, ok/err); non-trivial = at least one batch was delivered or an error was expected")
TRUSTED = [
    "Coq 8.16.1 kernel + vm_compute (no native_compute)",
    "hand-written model coq/Model/Loader.v of torch_frame/data/loader.py, tied to /repo by this run's observational "
    "correspondence (every batch of every epoch, len(loader), raise/no-raise)",
    "call-level model coq/Model/LoaderCall.v (Python positional/keyword binding, kwargs.pop/get/set, torch's option "
    "checks) evaluated on the exact positional arguments and keyword dictionary of every generated call",
    "modelled primitives: torch SequentialSampler (seq 0 n), BatchSampler (chunks / drop_last), user sampler and "
    "batch_sampler iterables, dense/ragged row gathering as list gathering (C05/C07)",
    "section hypothesis H_shuffle_perm (RandomSampler yields a permutation of range(n)), validated on every shuffled "
    "epoch of this run",
    "harness/c10.py (generator, plain-Python chunking oracle, Coq literal printer), harness/dfgen.py (Dataset builder)",
]
ASSUMPTIONS = [
    "single-process loading (num_workers=0), no pinning, CPU (num_workers, pin_memory, timeout, worker_init_fn, "
    "multiprocessing_context, prefetch_factor, persistent_workers, pin_memory_device, in_order are left at their defaults: "
    "worker processes are outside the property; batch_size=None (no auto-batching) is outside the quantifier 1..n+1)",
    "what a row of a TensorFrame is (coherent selection across columns) is C07; here rows are compared by content",
    "the order drawn by torch's RandomSampler is an input of the model (witnessed from the observed epoch)",
    "raise demands (see RAISE_DEMANDS): only an out-of-range row index must raise (anywhere, any exception type); torch's "
    "option checks (batch_sampler + drop_last) may raise or not, and are not compared with the model when they do not",
    "'a user-supplied collate function cannot replace the row-selection collation' and 'each batch equals selecting "
    "its rows' hold of the model by construction (no model function reads kw_collate_fn; loader_epoch is defined as the "
    "gather); for the real class they are OBSERVED by this harness on every run: a recording collate_fn is passed in "
    "~30 % of the loaders and must never be called (oracle keys collate-called / collate-replaced), and every batch is "
    "compared cell by cell with the independently known source rows (batch-content:*)",
]

# Clause-by-clause coverage of the property statement (PART A audit): clause -> oracle keys that judge it
# -> generator kinds that exercise it.  sanity() fails closed when a generator kind is never drawn.
CLAUSES = [
    # statement clauses
    ("batches together contain every row exactly once, in order without shuffling",
     ["batch-content:sequential:*", "batch-count:sequential", "rows-served:sequential", "len:sequential"],
     ["sampling=sequential (shuffle omitted / False / None, keyword or positional)", "bs_vs_n: n=0, bs>n, bs|n, rem1, rem>1"]),
    ("... as a permutation with shuffling",
     ["row-twice:shuffle", "coverage:shuffle", "foreign-row:shuffle", "batch-size:shuffle", "raises:init:empty-shuffle"],
     ["sampling=shuffle by keyword / positionally / with generator=", "empty_shuffle_kw", "empty_shuffle_positional",
      "two_epochs"]),
    ("each batch equals selecting its rows from the source frame",
     ["batch-content:*", "names", "columns-disagree", "stale-num-rows:*", "len-vs-num-rows", "batch-invalid",
      "batch-overwritten", "batches-share-storage", "foreign-row:shuffle", "direct-collate:*", "direct-collate-raises:*",
      "no-raise:*"],
     ["every stype incl. dict-valued and ragged", "with/without y", "explicit_num_rows", "featureless",
      "sampler with repeats / out-of-range index", "direct collate_fn(list|range|slice|tensor|int)"]),
    ("every batch has the configured size except possibly a smaller (or, if requested, dropped) last one",
     ["batch-size:*", "batch-count:*", "rows-served:*", "len:*"],
     ["drop_last True / False spelled out / omitted", "batch_size keyword / positional / omitted (default 1)"]),
    ("a loader built from an unmaterialized dataset serves the same rows as materializing it first",
     ["batch-content:*:ds_unmat", "not-materialized", "source-rows"],
     ["src=ds_unmat", "src=ds", "src=ds with view (row-selected materialized dataset)"]),
    ("a user-supplied collate function cannot replace the row-selection collation",
     ["collate-called", "collate-replaced", "not-a-frame"],
     ["collate_form=user", "collate_form=none (collate_fn=None)", "collate_form=omitted"]),
    # quantifier
    ("custom samplers", ["batch-content:sampler:*", "batch-content:batch_sampler:*", "batch-size:sampler", "no-raise:*"],
     ["sampler_form: list / object / tuple / numpy / tensor / generator, keyword or positional",
      "bsampler_form: list / object", "batch_sampler + drop_last (torch rejects)"]),
    ("TensorFrame and Dataset sources", ["*"], ["src=tf / ds / ds_unmat / ds view"]),
]

# FALSE-ALARM audit of the oracle's "must raise" demands: each with the words of the statement that back it.
RAISE_DEMANDS = [
    ("no-raise:sampler / no-raise:batch_sampler (a row index >= n or < -n reached the fetch step and batches were served; "
     "an index in [-n, -1] may be served Python-style or rejected, both accepted)",
     "backed by 'each batch being equal to selecting its rows from the source frame': an index that names no row has no "
     "selection, so returning normally necessarily breaks the clause.  Only THAT a raise happens is demanded -- at "
     "construction or during iteration, any exception type; batches served before the offending one are not judged"),
    ("batch_sampler together with drop_last (torch: ValueError)",
     "NOT backed: torch's own option check.  The oracle accepts a raise or, if a loader is built, judges its batches as "
     "the batch sampler's lists; the Coq term (which mirrors torch's raise) is not compared when the implementation "
     "returned normally"),
    ("batch_size <= 0, sampler together with shuffle, batch_size=None", "NOT backed and never generated"),
    ("raises:init:*, raises:<kind>, direct-collate-raises:* are must-NOT-raise demands",
     "backed by 'yields TensorFrame batches that together contain every row exactly once' for all frames of 0..n rows"),
]

# Every raise / assert / try-except / special-case branch / dtype cast of the anchored code (loader.py,
# TensorFrame.__getitem__), the generator kind that reaches it (all required by sanity()) and the oracle key that
# notices if it is removed, loosened or made to return a default.
ERROR_PATHS = [
    ("loader.py: kwargs.pop('collate_fn', None)", "collate_form user / none / omitted",
     "collate-called, collate-replaced (kept without the pop: raises:init:* from the duplicate keyword)"),
    ("loader.py: isinstance(dataset, Dataset) -> dataset.materialize().tensor_frame | else dataset",
     "src tf / ds / ds_unmat / ds view", "batch-content:*:<src>, not-materialized, raises:init:*"),
    ("dataset.py: Dataset.tensor_frame @requires_post_materialization (RuntimeError)", "src ds_unmat",
     "raises:init:* (reached only if the loader stops materializing)"),
    ("loader.py: len(dataset) == 0 and kwargs.get('shuffle') -> kwargs['shuffle'] = False", "empty_shuffle_kw",
     "raises:init:empty-shuffle"),
    ("loader.py: len(dataset) == 0 and len(args) >= 2 and args[1] -> positional rewrite", "empty_shuffle_positional",
     "raises:init:empty-shuffle; a rewrite applied to NON-empty sources shows as row order = identity -> H_shuffle_perm "
     "still holds, so also batch_sampler/sampler positional forms (sampler:pos) guard the args tuple surgery: raises:init:*"),
    ("tensor_frame.py __getitem__: isinstance(index, int) -> [index]", "direct:int", "direct-collate:int"),
    ("tensor_frame.py __getitem__: dict-valued feature branch", "stype text_tokenized", "batch-content:*, columns-disagree"),
    ("tensor_frame.py __getitem__: self._num_rows is not None -> dummy[index].size(0)",
     "explicit_num_rows, featureless", "stale-num-rows:*, batch-size:*, batch-invalid"),
    ("torch fetch step: range(n)[idx] IndexError for idx >= n or idx < -n, wrap-once for -n <= idx < 0 "
     "(Model/LoaderFetch.v, theorems c10_fetch_*)",
     "index_at_or_above_n, index_below_minus_n, index_negative_in_range", "no-raise:sampler, no-raise:batch_sampler, "
     "batch-content:sampler:*"),
    ("torch: ValueError batch_sampler is mutually exclusive with drop_last", "batch_sampler+drop_last",
     "(torch's restriction, tolerated) the model returns None there; a silent acceptance is compared by the correspondence"),
    ("torch: ValueError RandomSampler over an empty source", "empty_shuffle_*", "raises:init:empty-shuffle"),
    ("dtype casts", "none in loader.py; batches are gathers (dtype of every stub column is compared exactly through "
     "batch-content:* since payload ids are exact in float32 / int64)", "batch-content:*"),
]

STYPES = ["numerical", "categorical", "timestamp", "embedding", "multicategorical", "sequence_numerical",
          "text_tokenized"]
TOK_KEYS = ["input_ids", "attention_mask"]
DS_STYPES = ["numerical", "categorical", "multicategorical", "sequence_numerical", "timestamp", "embedding",
             "text_embedded", "text_tokenized"]
DS_STYPES_EMPTY_OK = ["numerical", "categorical", "multicategorical", "timestamp"]


# ------------------------------------------------------------ TensorFrame sources
def pay(r, s, j, t):
    """Unique id of scalar t of the cell in row r, column j of stype number s."""
    return ((r * 9 + s) * 4 + j) * 8 + t


def cell(st, r, j, key=0):
    """The cell the harness puts at row r, column j of stype st (plain Python, the oracle's reference)."""
    s = STYPES.index(st)
    if st == "numerical":
        return [float(pay(r, s, j, 0))]
    if st == "categorical":
        return [pay(r, s, j, 0)]
    if st == "timestamp":
        return [pay(r, s, j, t) for t in range(7)]
    if st == "embedding":
        return [pay(r, s, j, t) + 0.5 for t in range(j % 3 + 1)]
    if st == "multicategorical":
        return [pay(r, s, j, t) for t in range((r + 2 * j) % 4)]
    if st == "sequence_numerical":
        return [pay(r, s, j, t) + 0.25 for t in range((2 * r + j + 1) % 3)]
    if st == "text_tokenized":
        return [pay(r, s, j, t) * 2 + key for t in range((r + j) % 3 + key)]
    raise ValueError(st)


def y_of(r):
    return float(5000 + r)


def mnt(n, k, f, dtype):
    if n == 0:
        return MultiNestedTensor(num_rows=0, num_cols=k, values=torch.zeros(0, dtype=dtype),
                                 offset=torch.zeros(1, dtype=torch.long))
    return MultiNestedTensor.from_tensor_mat([[torch.tensor(f(r, j), dtype=dtype) for j in range(k)]
                                              for r in range(n)])


def build_tf(spec):
    n = spec["n"]
    if not spec["cols"]:
        return TensorFrame({}, {}, num_rows=n)
    feat, names = {}, {}
    for st, k in spec["cols"]:
        sty = getattr(torch_frame, st)
        names[sty] = [f"{st[:3]}{j}" for j in range(k)]
        if st == "numerical":
            feat[sty] = torch.tensor([[cell(st, r, j)[0] for j in range(k)] for r in range(n)],
                                     dtype=torch.float32).reshape(n, k)
        elif st == "categorical":
            feat[sty] = torch.tensor([[cell(st, r, j)[0] for j in range(k)] for r in range(n)],
                                     dtype=torch.long).reshape(n, k)
        elif st == "timestamp":
            feat[sty] = torch.tensor([[cell(st, r, j) for j in range(k)] for r in range(n)],
                                     dtype=torch.long).reshape(n, k, 7)
        elif st == "embedding":
            feat[sty] = MultiEmbeddingTensor.from_tensor_list(
                [torch.tensor([cell(st, r, j) for r in range(n)], dtype=torch.float32).reshape(n, j % 3 + 1)
                 for j in range(k)])
        elif st == "multicategorical":
            feat[sty] = mnt(n, k, lambda r, j: cell(st, r, j), torch.long)
        elif st == "sequence_numerical":
            feat[sty] = mnt(n, k, lambda r, j: cell(st, r, j), torch.float32)
        elif st == "text_tokenized":
            feat[sty] = {key: mnt(n, k, lambda r, j, ki=ki: cell(st, r, j, ki), torch.long)
                         for ki, key in enumerate(TOK_KEYS)}
    y = torch.tensor([y_of(r) for r in range(n)], dtype=torch.float32) if spec["with_y"] else None
    if spec.get("explicit_num_rows"):
        # a frame constructed with features AND an explicit number of rows
        return TensorFrame(feat, names, y, num_rows=n)
    return TensorFrame(feat, names, y)


def expected_rows_tf(spec):
    """Row contents of the TensorFrame source, from the cell functions alone."""
    rows = []
    for r in range(spec["n"]):
        row = {}
        for st, k in spec["cols"]:
            if st == "text_tokenized":
                row[st] = {key: [cell(st, r, j, ki) for j in range(k)] for ki, key in enumerate(TOK_KEYS)}
            else:
                row[st] = [cell(st, r, j) for j in range(k)]
        row["y"] = y_of(r) if (spec["with_y"] and spec["cols"]) else None
        rows.append(row)
    return rows


def payload_rows(tfj):
    """Number of rows actually present in the payload tensors (None for a feature-less frame)."""
    for f in tfj["feats"].values():
        if isinstance(f, dict):
            for v in f.values():
                return len(v)
        else:
            return len(f)
    if tfj["y"] is not None:
        return len(tfj["y"])
    return None


def rows_of(tfj):
    """read_tf JSON -> list of per-row contents, read off the payload tensors themselves
    (the frame's reported num_rows is only used for a feature-less frame)."""
    rows = []
    m = payload_rows(tfj)
    for r in range(tfj["num_rows"] if m is None else m):
        row = {}
        for st, f in tfj["feats"].items():
            row[st] = {k: v[r] for k, v in f.items()} if isinstance(f, dict) else f[r]
        row["y"] = tfj["y"][r] if tfj["y"] is not None else None
        rows.append(row)
    return rows


def canon(x):
    return json.dumps(x, sort_keys=True)


# ------------------------------------------------------------------- generation
def gen_sampling(rng, n, bs, allow_bad):
    """(shuffle, sampler, batch_sampler)"""
    k = rng.wpick([(5, "seq"), (5, "shuffle"), (3, "sampler"), (1, "batch_sampler")])
    if k == "seq":
        return False, None, None
    if k == "shuffle":
        return True, None, None
    hi = n - 1
    bad_ix = [rng.randint(n, n + 2)] if allow_bad else []   # an out-of-range row index (must raise, not wrap)
    if hi < 0:
        return False, list(bad_ix), None
    if k == "sampler":
        m = rng.randint(0, n + 3)
        kind = rng.pick(["any", "any", "perm", "rev", "long", "masklike", "negative"])
        if kind == "perm" and n > 0:
            idx = list(range(n))
            rng.shuffle(idx)
        elif kind == "rev":
            idx = list(range(n))[::-1]
        elif kind == "negative" and n > 0:
            # Python-style negative row indices: range(n)[-1] is the last row; below -n is out of range
            idx = [rng.randint(-n, n - 1) for _ in range(max(1, m))]
            idx[rng.randint(0, len(idx) - 1)] = rng.randint(-n, -1)
            if allow_bad:
                idx.insert(rng.randint(0, len(idx)), -n - rng.randint(1, 2))
                bad_ix = []
        elif kind == "long" and n > 0:
            idx = [rng.randint(0, hi) for _ in range(rng.randint(n + 1, 2 * n + 2))]     # repeats, longer than n
        elif kind == "masklike" and n >= 2:
            idx = [rng.randint(0, 1) for _ in range(n)]       # looks like a 0/1 mask of length n; it is a list of rows
            if len(set(idx)) == 1:
                idx[0] = 1 - idx[0]
        else:
            idx = [rng.randint(0, hi) for _ in range(m)]
        if bad_ix:
            idx.insert(rng.randint(0, len(idx)), bad_ix[0])
        return False, idx, None
    nb = rng.randint(0, 4)
    lo = -n if (n > 0 and rng.chance(0.3)) else 0
    bss = [[rng.randint(lo, hi) for _ in range(rng.randint(0, 3))] for _ in range(nb)]
    if n >= 2 and rng.chance(0.5):
        bss.insert(rng.randint(0, len(bss)), [rng.randint(0, 1) for _ in range(n)])        # a mask-like batch
    if bad_ix:
        bss.insert(rng.randint(0, len(bss)), [rng.randint(0, hi), bad_ix[0]])
    return False, None, bss


def gen_tf_spec(rng, n):
    if rng.chance(0.05):
        return {"n": n, "cols": [], "with_y": False}
    k = rng.randint(1, 4)
    sts = rng.sample(STYPES, k)
    sts.sort(key=STYPES.index)
    cols = [[st, rng.randint(1, 3)] for st in sts]
    with_y = rng.chance(0.5)
    if not any(st in ("numerical", "categorical", "timestamp", "embedding") for st, _ in cols):
        with_y = True          # keep every row identifiable by content
    return {"n": n, "cols": cols, "with_y": with_y, "explicit_num_rows": rng.chance(0.35)}


def gen_ds_desc(rng, n):
    sts = DS_STYPES if n > 0 else DS_STYPES_EMPTY_OK
    desc = D.gen_frame(rng, stypes=sts, n=n, with_target=(rng.chance(0.5) if n >= 2 else False))
    for c in desc["cols"]:
        if c["stype"] == "text_tokenized":
            c["tok_fmt"] = rng.pick(["list", "dict"])
    desc["cols"].append({"name": "rowid", "stype": "numerical", "dtype": "float", "sep": None, "fmt": None,
                         "width": None, "cells": [float(r) for r in range(n)]})
    desc["col_order"].insert(rng.randint(0, len(desc["col_order"])), "rowid")
    return desc


# mirrored in coq/Model/LoaderCall.v (torch_params / torch_kwonly); sanity() compares with the live signature
TORCH_PARAMS = ["batch_size", "shuffle", "sampler", "batch_sampler", "num_workers", "collate_fn", "pin_memory",
                "drop_last", "timeout", "worker_init_fn", "multiprocessing_context", "generator"]
TORCH_KWONLY = ["prefetch_factor", "persistent_workers", "pin_memory_device", "in_order"]
SAMPLER_FORMS = ["list", "object", "tuple", "numpy", "tensor", "generator"]
DIRECT_FORMS = ["list", "range", "slice", "tensor", "int", "masklist"]


def gen_case(rng, n=None, bs=None, src=None, shuffle=None, drop_last=None, plain=False, positional=None):
    n = rng.wpick([(1, 0), (1, 1), (2, 2), (2, 3), (6, rng.randint(4, 12))]) if n is None else n
    if bs is None:
        # boundaries of batch_size against the number of rows on purpose: n-1, n, n+1, 2n (and 1)
        bs = rng.pick([1, max(1, n - 1), max(1, n), n + 1, max(1, 2 * n)]) if rng.chance(0.4) else rng.randint(1, n + 1)
    src = rng.wpick([(6, "tf"), (2, "ds"), (2, "ds_unmat")]) if src is None else src
    bad = (not plain) and rng.chance(0.15)
    if plain:
        sh, sampler, bsamp = shuffle, None, None
    else:
        sh, sampler, bsamp = gen_sampling(rng, n, bs, bad)
    case = {"src": src, "n": n, "bs": bs, "shuffle": sh, "sampler": sampler, "batch_sampler": bsamp,
            "drop_last": (rng.chance(0.4) if drop_last is None else drop_last) and bsamp is None,
            "user_collate": rng.chance(0.3), "positional_bs": rng.chance(0.3) and bsamp is None,
            "epochs": rng.pick([1, 1, 2]), "seed": rng.randint(0, 10 ** 6)}
    # DataLoader(src, bs, shuffle): shuffle given positionally as well (only together with a positional batch_size)
    case["positional_shuffle"] = bool(case["positional_bs"] and sampler is None and rng.chance(0.6))
    if positional is not None and bsamp is None and sampler is None:
        case["positional_bs"] = case["positional_shuffle"] = bool(positional)
    if bsamp is not None and not plain and rng.chance(0.15):
        case["drop_last"] = True     # torch rejects batch_sampler together with drop_last (ValueError at construction)
    # ---- the forms in which the arguments are passed (torch.utils.data.DataLoader's public signature)
    if bsamp is None and not case["positional_bs"] and not plain and rng.chance(0.08):
        case["bs"] = 1
        case["bs_omitted"] = True                # batch_size left at its default (1)
    # shuffle=False can be given as False, as None, or not at all
    case["shuffle_false_form"] = rng.pick(["false", "none", "omitted"])
    case["sampler_form"] = rng.pick(SAMPLER_FORMS)
    if sampler is not None and not plain and rng.chance(0.25):
        case["positional_bs"], case["sampler_positional"] = True, True      # DataLoader(src, bs, False, sampler)
    case["bsampler_form"] = rng.pick(["list", "object"])
    case["collate_form"] = "user" if case["user_collate"] else rng.pick(["omitted", "omitted", "none"])
    case["drop_last_false_kw"] = rng.chance(0.3)          # drop_last=False spelled out
    case["generator"] = bool(sh and sampler is None and bsamp is None and rng.chance(0.3))   # generator=torch.Generator()
    case["direct"] = [] if plain else rng.sample(DIRECT_FORMS, rng.randint(0, 2))
    if src == "ds" and n > 0 and not plain and sampler is None and bsamp is None and rng.chance(0.4):
        # a materialized dataset that was row-selected afterwards: len(dataset) and its tensor frame shrink together
        a = rng.randint(0, n - 1)
        case["view"] = [a, rng.randint(a, n)]
    if src == "tf":
        case["tf"] = gen_tf_spec(rng, n)
    else:
        # whether a DataFrame materializes at all is C01/C03's business: keep only frames that do
        for _ in range(20):
            case["frame"] = gen_ds_desc(rng, n)
            try:
                D.build_dataset(case["frame"])[0].materialize()
                break
            except Exception:
                continue
    return case


def generate(rng, tier):
    cases = required_cases()            # every run, any seed, both tiers
    if tier == "quick":
        cases += [gen_case(rng) for _ in range(440)]
        # every (n, bs) relation at small scope at least once: bs | n, remainder 1, bs > n
        for n in range(0, 7):
            for bs in range(1, n + 2):
                cases.append(gen_case(rng, n=n, bs=bs, src="tf", shuffle=rng.chance(0.5), plain=True))
        # shuffle requested by keyword and positionally, over empty and non-empty sources of every kind
        for n in (0, 1, 3):
            for src in ("tf", "ds", "ds_unmat"):
                for pos in (False, True):
                    cases.append(gen_case(rng, n=n, bs=2, src=src, shuffle=True, plain=True, positional=pos))
    else:
        cases += [gen_case(rng) for _ in range(12000)]
        # exhaustive small scope: n <= 8 x bs 1..n+1 x shuffle x drop_last x source kind
        for n in range(0, 9):
            for bs in range(1, n + 2):
                for sh in (False, True):
                    for dl in (False, True):
                        for src in ("tf", "ds", "ds_unmat"):
                            cases.append(gen_case(rng, n=n, bs=bs, src=src, shuffle=sh, drop_last=dl, plain=True,
                                                  positional=bool((n + bs) % 2)))
    return cases


# ---------------------------------------------------------------- implementation
class RecordingCollate:
    """A user-supplied collate_fn: the loader must never call it."""

    def __init__(self):
        self.calls = 0

    def __call__(self, index):
        self.calls += 1
        return ("USER-COLLATE", list(index))


class ListSampler(torch.utils.data.Sampler):
    """A user sampler object (not a bare list) yielding a fixed index sequence."""

    def __init__(self, idx):
        self.idx = list(idx)

    def __iter__(self):
        return iter(self.idx)

    def __len__(self):
        return len(self.idx)


class GenSampler:
    """A sampler that is a plain iterable class (no torch base class), yielding lazily."""

    def __init__(self, idx):
        self.idx = list(idx)

    def __iter__(self):
        for i in self.idx:
            yield i

    def __len__(self):
        return len(self.idx)


class ListBatchSampler:
    def __init__(self, bss):
        self.bss = [list(b) for b in bss]

    def __iter__(self):
        return iter([list(b) for b in self.bss])

    def __len__(self):
        return len(self.bss)


def call_desc(case):
    """(positional, keyword) arguments after the source, as (name, kind, value) triples: the single description
    from which both the real call and the Coq literal of the call-level model are printed."""
    args, kw = [], []
    if case["batch_sampler"] is not None:
        kw.append(("batch_sampler", "bsampler", case["batch_sampler"]))
        if case["drop_last"]:
            kw.append(("drop_last", "bool", True))
    else:
        if case["positional_bs"]:
            args.append(("batch_size", "nat", case["bs"]))
        elif not case.get("bs_omitted"):
            kw.append(("batch_size", "nat", case["bs"]))
        sh = bool(case["shuffle"]) and case["sampler"] is None
        if case["positional_bs"] and (case.get("positional_shuffle") or case.get("sampler_positional")):
            args.append(("shuffle", "bool", sh))
        elif sh:
            kw.append(("shuffle", "bool", True))
        else:
            form = case.get("shuffle_false_form", "false" if case["seed"] % 2 else "omitted")
            if form == "false":
                kw.append(("shuffle", "bool", False))
            elif form == "none":
                kw.append(("shuffle", "none", None))
        if case["sampler"] is not None:
            (args if case.get("sampler_positional") else kw).append(("sampler", "sampler", case["sampler"]))
        if case["drop_last"]:
            kw.append(("drop_last", "bool", True))
        elif case.get("drop_last_false_kw"):
            kw.append(("drop_last", "bool", False))
        if case.get("generator"):
            kw.append(("generator", "opaque", None))
    cf = case.get("collate_form", "user" if case["user_collate"] else "omitted")
    if cf == "user":
        kw.append(("collate_fn", "collate", 7))
    elif cf == "none":
        kw.append(("collate_fn", "none", None))
    return args, kw


def py_value(case, kind, value, ucoll):
    if kind in ("nat", "bool", "none"):
        return value
    if kind == "sampler":
        form = case.get("sampler_form", "object" if case["seed"] % 3 else "list")
        idx = list(value)
        return {"list": lambda: idx, "object": lambda: ListSampler(idx), "tuple": lambda: tuple(idx),
                "numpy": lambda: np.array(idx, dtype=np.int64), "tensor": lambda: torch.tensor(idx, dtype=torch.long),
                "generator": lambda: GenSampler(idx)}[form]()
    if kind == "bsampler":
        bss = [list(b) for b in value]
        return ListBatchSampler(bss) if case.get("bsampler_form") == "object" else bss
    if kind == "opaque":
        g = torch.Generator()
        g.manual_seed(case["seed"])
        return g
    if kind == "collate":
        return ucoll
    raise ValueError(kind)


def coq_value(kind, value):
    nl = lambda xs: C.clist(xs, C.cnat)  # noqa: E731
    if kind == "nat":
        return f"PNat {C.cnat(value)}"
    if kind == "bool":
        return f"PBool {C.cbool(value)}"
    if kind == "none":
        return "PNone"
    if kind == "sampler":
        return f"PSampler {nl(value)}"
    if kind == "bsampler":
        return f"PBatchSampler {C.clist(value, nl)}"
    if kind == "opaque":
        return "POpaque"
    if kind == "collate":
        return f"PCollate {C.cnat(value)}"
    raise ValueError(kind)


def read_batch(b):
    if not isinstance(b, TensorFrame):
        return {"type": type(b).__name__, "repr": repr(b)[:120]}
    rec = {"type": "TensorFrame", "len": len(b), "num_rows": b.num_rows, "validate": None}
    try:
        b.validate()
    except Exception as ex:
        rec["validate"] = f"{C.exc_name(ex)}: {str(ex)[:150]}"
    rec["tf"] = D.read_tf(b)
    rec["ptrs"] = storage_ptrs(b)
    return rec


def storage_ptrs(b):
    """data_ptr of every non-empty payload tensor a batch holds (dense features, y, values of the containers)."""
    out = []

    def add(t):
        if isinstance(t, torch.Tensor):
            if t.numel() > 0:
                out.append(t.data_ptr())
        elif isinstance(t, dict):
            for v in t.values():
                add(v)
        elif t is not None:
            add(getattr(t, "values", None))     # not `offset`: a row selection of an embedding container keeps
                                                # the (read-only) column offsets of its source

    for f in b.feat_dict.values():
        add(f)
    add(b.y)
    return out


def run(case):
    torch.manual_seed(case["seed"])
    obs = {}
    if case["src"] == "tf":
        src = build_tf(case["tf"])
        obs["src"] = D.read_tf(src)
    else:
        ref, _ = D.build_dataset(case["frame"])
        obs["src"] = D.read_tf(ref.materialize().tensor_frame)      # "materializing it first"
        src, _ = D.build_dataset(case["frame"])
        if case["src"] == "ds":
            src.materialize()
    if case.get("view"):
        a_, b_ = case["view"]
        src = src[a_:b_]                       # Dataset.__getitem__ with a slice: a derived, materialized dataset
        full = obs["src"]
        obs["src"] = slice_tfj(full, a_, b_)
    ucoll = RecordingCollate()
    adesc, kdesc = call_desc(case)
    args = [py_value(case, k, v, ucoll) for _, k, v in adesc]
    kw = {name: py_value(case, k, v, ucoll) for name, k, v in kdesc}
    try:
        loader = DataLoader(src, *args, **kw)
        obs["len"] = len(loader)
    except Exception as ex:
        obs["init_exc"] = C.exc_name(ex)
        obs["msg"] = str(ex)[:200]
        return obs
    if case["src"] != "tf":
        obs["materialized_after"] = bool(src.is_materialized)
    obs["epochs"] = []
    kept = []          # every batch object of every epoch stays alive until the end
    for _ in range(case["epochs"]):
        ep = {"batches": []}
        objs = []
        try:
            # the whole epoch is collected first (`list(loader)`) and only then inspected: a batch must stay
            # what it was when it was yielded
            for b in loader:
                objs.append(b)
        except Exception as ex:
            ep["exc"] = C.exc_name(ex)
            ep["msg"] = str(ex)[:200]
        ep["batches"] = [read_batch(b) for b in objs]
        kept.append(objs)
        obs["epochs"].append(ep)
    # ... and the batches of earlier epochs are inspected again after all later epochs ran
    for ep, objs in zip(obs["epochs"], kept):
        ep["reread"] = [read_batch(b) for b in objs]
    obs["user_collate_calls"] = ucoll.calls
    # the public collate_fn method called directly with every kind of row index
    obs["direct"] = []
    m = len(src)
    for form in case.get("direct", []):
        if m == 0 and form in ("int",):
            continue
        a_, b_ = (case["seed"] % (m + 1)), (case["seed"] // 7) % (m + 1)
        lo, hi = min(a_, b_), max(a_, b_)
        idx = [(case["seed"] // (k + 2)) % m for k in range(3)] if m else []
        ix, pos = {"list": (idx, idx), "range": (range(lo, hi), list(range(lo, hi))),
                   "slice": (slice(lo, hi), list(range(lo, hi))),
                   "tensor": (torch.tensor(idx, dtype=torch.long), idx),
                   "int": (lo % m if m else 0, [lo % m] if m else []),
                   # a list of 0/1 ints of length n is a list of row positions, not a mask
                   "masklist": ([(case["seed"] >> k) & 1 for k in range(m)] if m >= 2 else idx,
                                [(case["seed"] >> k) & 1 for k in range(m)] if m >= 2 else idx)}[form]
        rec = {"form": form, "rows": pos}
        try:
            rec["batch"] = read_batch(loader.collate_fn(ix))
        except Exception as ex:
            rec["exc"] = f"{C.exc_name(ex)}: {str(ex)[:120]}"
        obs["direct"].append(rec)
    return obs


def slice_tfj(tfj, a, b):
    out = {"num_rows": max(0, min(b, tfj["num_rows"]) - a), "names": tfj["names"], "feats": {},
           "y": None if tfj["y"] is None else tfj["y"][a:b]}
    for st, f in tfj["feats"].items():
        out["feats"][st] = {k: v[a:b] for k, v in f.items()} if isinstance(f, dict) else f[a:b]
    return out


# ------------------------------------------------------------------------ oracle
def py_chunks(order, bs):
    return [order[i:i + bs] for i in range(0, len(order), bs)]


def expected_index_batches(case, order):
    if case["batch_sampler"] is not None:
        return [list(b) for b in case["batch_sampler"]]
    bats = py_chunks(order, case["bs"])
    if case["drop_last"]:
        bats = [b for b in bats if len(b) == case["bs"]]
    return bats


def eff_n(case):
    """Number of rows of the source the loader is built from."""
    if case.get("view"):
        return max(0, min(case["view"][1], case["n"]) - case["view"][0])
    return case["n"]


def sampling_kind(case):
    if case["batch_sampler"] is not None:
        return "batch_sampler"
    if case["sampler"] is not None:
        return "sampler"
    return "shuffle" if case["shuffle"] else "sequential"


def source_rows(case, obs):
    """(rows, names) of the source: for a TensorFrame from the cell functions, for a
    Dataset from the frame obtained by materializing an identical dataset first."""
    if case["src"] == "tf":
        return expected_rows_tf(case["tf"]), obs["src"]["names"]
    return rows_of(obs["src"]), obs["src"]["names"]


def decode_ids(batch_rows, index_of):
    ids = []
    for row in batch_rows:
        ids.append(index_of.get(canon(row)))
    return ids


def oracle(case, obs):
    if "harness_exc" in obs:
        return dict(key="harness-exc", what="harness failed to run the case: " + obs["harness_exc"], tb=obs.get("tb"))
    kind = sampling_kind(case)
    n, bs = eff_n(case), case["bs"]
    rows, names = source_rows(case, obs)
    if case["src"] == "tf" and rows_of(obs["src"]) != rows:
        return dict(key="harness-source", what="harness built a source frame that differs from its own description")
    if len(rows) != n:
        return dict(key="source-rows", what=f"source has {len(rows)} rows, expected {n}")
    expect_raise = may_raise = False
    if kind in ("sampler", "batch_sampler"):
        # an index that is actually handed to the collation and is not a row position must raise
        served = [i for b in expected_index_batches(case, list(case["sampler"] or [])) for i in b]
        expect_raise = any(i >= n or i < -n for i in served)
        # a negative index within [-n, -1]: the current code serves the row counted from the end (range(n)[i]);
        # the statement backs neither that nor a rejection, so a raise is accepted as well
        may_raise = (not expect_raise) and any(i < 0 for i in served)
    if kind == "batch_sampler" and case["drop_last"]:
        if "init_exc" in obs:
            return None           # torch's documented restriction (mutually exclusive options), not the property
    if (expect_raise or may_raise) and "init_exc" in obs:
        return None               # WHERE the out-of-range index is rejected (construction or iteration) is not stated
    if "init_exc" in obs:
        return dict(key=f"raises:init:{'empty-' if n == 0 else ''}{kind}",
                    what=f"DataLoader(...) raised {obs['init_exc']}: {obs.get('msg')}")
    if case["src"] == "ds_unmat" and not obs.get("materialized_after"):
        return dict(key="not-materialized", what="the loader did not materialize the dataset it was built from")
    if obs.get("user_collate_calls"):
        return dict(key="collate-called", what=f"the user-supplied collate_fn was called {obs['user_collate_calls']} "
                                               f"time(s); it must never replace or accompany the row-selection collation")
    index_of = {}
    for i, row in enumerate(rows):
        index_of.setdefault(canon(row), i)
    identifiable = len(index_of) == len(rows)
    for e, ep in enumerate(obs["epochs"]):
        if expect_raise:
            if "exc" not in ep:
                return dict(key=f"no-raise:{kind}", what="an out-of-range row index was served without an error",
                            observed=ep["batches"][-1:] if ep["batches"] else None)
            continue
        if "exc" in ep and may_raise:
            continue
        if "exc" in ep:
            return dict(key=f"raises:{kind}", what=f"epoch {e} raised {ep['exc']}: {ep.get('msg')}")
        got = ep["batches"]
        for k, b in enumerate(got):
            if b["type"] != "TensorFrame":
                return dict(key="collate-replaced" if case["user_collate"] else "not-a-frame",
                            what=f"batch {k} is a {b['type']}, not a TensorFrame "
                                 f"({'the user collate_fn was used' if case['user_collate'] else 'unexpected type'})",
                            observed=b)
            if b["tf"]["names"] != names:
                return dict(key="names", what=f"batch {k} has different column names than the source",
                            expected=names, observed=b["tf"]["names"])
        again = ep.get("reread", got)
        for k, (b, b2) in enumerate(zip(got, again)):
            if b2.get("tf") != b["tf"] or b2.get("len") != b["len"]:
                return dict(key="batch-overwritten", what=f"epoch {e} batch {k} changed after it was delivered "
                            f"(inspected again after the following epoch(s))", expected=b["tf"], observed=b2.get("tf"))
        got_rows = [rows_of(b["tf"]) for b in got]
        # the batch's own account of its size must be the number of rows its payload holds
        for k, (b, br) in enumerate(zip(got, got_rows)):
            held = payload_rows(b["tf"])
            cols_len = set()
            for f in b["tf"]["feats"].values():
                cols_len |= {len(v) for v in f.values()} if isinstance(f, dict) else {len(f)}
            if b["tf"]["y"] is not None:
                cols_len.add(len(b["tf"]["y"]))
            if len(cols_len) > 1:
                return dict(key="columns-disagree", what=f"epoch {e} batch {k}: columns hold different numbers of rows",
                            observed=sorted(cols_len))
            if held is not None and (b["len"] != held or b["num_rows"] != held):
                return dict(key=f"stale-num-rows:{kind}",
                            what=f"epoch {e} batch {k} holds {held} rows but reports len(batch)={b['len']}, "
                                 f"num_rows={b['num_rows']}", expected=held, observed=[b["len"], b["num_rows"]])
            if b["len"] != b["num_rows"]:
                return dict(key="len-vs-num-rows", what=f"epoch {e} batch {k}: len(batch)={b['len']} != num_rows="
                                                        f"{b['num_rows']}")
            if b["validate"] is not None:
                return dict(key="batch-invalid", what=f"epoch {e} batch {k} fails validate(): {b['validate']}")
        # the order of row indices the epoch must follow
        if kind == "shuffle":
            if identifiable:
                ids = [decode_ids(br, index_of) for br in got_rows]
                flat = [i for b in ids for i in b]
                if any(i is None for i in flat):
                    return dict(key="foreign-row:shuffle", what="a batch contains a row that is not a row of the source",
                                observed=ids)
                # H_shuffle_perm: each row at most once; exactly once when nothing is dropped
                if len(set(flat)) != len(flat):
                    return dict(key="row-twice:shuffle", what="a shuffled epoch served a row twice", observed=ids)
                want = n - (n % bs if case["drop_last"] else 0)
                if len(flat) != want:
                    return dict(key="coverage:shuffle",
                                what=f"a shuffled epoch served {len(flat)} rows, expected {want} of {n}",
                                observed=ids)
                order = flat + sorted(set(range(n)) - set(flat))
            else:
                order = list(range(n))
        elif kind == "sampler":
            order = list(case["sampler"])
        else:
            order = list(range(n))
        exp = expected_index_batches(case, order)
        if len(got) != len(exp):
            return dict(key=f"batch-count:{kind}", what=f"epoch {e} has {len(got)} batches, expected {len(exp)}",
                        expected=exp, observed=[len(br) for br in got_rows])
        for k, (idx, br, b) in enumerate(zip(exp, got_rows, got)):
            if b["len"] != len(idx) or b["num_rows"] != len(idx) or len(br) != len(idx):
                return dict(key=f"batch-size:{kind}",
                            what=f"epoch {e} batch {k} has len {b['len']} / num_rows {b['num_rows']} / "
                                 f"{len(br)} payload rows, expected {len(idx)}",
                            expected=exp, observed=[[x["len"], len(y)] for x, y in zip(got, got_rows)])
            want_rows = [rows[i] for i in idx]
            if br != want_rows:
                return dict(key=f"batch-content:{kind}:{case['src']}",
                            what=f"epoch {e} batch {k} is not the selection of rows {idx} of the source",
                            expected=want_rows, observed=br)
        # batches selecting different rows must not live in the same storage (a later batch would overwrite
        # an earlier one the caller kept)
        for k1 in range(len(got)):
            for k2 in range(k1 + 1, len(got)):
                if exp[k1] != exp[k2] and set(got[k1].get("ptrs", [])) & set(got[k2].get("ptrs", [])):
                    return dict(key="batches-share-storage",
                                what=f"epoch {e}: batches {k1} and {k2} (rows {exp[k1]} / {exp[k2]}) share tensor storage")
        served = sum(len(idx) for idx in exp)
        if sum(b["len"] for b in got) != served:
            return dict(key=f"rows-served:{kind}", what=f"epoch {e}: batch lengths sum to {sum(b['len'] for b in got)}, "
                                                         f"{served} rows were to be served")
        if obs["len"] != len(exp):
            return dict(key=f"len:{kind}", what=f"len(loader) = {obs['len']} but an epoch has {len(exp)} batches")
    # the public collate_fn called directly: the selection of the given rows, for every kind of row index
    for rec in obs.get("direct", []):
        if "exc" in rec:
            return dict(key=f"direct-collate-raises:{rec['form']}",
                        what=f"loader.collate_fn(<{rec['form']} index>) raised {rec['exc']}", expected=rec["rows"])
        b = rec["batch"]
        want_rows = [rows[i] for i in rec["rows"]]
        if b["type"] != "TensorFrame" or rows_of(b["tf"]) != want_rows or b["len"] != len(want_rows) \
                or b["validate"] is not None:
            return dict(key=f"direct-collate:{rec['form']}",
                        what=f"loader.collate_fn(<{rec['form']} index>) is not the selection of rows {rec['rows']}",
                        expected=want_rows, observed=b.get("tf"))
    return None


# ------------------------------------------------------------------------ shrink
def shrink(case):
    if case["epochs"] > 1:
        yield dict(case, epochs=1)
    if case["user_collate"] and case["shuffle"]:
        yield dict(case, shuffle=False)
    if case.get("positional_shuffle"):
        yield dict(case, positional_shuffle=False)
    elif case["positional_bs"]:
        yield dict(case, positional_bs=False)
    if case["src"] == "tf":
        spec = case["tf"]
        for k in range(len(spec["cols"])):
            cols = spec["cols"][:k] + spec["cols"][k + 1:]
            if cols or not spec["cols"]:
                yield dict(case, tf=dict(spec, cols=cols, with_y=True))
        for k, (st, c) in enumerate(spec["cols"]):
            if c > 1:
                yield dict(case, tf=dict(spec, cols=spec["cols"][:k] + [[st, c - 1]] + spec["cols"][k + 1:]))
        if case["n"] > 0 and case["sampler"] is None and case["batch_sampler"] is None:
            n = case["n"] - 1
            yield dict(case, n=n, bs=min(case["bs"], n + 1), tf=dict(spec, n=n))
    else:
        fr = case["frame"]
        n = case["n"] - 1
        if n >= 0 and all(i < n for i in (case["sampler"] or [])) and case["batch_sampler"] is None:
            yield dict(case, n=n, bs=min(case["bs"], n + 1),
                       frame=dict(fr, n=n, cols=[dict(c, cells=c["cells"][:n]) for c in fr["cols"]]))
        for k, c in enumerate(fr["cols"]):
            if c["name"] in ("rowid", fr["target"]):
                continue
            cols = fr["cols"][:k] + fr["cols"][k + 1:]
            yield dict(case, frame=dict(fr, cols=cols, col_order=[x for x in fr["col_order"] if x != c["name"]]))
    if case["sampler"]:
        for k in range(len(case["sampler"])):
            yield dict(case, sampler=case["sampler"][:k] + case["sampler"][k + 1:])
    if case["bs"] > 1:
        yield dict(case, bs=case["bs"] - 1)


# ---------------------------------------------------------------------- evidence
def nontrivial_sig(case, obs):
    if "epochs" not in obs and "init_exc" not in obs:
        return None
    delivered = any(ep["batches"] for ep in obs.get("epochs", []))
    err = "init_exc" in obs or any("exc" in ep for ep in obs.get("epochs", []))
    if not (delivered or err):
        return None
    sts = [c[0] for c in case["tf"]["cols"]] if case["src"] == "tf" else sorted({c["stype"] for c in case["frame"]["cols"]})
    enr = bool(case["src"] == "tf" and case["tf"].get("explicit_num_rows"))
    return json.dumps([case["src"], sts, enr, case["n"], case["bs"], sampling_kind(case), case["drop_last"],
                       case["user_collate"], err])


def stats(cases, obss):
    d = {"total": 0, "explicit_num_rows": 0, "featureless": 0, "src": {}, "sampling": {}, "n": {}, "bs_vs_n": {}, "drop_last": 0, "user_collate": 0,
         "error_cases": 0, "zero_batches": 0, "two_epochs": 0, "stypes": {}}
    for c, o in zip(cases, obss):
        if c is None:
            continue
        d["total"] += 1
        d["src"][c["src"]] = d["src"].get(c["src"], 0) + 1
        k = sampling_kind(c)
        n, bs = c["n"], c["bs"]
        d["sampling"][k] = d["sampling"].get(k, 0) + 1
        d["n"][c["n"]] = d["n"].get(c["n"], 0) + 1
        rel = "n=0" if n == 0 else "bs>n" if bs > n else "bs|n" if n % bs == 0 else "rem1" if n % bs == 1 else "rem>1"
        d["bs_vs_n"][rel] = d["bs_vs_n"].get(rel, 0) + 1
        d["drop_last"] += bool(c["drop_last"])
        d["positional_bs"] = d.get("positional_bs", 0) + bool(c["positional_bs"])
        d["positional_shuffle"] = d.get("positional_shuffle", 0) + bool(c.get("positional_shuffle"))
        d["empty_shuffle_kw"] = d.get("empty_shuffle_kw", 0) + bool(
            n == 0 and c["shuffle"] and k == "shuffle" and not c.get("positional_shuffle"))
        d["empty_shuffle_positional"] = d.get("empty_shuffle_positional", 0) + bool(
            n == 0 and c["shuffle"] and k == "shuffle" and c.get("positional_shuffle"))
        bd = d.setdefault("boundary", {})

        def hit(key):
            bd[key] = bd.get(key, 0) + 1
        m_ = eff_n(c)
        if c["batch_sampler"] is None and m_ >= 1:
            for name, val in (("bs=1", 1), ("bs=n-1", m_ - 1), ("bs=n", m_), ("bs=n+1", m_ + 1), ("bs=2n", 2 * m_)):
                if bs == val and val >= 1:
                    hit(name)
            if bs < m_ and m_ % bs == 1 and k in ("sequential", "shuffle"):
                hit("last_batch_of_1" + (":dropped" if c["drop_last"] else ""))
        if m_ in (1, 2):
            hit(f"rows={m_}")
        masklike = lambda l: len(l) == m_ and m_ >= 2 and set(l) <= {0, 1}  # noqa: E731

        every = list(c["sampler"] or []) + [i for b_ in (c["batch_sampler"] or []) for i in b_]
        if any(-m_ <= i < 0 for i in every):
            hit("index_negative_in_range")
        if any(i < -m_ for i in every):
            hit("index_below_minus_n")
        if any(i >= m_ for i in every):
            hit("index_at_or_above_n")
        if c["sampler"] is not None:
            if len(c["sampler"]) > m_ > 0 and all(0 <= i < m_ for i in c["sampler"]):
                hit("sampler_longer_than_n")
            if masklike(c["sampler"]):
                hit("sampler_masklike")
        if c["batch_sampler"] is not None and any(masklike(b) for b in c["batch_sampler"]):
            hit("batch_masklike")
        adesc, kdesc = call_desc(c)
        forms = d.setdefault("call_forms", {})

        def bump(key):
            forms[key] = forms.get(key, 0) + 1
        given = {t[0]: ("pos", t) for t in adesc}
        given.update({t[0]: ("kw", t) for t in kdesc})
        for name in ("batch_size", "shuffle", "sampler", "batch_sampler", "drop_last", "collate_fn", "generator"):
            if name not in given:
                bump(f"{name}:omitted")
            else:
                how, t = given[name]
                val = {"bool": str(t[2]), "none": "None"}.get(t[1], "")
                bump(f"{name}:{how}" + (f":{val}" if val else ""))
        if c["sampler"] is not None:
            bump("sampler_form:" + c.get("sampler_form", "list"))
        if c["batch_sampler"] is not None:
            bump("bsampler_form:" + c.get("bsampler_form", "list"))
            if c["drop_last"]:
                bump("batch_sampler+drop_last")
        for f in c.get("direct", []):
            bump("direct:" + f)
        if c.get("view"):
            bump("ds_view")
        if c["src"] == "tf":
            d["explicit_num_rows"] += bool(c["tf"]["cols"] and c["tf"].get("explicit_num_rows"))
            d["featureless"] += not c["tf"]["cols"]
        d["user_collate"] += bool(c["user_collate"])
        d["two_epochs"] += c["epochs"] == 2
        if o and ("init_exc" in o or any("exc" in ep for ep in o.get("epochs", []))):
            d["error_cases"] += 1
        if o and o.get("epochs") and not o["epochs"][0]["batches"]:
            d["zero_batches"] += 1
        sts = [x[0] for x in c["tf"]["cols"]] if c["src"] == "tf" else [x["stype"] for x in c["frame"]["cols"]]
        for s in set(sts):
            d["stypes"][s] = d["stypes"].get(s, 0) + 1
    return d


def never_drawn(d):
    """The kinds / argument forms / boundaries a run must contain (judged on the stats dict)."""
    probs = []
    for k in ("sequential", "shuffle", "sampler", "batch_sampler"):
        if not d["sampling"].get(k):
            probs.append(f"sampling kind {k} never drawn")
    for k in ("tf", "ds", "ds_unmat"):
        if not d["src"].get(k):
            probs.append(f"source kind {k} never drawn")
    for k in ("n=0", "bs>n", "bs|n", "rem1", "rem>1"):
        if not d["bs_vs_n"].get(k):
            probs.append(f"batch_size/rows relation {k} never drawn")
    for k in ("drop_last", "user_collate", "two_epochs", "explicit_num_rows", "featureless", "positional_bs",
              "positional_shuffle", "empty_shuffle_kw", "empty_shuffle_positional"):
        if not d.get(k):
            probs.append(f"{k} never drawn")
    for st in STYPES:
        if not d["stypes"].get(st):
            probs.append(f"stype {st} never drawn")
    need = ["batch_size:kw", "batch_size:pos", "batch_size:omitted",
            "shuffle:kw:True", "shuffle:kw:False", "shuffle:kw:None", "shuffle:pos:True", "shuffle:pos:False",
            "shuffle:omitted", "sampler:kw", "sampler:pos", "sampler:omitted", "batch_sampler:kw",
            "drop_last:kw:True", "drop_last:kw:False", "drop_last:omitted",
            "collate_fn:kw", "collate_fn:kw:None", "collate_fn:omitted", "generator:kw", "ds_view",
            "batch_sampler+drop_last"] + \
           ["sampler_form:" + f for f in SAMPLER_FORMS] + ["bsampler_form:list", "bsampler_form:object"] + \
           ["direct:" + f for f in DIRECT_FORMS]
    for k in need:
        if not d.get("call_forms", {}).get(k):
            probs.append(f"argument form {k} never drawn")
    for k in ("bs=1", "bs=n-1", "bs=n", "bs=n+1", "bs=2n", "last_batch_of_1", "last_batch_of_1:dropped", "rows=1",
              "rows=2", "sampler_longer_than_n", "sampler_masklike", "batch_masklike", "index_negative_in_range",
              "index_below_minus_n", "index_at_or_above_n"):
        if not d.get("boundary", {}).get(k):
            probs.append(f"boundary {k} never drawn")
    return probs


REQUIRED_SEED = 20261001


def required_cases():
    """A DETERMINISTIC stream (fixed seed, independent of the run's seed and tier) that contains every kind,
    argument form and boundary never_drawn() asks for, so that no seed can trip sanity() on an unchanged tree.
    Greedy cover: cases are drawn from a fixed-seed generator and kept when they add a kind not yet covered."""
    rng = C.Rng(REQUIRED_SEED)
    need = set(never_drawn(stats([], [])))
    kept = []
    for _ in range(8000):
        if not need:
            break
        c = gen_case(rng)
        got = need - set(never_drawn(stats([c], [None])))
        if got:
            kept.append(c)
            need -= got
    return kept


def sanity(cases, obss):
    """Fail-closed distribution check: a run that does not cover the distinctions the property quantifies over
    must not report green."""
    d = stats(cases, obss)
    probs = []
    tot = d["total"]
    if not tot:
        return ["no cases"]
    if d["error_cases"] > 0.3 * tot:
        probs.append(f"{d['error_cases']} of {tot} loaders raise")
    probs += never_drawn(d)
    # the parameter list the call-level Coq model binds positional arguments to must be the live one
    import inspect
    live = [p_ for p_ in inspect.signature(torch.utils.data.DataLoader.__init__).parameters][2:]
    if live != TORCH_PARAMS + TORCH_KWONLY:
        probs.append(f"torch.utils.data.DataLoader signature changed: {live} (coq/Model/LoaderCall.v torch_params)")
    own = list(inspect.signature(DataLoader.__init__).parameters)
    if own != ["self", "dataset", "args", "kwargs"]:
        probs.append(f"torch_frame DataLoader.__init__ signature changed: {own}")
    if d["zero_batches"] > 0.5 * tot:
        probs.append(f"{d['zero_batches']} of {tot} epochs deliver no batch")
    return probs


# ---------------------------------------------------------------------- Coq side
def coq_term(case, obs):
    if "src" not in obs:
        return None
    src_rows = rows_of(obs["src"])
    index_of = {}
    for i, row in enumerate(src_rows):
        index_of.setdefault(canon(row), i)
    toks = [index_of[canon(r)] for r in src_rows]
    nl = lambda xs: C.clist(xs, C.cnat)  # noqa: E731
    if case["src"] == "tf":
        src = f"(SrcFrame {nl(toks)})"
    else:
        tf = f"(Some {nl(toks)})" if case["src"] == "ds" else "None"
        src = f"(SrcDataset {{| ds_df := {nl(toks)}; ds_tf := {tf} |}})"
    if case["batch_sampler"] is not None and case["drop_last"] and "init_exc" not in obs:
        return None      # torch's option check is mirrored by the model but not demanded by the property
    coll = "(Some (fun _ => Some [4999%nat]))" if case["user_collate"] else "None"
    n = eff_n(case)
    allidx = list(case["sampler"] or []) + [i for b in (case["batch_sampler"] or []) for i in b]
    neg = any(i < 0 for i in allidx)                    # the nat-indexed models cannot express these cases
    oob = any(i >= n or i < -n for i in allidx)
    adesc, kdesc = call_desc(case)
    if neg:
        adesc = kdesc = []
    cargs = C.clist(adesc, lambda t: coq_value(t[1], t[2]))
    ckw = C.clist(kdesc, lambda t: f'("{t[0]}"%string, {coq_value(t[1], t[2])})')
    terms = []
    epochs = obs.get("epochs") or [None]
    for ep in epochs:
        if "init_exc" in obs or "exc" in ep:
            o = "None"
            order = list(range(n))
        else:
            if any(b["type"] != "TensorFrame" for b in ep["batches"]):
                bt = [[4999] for _ in ep["batches"]]
            else:
                bt = [[index_of.get(canon(r), 4998) for r in rows_of(b["tf"])] for b in ep["batches"]]
                # a batch whose reported size (len / num_rows / validate) disagrees with the rows it holds
                # is not the model's batch: mark it
                bt = [t if (b["len"] == len(t) and b["num_rows"] == len(t) and b["validate"] is None) else t + [4997]
                      for t, b in zip(bt, ep["batches"])]
            o = f"(Some ({C.clist(bt, nl)}, {C.cnat(obs['len'])}))"
            flat = [t for b in bt for t in b]
            ok = len(index_of) == n and len(set(flat)) == len(flat) and all(t < n for t in flat)
            # the RandomSampler order is an input of the model: witnessed by the observed epoch
            order = flat + sorted(set(range(n)) - set(flat)) if ok else list(range(n))
        if neg:
            smp = "Sequential"
        elif case["batch_sampler"] is not None:
            smp = f"(BatchSampler {C.clist(case['batch_sampler'], nl)})"
        elif case["sampler"] is not None:
            smp = f"(Sampler {nl(case['sampler'])})"
        elif case["shuffle"]:
            smp = f"(Shuffled {nl(order)})"
        else:
            smp = "Sequential"
        kw = (f"{{| kw_batch_size := {C.cnat(case['bs'])}; kw_sampling := {smp}; "
              f"kw_drop_last := {C.cbool(bool(case['drop_last']))}; kw_collate_fn := {coll} |}}")
        if not neg:
            terms.append(f"c10_obs_eqb (c10_run {src} {kw}) {o}")
            # the call-level model: the positional arguments and the keyword dictionary exactly as passed
            terms.append(f"c10_obs_eqb (c10_call_run {src} {cargs} {ckw} {nl(order)}) {o}")
        # the fetch step (range(n)[idx] before collate_fn) on integer indices; torch's option check is not part of it
        if not (case["batch_sampler"] is not None and case["drop_last"]) and not (neg and (o == "None") and not oob):
            zl = lambda xs: C.clist(xs, C.cz)  # noqa: E731
            if case["batch_sampler"] is not None:
                zs = f"(ZBatchSampler {C.clist(case['batch_sampler'], zl)})"
            elif case["sampler"] is not None:
                zs = f"(ZSampler {zl(case['sampler'])})"
            elif case["shuffle"] and n > 0:
                zs = f"(ZShuffled {nl(order)})"
            else:
                zs = "ZSequential"
            oz = "None" if o == "None" else f"(Some {C.clist(bt, nl)})"
            terms.append(f"c10_fetch_eqb (c10_fetch_run {nl(toks)} {C.cnat(case['bs'])} {zs} "
                         f"{C.cbool(bool(case['drop_last']))}) {oz}")
    if not terms:
        return None
    return "(" + " && ".join(terms) + ")"
