"""C12 — feature encoder: shape, column order, finiteness, accepts all materialized data;
lazily configured encoders; rejected stype/encoder pairings."""
from __future__ import annotations

import contextlib
import copy
import json

import torch

import torch_frame
from torch_frame import stype
from torch_frame.data import MultiEmbeddingTensor, MultiNestedTensor
from torch_frame.nn import encoder as E
from torch_frame.nn.base import Module as LazyBase

from harness import common as C
from harness import dfgen as G
from harness import encoders as H

# CLAUSES of the property (properties.jsonl C12), the oracle keys that judge them, the generator kinds that exercise them
CLAUSES = [
    # statement
    "accepts the dataset's TensorFrame and any batch of it (whole, single row, empty, subsets; every index form) "
    "-> keys raises:construct:*, raises:call:<batch kind>; kind=frame, batches all / empty / rows (list) / slice / "
    "tensor (LongTensor) / mask (BoolTensor) / range",
    "returns a finite tensor of shape [batch, total feature columns, channels] -> keys shape, non-finite "
    "(known: inf-cell-non-finite-output); kind=frame, every batch",
    "column names in the same order as the tensor's column axis -> keys names-set, names-vary, names-misaligned; "
    "kind=frame, one perturbation per input column",
    "mapper outputs lie inside the encoders' domain (category index, calendar value, embedding width, missing) -> "
    "keys raises:call:*, raises:call:perturbed, na-strategy-mismatch (statistics wired to their own column); "
    "kind=frame over every stype incl. text/image embedded, extreme dates, rare categories, constant columns",
    "lazily configured encoders behave like eagerly constructed ones -> keys lazy-differs-from-eager, lazy-build, "
    "lazy-rejection, inadmissible-strategy-accepted; kind=lazy (probe: all orders / None / re-assignments / "
    "rejected configurations; encoder: every class)",
    "refuse to run while incompletely specified -> keys lazy-use-before-complete, lazy-refuses-complete; kind=lazy, "
    "a guarded use after every step (call; parameters / children / modules / to / eval via the correspondence)",
    "unsupported stype/encoder pairings rejected at construction -> keys pairing-accepted, pairing-rejected, wiring; "
    "kind=reject (child-stype keys, unsupported classes, stypes absent from the data)",
    # MUST-RAISE demands and the words of the statement that back them (everything else: a raise OR a result
    # satisfying the other clauses is accepted, and the Coq term is not compared on a normal return):
    "pairing-accepted <- 'unsupported stype/encoder pairings are rejected at construction' (the class does not "
    "document the stype; a child-stype key with a class that documents it is NOT backed: either outcome accepted)",
    "lazy-use-before-complete <- 'refuse to run while incompletely specified' (__call__ only; parameters / "
    "children / modules / to / eval on an incomplete module are not demanded to raise)",
    "lazy-rejection / lazy-differs-from-eager (raise at completion) <- 'behave identically to eagerly constructed "
    "ones': the completing assignment raises exactly when the eager constructor raises on the same configuration; "
    "whether an inadmissible NA strategy must be rejected at all is C13's clause, not demanded here",
    # quantifier
    "all encoder classes admissible per stype x NA strategies or none x post-modules x channels x batch selections "
    "-> gen_spec / gen_frame_case; sanity()",
    # signature: case['how'] and encoder kw
    "StypeWiseFeatureEncoder(...) positional vs keyword; fe(tf) vs fe.forward(tf); after .to('cpu') / .cpu(); an "
    "encoder for a stype the data does not have; encoder keyword defaults (n_bins, out_size) and non-defaults "
    "-> stats()['how'], sanity()",
]

# ERROR_PATHS of stypewise_encoder.py, base.py, encoding/*.py and the parts of stype_encoder.py C12 speaks about
ERROR_PATHS = [
    "StypeWiseFeatureEncoder.__init__: child-stype key `raise ValueError` (two messages: parent declared or not) "
    "-> kind=reject with text_embedded / image_embedded keys, with and without the parent; pairing-accepted "
    "(backed when the class does not document the stype), Coq check_init",
    "StypeWiseFeatureEncoder.__init__: `stype not in supported_stypes` raise -> kind=reject; pairing-accepted; "
    "supported_is_documented over the generated table",
    "StypeWiseFeatureEncoder.__init__: `if stype in col_names_dict` (encoder for an absent stype is skipped) -> "
    "how.extra_enc, kind=reject present/absent; wiring, raises:construct",
    "StypeWiseFeatureEncoder.forward: tf.stypes canonical order, per-stype col_names, cat -> kind=frame; "
    "names-misaligned, names-set, Coq check_order",
    "base.Module.__setattr__: `value is not None and key in _missing_attrs`, `not _in_init and fully specified` "
    "-> kind=lazy (None assignments, constructor args, all orders); lazy-build, lazy-use-before-complete",
    "base.Module.validate: `raise ValueError` -> kind=lazy, every step, __call__ (demanded) and parameters / "
    "children / modules / to / eval (correspondence only); lazy-use-before-complete",
    "base.Module._init_modules -> init_modules raising (inadmissible na_strategy, odd out_size, probe value) -> "
    "kind=lazy bad / bad_na / bad_out; lazy-rejection, lazy-differs-from-eager",
    "PositionalEncoding / CyclicEncoding.__init__: odd out_size `raise ValueError` -> kind=lazy encoder bad_out",
    "PositionalEncoding.forward assert >= 0, CyclicEncoding.forward assert in [0, 1] -> kind=frame timestamps "
    "(every batch incl. empty), boundaries single year / single cell; raises:call:*, known "
    "timestamp-na-none-missing-raises; Coq check_time, calendar_table_ok",
    "StypeEncoder.forward: col_names count check, dict feat branch (text_tokenized) -> kind=frame with "
    "text_tokenized columns through LinearModelEncoder; raises:call:*, shape, names-misaligned",
    "LinearModelEncoder: col_to_model_cfg None raise / assert dict -> not drawn (no clause); ndim 1 / 2 / 3 and dict "
    "input branches -> LinearModelEncoder on numerical+categorical / timestamp / embedding+multicategorical / "
    "text_tokenized; raises:call:*, shape",
    "EmbeddingEncoder / bags / LinearEmbeddingEncoder index arithmetic (IndexError / shape errors) -> kind=frame "
    "boundaries (one category, no category, width 1); raises:call:*, Coq check_cat_rows / *_in_domain / check_emb",
]

PROP = "C12"
HEADER = ("From Coq Require Import QArith String.\n"
          "Require Import PF.Gen.Tables PF.Model.LazyModule PF.Model.Encoders.")
MODEL_TARGETS = ["Model/Encoders.vo", "Model/LazyModule.vo"]
SHARD = 60
RULE = ("frame cases: a materialized dataset of C01's generator (1-10 rows, 1-7 columns over numerical / categorical "
        "/ multicategorical / timestamp / embedding / text- and image-embedded stypes, every column with at least "
        "one usable value) x one admissible encoder class per stype x NA strategy or none x post-module x channels "
        "x float64/float32 x batches (whole frame, single rows, empty, subsets); lazy cases: operation sequences "
        "(assignments incl. None and re-assignments, in any order) on a probe module and on every encoder class; "
        "reject cases: stype_encoder_dict with child-stype keys / unsupported pairings; distinct = distinct "
        "(stypes, classes, options, batch kinds, missing pattern) resp. (constructor args, op sequence); "
        "non-trivial = the encoder returned at least one non-empty batch, or an expected rejection")
TRUSTED = [
    "Coq 8.16.1 kernel + vm_compute",
    "hand-written models coq/Model/LazyModule.v (nn/base.py state machine, StypeWiseFeatureEncoder key validation "
    "and concatenation order) and coq/Model/Encoders.v (index arithmetic of the embedding tables, EMB_DIM walk, "
    "positional/cyclic domain assertions), tied to /repo by this run's observational correspondence",
    "coq/Gen/Tables.v regenerated from /repo: stype order and parents, encoder supported_stypes, StypeEncoder "
    "signature and LAZY_ATTRS, TIME_TO_INDEX, CYCLIC_VALUES_NORMALIZATION_CONSTANT",
    "Lib/Calendar.v + Proofs/CalendarFacts.v (component ranges of pandas' .dt fields, validated by C01)",
    "harness/c12.py + harness/encoders.py + harness/dfgen.py (generator, perturbation-based column association)",
]
ASSUMPTIONS = [
    "shapes, finiteness and the column association of the torch outputs are observed, not proved",
    "evaluation mode, CPU; float64 except where LinearBucketEncoder (hard-wired float32 mask) is assigned and for "
    "a share of the other cases",
    "a raise is demanded only where the statement demands one (see CLAUSES): child-stype keys with a class that "
    "documents the stype, guarded entry points other than __call__ on an incomplete module, and the rejection of "
    "an inadmissible NA strategy as such are NOT demanded by C12 (either outcome accepted; not compared with the "
    "model on a normal return)",
    "after a FAILED completion (init_modules rejected the configuration) only 'some raise no later than the first "
    "use, never a result' is demanded; retries / repeated raises on later assignments and the value of "
    "is_fully_specified there are not judged, and the trace is compared with the model only up to that step; known "
    "findings are keyed on the input situation, not on the exception type",
    "a None re-assignment of an attribute that was already supplied is outside the property (the key stays "
    "supplied; the model predicts what happens and the correspondence checks it)",
]

FRAME_STYPES = ["numerical", "categorical", "multicategorical", "timestamp", "embedding", "text_embedded",
                "image_embedded", "text_tokenized"]
PARENT = {"text_embedded": "embedding", "image_embedded": "embedding"}
CLS_OF = {"LinearEncoder", "StackEncoder", "LinearBucketEncoder", "LinearPeriodicEncoder", "ExcelFormerEncoder",
          "EmbeddingEncoder", "MultiCategoricalEmbeddingEncoder", "TimestampEncoder", "LinearEmbeddingEncoder",
          "LinearModelEncoder"}
# documented admissible keys per class (independent of supported_stypes)
DOC_KEYS = {c: [s for s, cl in H.ADMISSIBLE.items() if c in cl] for c in CLS_OF}
DOC_KEYS["LinearModelEncoder"] = DOC_KEYS["LinearModelEncoder"] + ["text_tokenized", "text_embedded"]
ALL_STYPES = [s.value for s in stype]


# ------------------------------------------------------------------ generation
def usable(col):
    st = col["stype"]
    if st == "numerical":
        return any(isinstance(c, float) for c in col["cells"])
    if st == "timestamp":
        return any(isinstance(c, list) for c in col["cells"])
    return any(c is not None for c in col["cells"])


def ensure_usable(rng, desc):
    """The property's premise: every column has at least one non-missing (finite) value."""
    for col in desc["cols"]:
        if usable(col):
            continue
        k = rng.randrange(desc["n"])
        st = col["stype"]
        if st == "numerical":
            col["cells"][k] = G.dyadic(rng)
        elif st == "categorical":
            col["cells"][k] = "a"
        elif st == "multicategorical":
            col["cells"][k] = "a" if col["sep"] else ["a"]
        elif st == "timestamp":
            col["cells"][k] = [rng.randint(1700, 2200), 2, 28, 23, 59, 59]
        else:
            col["cells"][k] = "txt"
    return desc


def gen_spec(rng, st, has_missing_ts, force_cls=None):
    own = [c for c in H.ADMISSIBLE[st] if c != "LinearModelEncoder"]
    cls = "LinearModelEncoder" if rng.chance(0.12) or not own else rng.pick(own)
    if force_cls is not None:
        cls = force_cls
    na = rng.pick(H.NA_ADMISSIBLE[st])
    kw = {}
    if cls == "TimestampEncoder":
        if not rng.chance(0.2):
            kw["out_size"] = rng.pick([2, 4])          # else the default (8)
        strategies = [x for x in H.NA_ADMISSIBLE[st] if x is not None]
        # na_strategy=None together with a missing timestamp is the documented limitation: low rate
        na = None if (not has_missing_ts and rng.chance(0.3)) or rng.chance(0.05) else rng.pick(strategies)
    if cls == "LinearModelEncoder":
        kw["width"] = rng.randint(1, 3)
        if st == "timestamp":
            na = rng.pick([x for x in H.NA_ADMISSIBLE[st] if x is not None])
    if cls == "MultiCategoricalEmbeddingEncoder":
        kw["mode"] = rng.pick(["mean", "sum", "max"])
    if cls == "LinearPeriodicEncoder" and not rng.chance(0.2):
        kw["n_bins"] = rng.randint(1, 4)               # else the default (16)
    return {"cls": cls, "na": na, "post": rng.pick(H.POSTS), "kw": kw}


BOUNDARIES = ["one row", "timestamp: single year", "timestamp: single non-missing cell", "categorical: one category",
              "multicategorical: no category", "numerical: constant column", "numerical: min == first quartile",
              "embedding: width 1", "one non-missing cell per column"]


def apply_boundaries(rng, desc, which):
    """push a generated frame onto the boundaries of the quantified dimensions (every column keeps at least one
    usable value, the property's premise)"""
    n = desc["n"]
    for col in desc["cols"]:
        if col["name"] == desc["target"]:
            continue
        st, cells = col["stype"], col["cells"]
        if st == "timestamp":
            dates = [c for c in cells if isinstance(c, list)]
            if "timestamp: single year" in which and dates:
                y = dates[0][0]
                col["cells"] = [[y] + c[1:3] + c[3:] if isinstance(c, list) else c for c in cells]
                col["cells"] = [[y, c[1], min(c[2], 28)] + c[3:] if isinstance(c, list) else c for c in col["cells"]]
            if "timestamp: single non-missing cell" in which and dates:
                k = next(i for i, c in enumerate(cells) if isinstance(c, list))
                col["cells"] = [c if i == k else None for i, c in enumerate(col["cells"])]
        elif st == "categorical" and "categorical: one category" in which:
            vals = [c for c in cells if c is not None]
            if vals:
                col["cells"] = [vals[0] if c is not None else None for c in cells]
        elif st == "multicategorical" and "multicategorical: no category" in which:
            blank = "" if col["sep"] else []
            col["cells"] = [blank if (c is not None or i == 0) else None for i, c in enumerate(cells)]
        elif st == "numerical":
            vals = [c for c in cells if isinstance(c, float)]
            if "numerical: constant column" in which and vals:
                col["cells"] = [vals[0] if isinstance(c, float) else c for c in cells]
            elif "numerical: min == first quartile" in which and len(vals) >= 2:
                lo = min(vals)
                seen = 0
                out = []
                for c in cells:
                    if isinstance(c, float):
                        seen += 1
                        out.append(lo if seen % 2 else c)
                    else:
                        out.append(c)
                col["cells"] = out
        elif st == "embedding" and "embedding: width 1" in which:
            col["width"] = 1
            col["cells"] = [[c[0]] for c in cells]
        if "one non-missing cell per column" in which and st in ("numerical", "categorical", "multicategorical"):
            keep = next((i for i, c in enumerate(col["cells"]) if c is not None and not isinstance(c, str) or
                         (isinstance(c, str) and st != "numerical")), None)
            if keep is not None:
                col["cells"] = [c if i == keep else None for i, c in enumerate(col["cells"])]
    return desc


NUM_CLASSES = ["LinearEncoder", "StackEncoder", "LinearBucketEncoder", "LinearPeriodicEncoder", "ExcelFormerEncoder"]


def gen_frame_case(rng, tier, k=None):
    """k: running index; every second frame is stratified: it has a numerical column, whose encoder class and
    post-module form cycle through all 5 x 10 combinations (the numerical classes are otherwise drawn rarely)"""
    stypes = FRAME_STYPES + ["numerical", "numerical", "categorical", "multicategorical", "timestamp"]
    which = []
    if rng.chance(0.4):
        which = rng.sample(BOUNDARIES, rng.randint(1, 3))
    strat = k is not None and k % 2 == 0
    for _ in range(8):
        desc = G.gen_frame(rng, stypes=stypes, index_kinds=["range", "range", "offset", "perm"],
                           n=1 if "one row" in which else None)
        if not strat or any(c["stype"] == "numerical" and c["name"] != desc["target"] for c in desc["cols"]):
            break
    desc = ensure_usable(rng, apply_boundaries(rng, desc, which))
    feats = [c for c in desc["cols"] if c["name"] != desc["target"]]
    parents = []
    for c in feats:
        p = PARENT.get(c["stype"], c["stype"])
        if p not in parents:
            parents.append(p)
    missing_ts = any(not isinstance(cell, list) for c in feats if c["stype"] == "timestamp" for cell in c["cells"])
    enc = {p: gen_spec(rng, p, missing_ts) for p in parents}
    if strat and "numerical" in enc:
        enc["numerical"] = gen_spec(rng, "numerical", missing_ts, force_cls=NUM_CLASSES[(k // 2) % 5])
        enc["numerical"]["post"] = H.POSTS[(k // 10) % len(H.POSTS)]
    order = list(enc)
    rng.shuffle(order)
    n = desc["n"]
    batches = [{"t": "all"}, {"t": "empty"}, {"t": "rows", "idx": [rng.randrange(n)]}]
    if rng.chance(0.6):
        batches.append({"t": "rows", "idx": [rng.randrange(n) for _ in range(rng.randint(1, n + 1))]})
    if rng.chance(0.3):
        a = rng.randint(0, n)
        batches.append({"t": "slice", "a": a, "b": rng.randint(a, n)})
    extra = rng.pick(["tensor", "mask", "range", None])
    if extra == "tensor":
        batches.append({"t": "tensor", "idx": [rng.randrange(n) for _ in range(rng.randint(0, n + 1))]})
    elif extra == "mask":
        batches.append({"t": "mask", "m": [rng.chance(0.5) for _ in range(n)]})
    elif extra == "range":
        a = rng.randint(0, n)
        batches.append({"t": "range", "a": a, "b": rng.randint(a, n)})
    absent = [p for p in H.ADMISSIBLE if p not in parents and p != "text_tokenized"]
    how = {"ctor": rng.pick(["pos", "kw"]), "entry": rng.pick(["call", "call", "forward"]),
           "move": rng.pick([None, None, "to", "cpu"]),
           "extra_enc": rng.pick(absent) if absent and rng.chance(0.3) else None}
    f64 = not any(s["cls"] == "LinearBucketEncoder" for s in enc.values()) and not rng.chance(0.2)
    return {"kind": "frame", "how": how, "boundary": which, "desc": desc, "enc": enc, "order": order, "channels": rng.randint(1, 4),
            "f64": f64, "batches": batches, "seed": rng.randint(0, 10 ** 6)}


PROBE_PARAMS = ["p0", "p1", "p2", "p3"]
# the guarded entry points of nn/base.py: __call__, named_parameters, named_children, named_modules, _apply
USES = ["call", "call", "parameters", "children", "modules", "to", "eval"]


def use_probe(kind):
    return {"call": lambda m: m(1), "parameters": lambda m: list(m.parameters()),
            "children": lambda m: list(m.named_children()), "modules": lambda m: list(m.modules()),
            "to": lambda m: m.to("cpu"), "eval": lambda m: m.eval()}[kind]


def gen_ops(rng, keys, lazy, n_ops):
    ops, vid = [], 100
    for _ in range(n_ops):
        k = rng.pick(keys)
        if rng.chance(0.22):
            ops.append([k, None])
        else:
            vid += 1
            ops.append([k, vid])
    return ops


def gen_lazy_case(rng, tier):
    if rng.chance(0.5):
        # the probe module: arbitrary LAZY_ATTRS over four constructor parameters; its init_modules raises
        # when some parameter holds the designated bad value
        lazy = sorted(rng.sample(PROBE_PARAMS, rng.randint(0, 4)))
        args = [None if rng.chance(0.6) else 10 + i for i in range(4)]
        ops = gen_ops(rng, PROBE_PARAMS + ["other"], lazy, rng.randint(0, 8))
        used = [v for v in args if v is not None] + [v for k, v in ops if v is not None and k != "other"]
        bad = rng.pick(used) if used and rng.chance(0.3) else None
        return {"kind": "lazy", "target": "probe", "lazy": lazy, "args": args, "ops": ops, "bad": bad,
                "use": rng.pick(USES)}
    # a real encoder class: the three lazy attributes in any order / interleaving
    cls = rng.pick(sorted(H.CLASSES))
    st = rng.pick(DOC_KEYS[cls][:1] if cls != "LinearModelEncoder" else ["numerical", "categorical"])
    keys = ["out_channels", "stats_list", "stype"]
    eager = [k for k in keys if rng.chance(0.25)]
    rest = [k for k in keys if k not in eager]
    rng.shuffle(rest)
    ops = []
    for k in rest:
        if rng.chance(0.3):
            ops.append([k, None])              # None while still missing: allowed
        ops.append([k, "v"])
        if rng.chance(0.15):
            ops.append([k, "v"])               # re-assignment of the same value
    # an NA strategy the stype does not admit, given to the constructor: init_modules must reject it
    bad_na = None
    if rng.chance(0.25):
        bad_na = rng.pick([x for x in H.ALL_NA if x not in H.NA_ADMISSIBLE[st]])
    # another configuration init_modules rejects: an odd out_size (positional / cyclic encoding raise ValueError)
    bad_out = cls == "TimestampEncoder" and bad_na is None and rng.chance(0.4)
    if rng.chance(0.25) and ops and cls != "TimestampEncoder" and bad_na is None:
        ops.insert(rng.randrange(len(ops) + 1), ["na_strategy", None])
    return {"kind": "lazy", "target": "encoder", "cls": cls, "stype": st, "eager": eager, "ops": ops,
            "bad_na": bad_na or ("odd out_size" if bad_out else None), "bad_out": bad_out, "channels": rng.randint(1, 3), "seed": rng.randint(0, 10 ** 6)}


def gen_reject_case(rng, tier):
    present = rng.sample(["numerical", "categorical", "multicategorical", "timestamp", "embedding"], rng.randint(1, 4))
    d = []
    keys = rng.sample(ALL_STYPES, rng.randint(1, 4))
    good = rng.chance(0.5)
    for k in keys:
        if good or rng.chance(0.5):
            k = k if k in H.ADMISSIBLE else rng.pick(list(H.ADMISSIBLE))
            cls = rng.pick(H.ADMISSIBLE[k])
        else:
            cls = rng.pick(sorted(CLS_OF))
        if k not in [x[0] for x in d]:
            d.append([k, cls])
    return {"kind": "reject", "present": present, "dict": d}


REQUIRED_SEED = 1      # a constant, independent of VERIF_SEED and of the tier (sanity() holds on this stream)


def _stream(rng, tier, nf, nl, nr):
    cases = [gen_frame_case(rng, tier, k) for k in range(nf)]
    cases += [gen_lazy_case(rng, tier) for _ in range(nl)]
    cases += [gen_reject_case(rng, tier) for _ in range(nr)]
    return cases


def required_cases():
    """The deterministic stream every requirement of sanity() is judged on: own constant seed, the same in
    both tiers and under every VERIF_SEED (the run's seed only drives the additional random stream)."""
    return [dict(c, required=True) for c in _stream(C.Rng(REQUIRED_SEED), "quick", 100, 150, 80)]


def generate(rng, tier):
    nf, nl, nr = (35, 50, 30) if tier == "quick" else (4000, 5000, 2500)
    cases = required_cases() + _stream(rng, tier, nf, nl, nr)
    if tier == "thorough":
        cases += exhaustive_lazy()
    return cases


def exhaustive_lazy():
    """all orders of supplying 0..3 lazy attributes with optional None assignments in between (small scope)"""
    import itertools
    out = []
    for nl in range(0, 4):
        lazy = PROBE_PARAMS[:nl]
        for perm in itertools.permutations(lazy):
            for mask in itertools.product([0, 1, 2], repeat=len(perm)):
                ops = []
                for k, m in zip(perm, mask):
                    if m == 1:
                        ops.append([k, None])
                    ops.append([k, 7])
                    if m == 2:
                        ops.append([k, None])       # clobber
                for bad in (None, 7):
                    out.append({"kind": "lazy", "target": "probe", "lazy": list(lazy), "args": [None] * 4,
                                "ops": ops, "bad": bad})
    return out


# ------------------------------------------------------------------------- run
def ctx_of(f64):
    return H.float64() if f64 else contextlib.nullcontext()


def select(tf, b):
    if b["t"] == "all":
        return tf
    if b["t"] == "empty":
        return tf[[]]
    if b["t"] == "rows":
        return tf[b["idx"]]
    if b["t"] == "tensor":
        return tf[torch.tensor(b["idx"], dtype=torch.long)]
    if b["t"] == "mask":
        return tf[torch.tensor(b["m"], dtype=torch.bool)]
    if b["t"] == "range":
        return tf[range(b["a"], b["b"])]
    return tf[b["a"]:b["b"]]


def batch_rows(b, n):
    if b["t"] == "all":
        return list(range(n))
    if b["t"] == "empty":
        return []
    if b["t"] in ("rows", "tensor"):
        return list(b["idx"])
    if b["t"] == "mask":
        return [i for i, v in enumerate(b["m"]) if v]
    return list(range(n))[b["a"]:b["b"]]


def tf_snapshot(tf):
    return {k: H.snapshot(v) for k, v in tf.feat_dict.items()}


def tf_unchanged(tf, snap):
    return all(H.unchanged(v, snap[k]) for k, v in tf.feat_dict.items())


def perturb_column(tf, st, k, stats_row):
    """A TensorFrame equal to tf except for column k of stype st (values stay inside the
    domain the statistics describe)."""
    fd = dict(tf.feat_dict)
    f = fd[st]
    if st == stype.numerical:
        g = f.clone()
        col = g[:, k]
        g[:, k] = torch.where(torch.isnan(col), torch.full_like(col, 0.37 + k), col + 1.5)
    elif st == stype.categorical:
        g = f.clone()
        nc = len(stats_row[G.StatType.COUNT][0])
        col = g[:, k]
        g[:, k] = torch.where(col < 0, torch.zeros_like(col), (col + 1) % nc if nc > 1 else -torch.ones_like(col))
    elif st == stype.timestamp:
        g = f.clone()
        col = g[:, k]
        ok = (col >= 0).all(dim=-1)
        col2 = col.clone()
        col2[:, 0] = col[:, 0] + 1
        col2[:, 1] = (col[:, 1] + 5) % 12
        col2[:, 5] = (col[:, 5] + 7) % 60
        g[:, k] = torch.where(ok.unsqueeze(-1), col2, col)
    elif st == stype.multicategorical:
        nc = len(stats_row[G.StatType.MULTI_COUNT][0])
        mat = []
        for r in range(f.num_rows):
            row = []
            for c in range(f.num_cols):
                cell = f[r, c].tolist()
                if c == k:
                    if cell == [-1]:
                        cell = [0] if nc > 0 else []
                    elif 0 in cell:
                        cell = [v for v in cell if v != 0]
                    elif nc > 0:
                        cell = cell + [0]
                row.append(torch.tensor(cell, dtype=torch.long))
            mat.append(row)
        g = MultiNestedTensor.from_tensor_mat(mat) if mat else f
    elif st == stype.embedding:
        vals = f.values.clone()
        a, b = int(f.offset[k]), int(f.offset[k + 1])
        vals[:, a:b] = vals[:, a:b] + 0.37
        g = MultiEmbeddingTensor(num_rows=f.num_rows, num_cols=f.num_cols, values=vals, offset=f.offset)
    elif st == stype.text_tokenized:
        g = {}
        for key, t in f.items():                # same cells, column k gets one more token
            mat = [[torch.cat([t[r, c], t[r, c].new_tensor([1 if key == "attention_mask" else 7])]) if c == k
                    else t[r, c] for c in range(t.num_cols)] for r in range(t.num_rows)]
            g[key] = MultiNestedTensor.from_tensor_mat(mat) if mat else t
    else:
        raise ValueError(st)
    fd[st] = g
    return torch_frame.TensorFrame(fd, tf.col_names_dict, tf.y)


def impute_frame(case, tf, col_stats):
    fd = dict(tf.feat_dict)
    touched = False
    for st, f in tf.feat_dict.items():
        spec = case["enc"][st.value]
        na = spec["na"]
        if na is None:
            continue
        names = tf.col_names_dict[st]
        touched = True
        if st == stype.numerical:
            g = f.clone()
            for k, nm in enumerate(names):
                fill = col_stats[nm][G.StatType.MEAN] if na == "MEAN" else 0.0
                g[:, k] = torch.where(torch.isnan(g[:, k]), torch.full_like(g[:, k], fill), g[:, k])
        elif st == stype.categorical:
            g = torch.where(f == -1, torch.zeros_like(f), f)
        elif st == stype.timestamp:
            key = {"OLDEST_TIMESTAMP": G.StatType.OLDEST_TIME, "NEWEST_TIMESTAMP": G.StatType.NEWEST_TIME,
                   "MEDIAN_TIMESTAMP": G.StatType.MEDIAN_TIME}[na]
            g = f.clone()
            for k, nm in enumerate(names):
                bad = (g[:, k] == -1).any(dim=-1)
                g[bad, k] = col_stats[nm][key].to(g.dtype)
        elif st == stype.multicategorical:
            mat = [[torch.tensor([0 if v == -1 else v for v in f[r, c].tolist()], dtype=torch.long)
                    for c in range(f.num_cols)] for r in range(f.num_rows)]
            g = MultiNestedTensor.from_tensor_mat(mat)
        else:
            continue
        fd[st] = g
    return torch_frame.TensorFrame(fd, tf.col_names_dict, tf.y) if touched else None


def changed_cols(a, b):
    d = ~((a == b) | (torch.isnan(a) & torch.isnan(b)))
    return sorted(set(int(c) for c in d.any(dim=0).any(dim=-1).nonzero().flatten().tolist()))


def run_frame(case):
    desc = case["desc"]
    obs = {"ok": False, "stage": "materialize"}
    stubs = {}
    for c in desc["cols"]:
        if c["stype"] == "text_embedded":
            stubs[c["name"]] = H.TextStub(3)
        elif c["stype"] == "image_embedded":
            stubs[c["name"]] = H.image_stub(2)
    try:
        ds, _ = G.build_dataset(desc, stubs=stubs)
        ds.materialize()
        tf = ds.tensor_frame
    except Exception as ex:
        obs.update(exc=C.exc_name(ex), msg=str(ex)[:300])
        return obs
    names_dict = [(st.value, list(names)) for st, names in tf.col_names_dict.items()]
    obs["names_dict"] = names_dict
    obs["ncols"] = {st.value: int((next(iter(tf.feat_dict[st].values())) if isinstance(tf.feat_dict[st], dict)
                                   else tf.feat_dict[st]).shape[1]) for st in tf.feat_dict}
    obs["stage"] = "construct"
    try:
        torch.manual_seed(case["seed"])
        encs, taps = {}, {}
        for p in case["order"]:
            st = H.st_of(p)
            names = tf.col_names_dict[st]
            dims = [ds.col_stats[nm][G.StatType.EMB_DIM] for nm in names] if p == "embedding" else None
            e, tap = H.build_encoder(case["enc"][p], case["channels"], None, p, col_names=names, emb_dims=dims,
                                     eager=False)
            encs[st] = e
            taps[p] = tap
        how = case.get("how") or {}
        if how.get("extra_enc"):
            # an encoder for a stype the data does not have: legal, never wired
            xp = how["extra_enc"]
            xe, _ = H.build_encoder({"cls": [c for c in H.ADMISSIBLE[xp] if c != "LinearModelEncoder"][0], "na": None,
                                     "post": None, "kw": {}}, case["channels"], None, xp, eager=False)
            encs[H.st_of(xp)] = xe
        if how.get("ctor") == "kw":
            fe = E.StypeWiseFeatureEncoder(out_channels=case["channels"], col_stats=ds.col_stats,
                                           col_names_dict=tf.col_names_dict, stype_encoder_dict=encs)
        else:
            fe = E.StypeWiseFeatureEncoder(case["channels"], ds.col_stats, tf.col_names_dict, encs)
        if how.get("move") == "to":
            fe = fe.to("cpu")
        elif how.get("move") == "cpu":
            fe = fe.cpu()

        H.randomize(fe, case["seed"])
        fe.eval()
        if how.get("entry") == "forward":
            fe = fe.forward
    except Exception as ex:
        obs.update(exc=C.exc_name(ex), msg=str(ex)[:300], tb=C.fmt_exc())
        return obs
    obs["stage"] = "call"
    obs["ok"] = True
    outs = []
    first = None
    for b in case["batches"]:
        rec = {"batch": b}
        try:
            sub = select(tf, b)
            snap = tf_snapshot(sub)
            with torch.no_grad():
                x, names = fe(sub)
            rec.update(ok=True, shape=list(x.shape), names=list(names), finite=bool(torch.isfinite(x).all()),
                       floating=bool(x.is_floating_point()), mutated=not tf_unchanged(sub, snap), rows=sub.num_rows)
            if first is None and x.shape[0] > 0:
                first = (sub, x, list(names))
        except Exception as ex:
            rec.update(ok=False, exc=C.exc_name(ex), msg=str(ex)[:300], tb=C.fmt_exc())
        outs.append(rec)
    obs["batches"] = outs
    # which output column moves when one input column is perturbed (first non-empty batch)
    assoc = []
    if first is not None:
        sub, x, names = first
        for st, cols in sub.col_names_dict.items():
            for k, nm in enumerate(cols):
                try:
                    sub2 = perturb_column(sub, st, k, ds.col_stats[nm])
                    with torch.no_grad():
                        x2, _ = fe(sub2)
                    assoc.append({"stype": st.value, "col": nm, "moved": changed_cols(x, x2)
                                  if x2.shape == x.shape else None})
                except Exception as ex:
                    assoc.append({"stype": st.value, "col": nm, "exc": C.exc_name(ex), "msg": str(ex)[:200]})
    obs["assoc"] = assoc
    # NA strategies at frame level: the twin whose missing cells hold the replacement computed from the
    # dataset's statistic OF THAT COLUMN (looked up by column name) must encode bit-identically
    if first is not None:
        sub, x, names = first
        try:
            twin = impute_frame(case, sub, ds.col_stats)
            if twin is not None:
                with torch.no_grad():
                    x3, _ = fe(twin)
                obs["na_equal"] = bool(H.same(x3, x))
        except Exception as ex:
            obs["na_exc"] = C.exc_name(ex) + ": " + str(ex)[:150]
        # groups of identical embeddings among the categorical cells (before the post-module)
        spec = case["enc"].get("categorical")
        if spec is not None and spec["cls"] == "EmbeddingEncoder" and spec["na"] is None:
            with torch.no_grad():
                fe(sub)
            pre = taps["categorical"].seen
            flat = pre.reshape(-1, pre.shape[-1])
            classes = []
            for i in range(flat.shape[0]):
                classes.append(next(j for j in range(i + 1) if torch.equal(flat[j], flat[i])))
            obs["cat_batch"] = {"cells": sub.feat_dict[stype.categorical].tolist(), "classes": classes}
    # what the mappers emitted + the statistics, for the domain contract on the model side
    data = {}
    st_c, st_m, st_t, st_e = stype.categorical, stype.multicategorical, stype.timestamp, stype.embedding
    if st_c in tf.feat_dict:
        data["cat"] = {"cells": tf.feat_dict[st_c].tolist(),
                       "ncats": [len(ds.col_stats[nm][G.StatType.COUNT][0]) for nm in tf.col_names_dict[st_c]]}
    if st_m in tf.feat_dict:
        f = tf.feat_dict[st_m]
        data["bag"] = {"cells": [[f[r, c].tolist() for c in range(f.num_cols)] for r in range(f.num_rows)],
                       "ncats": [len(ds.col_stats[nm][G.StatType.MULTI_COUNT][0]) for nm in tf.col_names_dict[st_m]]}
    if st_t in tf.feat_dict:
        cs = [ds.col_stats[nm] for nm in tf.col_names_dict[st_t]]
        data["time"] = {"cells": tf.feat_dict[st_t].tolist(),
                        "stats": [{"ymin": int(s[G.StatType.YEAR_RANGE][0]),
                                   "old": s[G.StatType.OLDEST_TIME].tolist(), "new": s[G.StatType.NEWEST_TIME].tolist(),
                                   "med": s[G.StatType.MEDIAN_TIME].tolist()} for s in cs]}
    if st_e in tf.feat_dict:
        f = tf.feat_dict[st_e]
        data["emb"] = {"dims": [int(ds.col_stats[nm][G.StatType.EMB_DIM]) for nm in tf.col_names_dict[st_e]],
                       "width": int(f.values.shape[1])}
    obs["data"] = data
    return obs


class Probe(LazyBase):
    """A lazily configured module whose init_modules records what it sees and rejects (raises on)
    a configuration in which some parameter holds the class's BAD value."""
    BAD = None
    CALLS = None          # class-level log, so that a raising constructor is still observable

    def __init__(self, p0=None, p1=None, p2=None, p3=None):
        super().__init__(p0, p1, p2, p3)

    def init_modules(self):
        snap = [[k, getattr(self, k, None)] for k in PROBE_PARAMS]
        type(self).CALLS.append(snap)
        if type(self).BAD is not None and any(v == type(self).BAD for _, v in snap):
            raise ValueError("rejected configuration")

    def forward(self, x):
        return x


def probe_class(lazy, bad=None):
    return type("ProbeL", (Probe,), {"LAZY_ATTRS": set(lazy), "BAD": bad, "CALLS": []})


def lazy_obs(m, use, raised):
    try:
        use(m)
        ok = True
    except Exception:
        ok = False
    return {"full": bool(m.is_fully_specified), "use_ok": ok, "raised": raised, "fired": copy.deepcopy(type(m).CALLS)}


def run_lazy(case):
    if case["target"] == "probe":
        cls = probe_class(case["lazy"], case.get("bad"))
        use = use_probe(case.get("use", "call"))
        try:
            m = cls(*case["args"])
        except Exception:
            return {"ctor_raised": True, "fired": copy.deepcopy(cls.CALLS), "trace": [], "eager": None}
        trace = [lazy_obs(m, use, False)]
        for k, v in case["ops"]:
            try:
                setattr(m, k, v)
                raised = False
            except Exception:
                raised = True
            trace.append(lazy_obs(m, use, raised))
        # the eager twin: constructed from the values held when init_modules was called
        eager = None
        if cls.CALLS:
            vals = [v for _, v in cls.CALLS[0]]
            cls2 = probe_class(case["lazy"], case.get("bad"))
            try:
                e = cls2(*vals)
                eager = {"raised": False, "full": bool(e.is_fully_specified), "fired": cls2.CALLS}
            except Exception:
                eager = {"raised": True, "fired": cls2.CALLS}
        return {"ctor_raised": False, "trace": trace, "eager": eager}
    with ctx_of(case["cls"] != "LinearBucketEncoder"):
        return run_lazy_encoder(case)


def run_lazy_encoder(case):
    st = case["stype"]
    rng = C.Rng(case["seed"])
    from harness import c13
    stats_j = [c13.gen_stats(rng, st) for _ in range(2)]
    stats = [H.stats_to_lib(s) for s in stats_j]
    cells = [[c13.gen_cell(rng, st, stats_j[j], 0.0) for j in range(2)] for _ in range(2)]
    names = ["a", "b"]
    dims = [s["EMB_DIM"] for s in stats_j] if st == "embedding" else None
    spec = {"cls": case["cls"], "na": None if case["cls"] != "TimestampEncoder" else "MEDIAN_TIMESTAMP", "post": None,
            "kw": {"out_size": 2} if case["cls"] == "TimestampEncoder" else {}}
    if case.get("bad_out"):
        spec["kw"] = {"out_size": 3}
    elif case.get("bad_na"):
        spec["na"] = case["bad_na"]
    vals = {"out_channels": case["channels"], "stats_list": stats, "stype": H.st_of(st), "na_strategy": None}
    base = getattr(E, case["cls"])
    counted = type("Counted" + case["cls"], (base,), {})
    counted._n_init = 0

    def init_modules(self):
        type(self)._n_init += 1
        return base.init_modules(self)
    counted.init_modules = init_modules

    cfg = None
    if case["cls"] == "LinearModelEncoder":
        from torch_frame.config import ModelConfig
        cfg = {nm: ModelConfig(model=H.CellModel(st, 1, 2), out_channels=2) for nm in names}   # shared user models

    def make(eager_keys):
        kw = dict(spec["kw"])
        if cfg is not None:
            kw["col_to_model_cfg"] = cfg
        if spec["na"] is not None:
            kw["na_strategy"] = H.na_of(spec["na"])
        for k in eager_keys:
            kw[k] = vals[k]
        return counted(**kw)

    feat = H.feat_to_lib(st, cells, 2, dims)

    def use(m):
        return m(feat, names)

    def obs_of(m):
        try:
            with torch.no_grad():
                out = use(m)
            ok = True
        except Exception:
            out, ok = None, False
        return {"full": bool(m.is_fully_specified), "use_ok": ok, "n_init": counted._n_init}, out

    trace = []
    torch.manual_seed(case["seed"])
    try:
        m = make(case["eager"])
    except Exception as ex:
        # the constructor itself completed the module and init_modules rejected the configuration
        return {"ctor_raised": True, "n_init": counted._n_init, "trace": [], "exc": None, "msg": str(ex)[:150]}
    o, _ = obs_of(m)
    o["raised"] = False
    trace.append(o)
    exc = None
    for k, v in case["ops"]:
        torch.manual_seed(case["seed"])           # the completing assignment initialises from this seed
        raised = False
        try:
            setattr(m, k, None if v is None else vals[k])
        except Exception:
            raised = True                         # init_modules rejected the configuration (any exception type)
        o, out = obs_of(m)
        o["raised"] = raised
        trace.append(o)
    res = {"ctor_raised": False, "trace": trace, "exc": exc}
    if exc is None and m.is_fully_specified and not case.get("bad_na"):
        counted._n_init = 0
        torch.manual_seed(case["seed"])
        e = make(["out_channels", "stats_list", "stype"])
        sd1, sd2 = m.state_dict(), e.state_dict()
        same_sd = sorted(sd1.keys()) == sorted(sd2.keys()) and all(H.same(sd1[k], sd2[k]) for k in sd1)
        with torch.no_grad():
            o1, o2 = use(m.eval()), use(e.eval())
        res["eager"] = {"same_state": bool(same_sd), "same_out": bool(H.same(o1, o2)), "n_init": counted._n_init}
    if case.get("bad_na"):
        try:
            make(["out_channels", "stats_list", "stype"])
            res["eager_rejects"] = False
        except Exception:
            res["eager_rejects"] = True
    return res


def run_reject(case):
    with H.float64():
        desc = {"n": 2, "index": "range", "target": None, "col_order": [], "cols": []}
        mk = {"numerical": [1.0, 2.0], "categorical": ["a", "b"], "multicategorical": [["a"], ["b"]],
              "timestamp": [[2000, 1, 2, 3, 4, 5], [2001, 1, 2, 3, 4, 5]], "embedding": [[1.0], [2.0]]}
        for p in case["present"]:
            desc["cols"].append({"name": "c_" + p, "stype": p, "dtype": "float" if p == "numerical" else "object",
                                 "cells": mk[p], "sep": None, "fmt": None, "width": 1})
            desc["col_order"].append("c_" + p)
        ds, _ = G.build_dataset(desc)
        ds.materialize()
        tf = ds.tensor_frame
        encs = {}
        for k, cls in case["dict"]:
            kw = {}
            if cls == "LinearModelEncoder":
                from torch_frame.config import ModelConfig
                kw["col_to_model_cfg"] = {"c_" + k: ModelConfig(model=H.CellModel(k, 1, 2), out_channels=2)}
            if cls == "TimestampEncoder":
                kw["out_size"] = 2
            encs[H.st_of(k)] = getattr(E, cls)(**kw)
        try:
            E.StypeWiseFeatureEncoder(2, ds.col_stats, tf.col_names_dict, encs)
            wired = [k for k, _ in case["dict"] if encs[H.st_of(k)].is_fully_specified]
            return {"raised": False, "wired": wired, "present": [s.value for s in tf.col_names_dict]}
        except Exception as ex:
            return {"raised": True, "exc": C.exc_name(ex), "msg": str(ex)[:200],
                    "present": [s.value for s in tf.col_names_dict]}


def run(case):
    if case["kind"] == "frame":
        with ctx_of(case["f64"]):
            return run_frame(case)
    if case["kind"] == "lazy":
        return run_lazy(case)
    return run_reject(case)


# ---------------------------------------------------------------------- oracle
def ts_missing_rows(case):
    """rows holding a missing / unparseable timestamp in some timestamp feature column"""
    desc = case["desc"]
    rows = set()
    for c in desc["cols"]:
        if c["stype"] == "timestamp" and c["name"] != desc["target"]:
            for i, cell in enumerate(c["cells"]):
                if not isinstance(cell, list):
                    rows.add(i)
    return rows


def empty_multicat_with_missing(case, rows):
    desc = case["desc"]
    for c in desc["cols"]:
        if c["stype"] == "multicategorical" and c["name"] != desc["target"]:
            toks = [G.tokens_of(cell, c["sep"]) for cell in c["cells"]]
            if all(t is None or len(t) == 0 for t in toks) and any(toks[r] is None for r in rows):
                return True
    return False


def oracle_frame(case, obs):
    if not obs["ok"]:
        if obs["stage"] == "materialize":
            return None                                   # C01's business; counted in stats()
        return dict(key=f"raises:construct:{obs['exc']}", what=f"StypeWiseFeatureEncoder construction raised "
                                                                f"{obs['exc']}: {obs['msg']}", observed=obs.get("tb"))
    desc = case["desc"]
    feats = [c["name"] for c in desc["cols"] if c["name"] != desc["target"]]
    ch = case["channels"]
    ts_spec = case["enc"].get("timestamp")
    miss = ts_missing_rows(case)
    known = None
    for rec in obs["batches"]:
        b = rec["batch"]
        rows = batch_rows(b, desc["n"])
        if not rec["ok"]:
            if (ts_spec is not None and ts_spec["cls"] == "TimestampEncoder" and ts_spec["na"] is None
                    and any(r in miss for r in rows)):      # keyed on the input, whatever is raised
                known = dict(key="timestamp-na-none-missing-raises",
                             what=f"TimestampEncoder(na_strategy=None) raised {rec['exc']} on a batch with a missing "
                                  "timestamp (PositionalEncoding/CyclicEncoding domain assertion)",
                             expected="an embedding per cell", observed=rec["msg"])
                continue
            mc = case["enc"].get("multicategorical")
            if (mc is not None and mc["cls"] == "MultiCategoricalEmbeddingEncoder" and mc["na"] == "ZEROS"
                    and "embedding_bag" in rec["msg"] and empty_multicat_with_missing(case, rows)):
                return dict(key="multicat-zeros-no-category-raises",
                            what="MultiCategoricalEmbeddingEncoder(na_strategy=ZEROS) raised on a multicategorical "
                                 "column that has no category at all (only empty and missing cells): the imputed "
                                 f"index 0 is outside its one-row table ({rec['exc']}: {rec['msg']})",
                            expected="an embedding per cell", observed=rec["msg"])
            return dict(key=f"raises:call:{b['t']}", what=f"the feature encoder raised {rec['exc']} on batch {b}: "
                                                          f"{rec['msg']}", expected="a tensor", observed=rec.get("tb"),
                        classes={k: v["cls"] for k, v in case["enc"].items()})
        if rec["shape"] != [len(rows), len(feats), ch] or not rec["floating"]:
            return dict(key="shape", what=f"batch {b}: output shape {rec['shape']}, expected "
                                          f"[{len(rows)}, {len(feats)}, {ch}]", expected=[len(rows), len(feats), ch],
                        observed=rec["shape"])
        if not rec["finite"]:
            infs = [(c["name"], r) for c in desc["cols"] if c["stype"] == "numerical" and c["name"] != desc["target"]
                    for r in rows if isinstance(c["cells"][r], str)]
            num_post = (case["enc"].get("numerical") or {}).get("post")
            if infs and num_post not in ("layernorm", "seq", "seq_inplace"):   # only normalising post-modules overflow
                # the known finding needs a normalising post-module; without one the clean code stays finite
                return dict(key="inf-cell-non-finite-output:no-post-module",
                            what=f"batch {b}: an infinite numerical cell {infs[0]} gives a non-finite output although "
                                 "no normalising post-module is configured (nan_to_num should have made it finite)",
                            expected="a finite tensor", classes={k: (v["cls"], v["post"]) for k, v in case["enc"].items()})
            if infs:
                return dict(key="inf-cell-non-finite-output",
                            what=f"batch {b}: an infinite numerical cell {infs[0]} is neither imputed nor treated as "
                                 "missing; nan_to_num turns it into +-1.8e308 and the post-module overflows to NaN/inf",
                            expected="a finite tensor", classes={k: (v["cls"], v["post"]) for k, v in case["enc"].items()})
            return dict(key="non-finite", what=f"batch {b}: the output contains NaN or inf",
                        classes={k: v["cls"] for k, v in case["enc"].items()})
        if sorted(rec["names"]) != sorted(feats):
            return dict(key="names-set", what=f"returned names {rec['names']} are not the feature columns {feats}",
                        expected=sorted(feats), observed=rec["names"])
        if rec["mutated"]:
            return dict(key="input-mutated", what="the encoder modified the TensorFrame it was given")
    names = next((r["names"] for r in obs["batches"] if r["ok"]), None)
    for rec in obs["batches"]:
        if rec["ok"] and rec["names"] != names:
            return dict(key="names-vary", what="the returned column names differ between batches of the same frame",
                        expected=names, observed=rec["names"])
    if obs.get("na_equal") is False:
        return dict(key="na-strategy-mismatch", what="missing cells are not encoded like the replacement value computed "
                                                     "from the statistic of their own column (frame-level twin differs)",
                    classes={k: (v["cls"], v["na"]) for k, v in case["enc"].items()})
    for a in obs["assoc"]:
        if "exc" in a:
            return dict(key="raises:call:perturbed", what=f"the encoder raised {a['exc']} after changing column "
                                                          f"{a['col']} within its domain: {a['msg']}")
        if a["moved"] is None:
            return dict(key="shape", what="output shape changed after perturbing a column")
        want = names.index(a["col"])
        if any(j != want for j in a["moved"]):
            return dict(key="names-misaligned",
                        what=f"changing input column {a['col']} ({a['stype']}) moved output columns {a['moved']}, whose "
                             f"returned names are {[names[j] for j in a['moved']]}",
                        expected=[want], observed=a["moved"])
    return known


def consistent_prefix(case):
    """Reference semantics of lazy configuration for sequences that never assign None to an attribute that
    already holds a value: per step (fully specified?, configuration init_modules was called with, does the
    statement raise -- i.e. does that configuration hold the rejected value)."""
    cur = dict(zip(PROBE_PARAMS, case["args"]))
    lazy = set(case["lazy"])
    bad = case.get("bad")
    supplied = {k for k in lazy if cur[k] is not None}
    built = None
    raised = False
    if supplied == lazy:
        built = [[k, cur[k]] for k in PROBE_PARAMS]
        raised = bad is not None and any(v == bad for _, v in built)
    ref = [(supplied == lazy, built, raised)]
    for k, v in case["ops"]:
        if v is None and k in supplied:
            return ref, False                      # clobbering: outside the property
        if k in PROBE_PARAMS:
            cur[k] = v
        if k in lazy and v is not None:
            supplied.add(k)
        raised = False
        if built is None and supplied == lazy:
            built = [[kk, cur[kk]] for kk in PROBE_PARAMS]
            raised = bad is not None and any(x == bad for _, x in built)
        ref.append((supplied == lazy, built, raised))
    return ref, True


def oracle_lazy(case, obs):
    if case["target"] == "probe":
        ref, clean = consistent_prefix(case)
        if obs["ctor_raised"] != ref[0][2]:
            return dict(key="lazy-rejection", what=f"constructor raised={obs['ctor_raised']}, expected {ref[0][2]} "
                                                   f"(init_modules rejects configurations holding {case.get('bad')})")
        if obs["ctor_raised"]:
            if obs["fired"] != [ref[0][1]]:
                return dict(key="lazy-build", what="the raising constructor called init_modules with "
                                                   f"{obs['fired']}", expected=[ref[0][1]], observed=obs["fired"])
            return None
        only_call = case.get("use", "call") == "call"     # the property speaks of running the module
        for i, ((full, built, raised), o) in enumerate(zip(ref, obs["trace"])):
            if (only_call and o["use_ok"] != full and not raised) or o["full"] != full:
                return dict(key="lazy-use-before-complete" if o["use_ok"] and not full else "lazy-refuses-complete",
                            what=f"after step {i}: module complete={full} but is_fully_specified={o['full']}, "
                                 f"a call {'succeeds' if o['use_ok'] else 'raises'}", expected=full, observed=o)
            want = [] if built is None else [built]
            if o["fired"] != want:
                return dict(key="lazy-build", what=f"after step {i}: init_modules ran {len(o['fired'])} time(s) with "
                                                   f"{o['fired']}, expected {want}", expected=want, observed=o["fired"])
            if raised:
                # a FAILED completion: only "some raise no later than the first use" is demanded (for this
                # synthetic module, whose forward needs nothing, a later call may even run); what happens on
                # later assignments (retry, raise again, repair) is not judged
                if not (o["raised"] or not o["use_ok"]):
                    return dict(key="lazy-rejection", what=f"step {i}: init_modules rejected the configuration but "
                                                           "neither the assignment nor the first use raised",
                                expected="a raise", observed=o)
                failed = True
                break
            if o["raised"]:
                return dict(key="lazy-rejection", what=f"step {i} raised although init_modules accepts the "
                                                       "configuration", expected=False, observed=o)
        else:
            failed = False
        if clean and not failed and obs["eager"] is not None and len(obs["trace"]) == len(ref):
            fired = obs["trace"][-1]["fired"]
            bad = case.get("bad")
            want_raise = bad is not None and any(v == bad for _, v in fired[0])
            e = obs["eager"]
            if e["raised"] != want_raise or e["fired"] != fired or (not e["raised"] and not e["full"]):
                return dict(key="lazy-differs-from-eager", what="the eagerly constructed module is built differently",
                            expected=dict(fired=fired, raised=want_raise), observed=e)
        return None
    # encoder classes
    supplied = set(case["eager"])
    need = {"out_channels", "stats_list", "stype"}
    if obs.get("exc"):
        return dict(key=f"lazy-encoder-raises:{case['cls']}", what=f"assigning a lazy attribute raised {obs['exc']}")
    if obs["ctor_raised"]:
        # the eager route itself: whether an inadmissible strategy must be rejected is C13's clause, not C12's
        if not case.get("bad_na"):
            return dict(key="lazy-encoder-raises:" + case["cls"], what=f"{case['cls']} with all attributes given "
                                                                       "raised at construction")
        return None
    # C12 demands that the lazy route behaves identically to the eager one: it must reject exactly when the
    # eagerly constructed encoder (observed) rejects
    bad = bool(case.get("bad_na")) and bool(obs.get("eager_rejects", True))
    steps = [None] + case["ops"]
    was_full = False
    for i, (op, o) in enumerate(zip(steps, obs["trace"])):
        if op is not None and op[1] is not None and op[0] in need:
            supplied.add(op[0])
        full = supplied == need
        completes = full and not was_full
        was_full = full
        if bad and full:
            # a FAILED completion (the eager constructor rejects this configuration): some raise no later than
            # the first use, and never a result; retries / repeated raises on later assignments are not judged
            if o["use_ok"] or (completes and i > 0 and not (o["raised"] or not o["use_ok"])):
                return dict(key="lazy-differs-from-eager",
                            what=f"{case['cls']}(na_strategy={case.get('bad_na')}) on {case['stype']}: after step "
                                 f"{i} the module runs although the eager constructor rejects the same "
                                 "configuration", expected="a raise, never a result", observed=o)
            continue
        if o["raised"]:
            return dict(key=f"lazy-encoder-raises:{case['cls']}",
                        what=f"{case['cls']} on {case['stype']}: step {i} raised although the eager constructor "
                             "accepts the same configuration", expected=False, observed=o)
        runs = full and not bad
        if o["use_ok"] != runs or o["full"] != full:
            return dict(key="lazy-use-before-complete" if o["use_ok"] and not runs else "lazy-refuses-complete",
                        what=f"{case['cls']} after step {i}: complete={full}, rejected={bad}, "
                             f"is_fully_specified={o['full']}, a call {'succeeds' if o['use_ok'] else 'raises'}",
                        expected=runs, observed=o)
        if o["n_init"] != (1 if full else 0):
            return dict(key="lazy-build", what=f"{case['cls']} after step {i}: init_modules ran {o['n_init']} time(s)",
                        expected=1 if full else 0, observed=o["n_init"])
    if case.get("bad_na"):
        return None
    if was_full:
        e = obs.get("eager")
        if e is None or not (e["same_state"] and e["same_out"] and e["n_init"] == 1):
            return dict(key="lazy-differs-from-eager", what=f"{case['cls']} configured lazily (order {case['ops']}) "
                                                            "differs from the eagerly constructed encoder", observed=e)
    return None


def reject_verdict(case):
    """(backed reason to demand a rejection | None, unbacked reason the current code rejects for | None).
    Backed: "unsupported stype/encoder pairings are rejected at construction" -- the class does not document the
    stype.  Unbacked: a child stype used as key with a class that documents it (LinearModelEncoder /
    text_embedded): the code rejects child keys, the statement does not ask for it -> either outcome accepted."""
    unbacked = None
    for k, cls in case["dict"]:
        if k not in DOC_KEYS[cls]:
            return f"{cls} does not encode {k}", unbacked
        if PARENT.get(k):
            unbacked = f"child stype {k} used as a key"
    return None, unbacked


def oracle_reject(case, obs):
    bad, unbacked = reject_verdict(case)
    if bad is None and unbacked is not None:
        return None                                # not demanded by the statement: a raise or a normal return
    if bad and not obs["raised"]:
        return dict(key="pairing-accepted", what=f"stype_encoder_dict {case['dict']} was accepted although {bad}",
                    expected="ValueError", observed=obs)
    if not bad and obs["raised"]:
        return dict(key="pairing-rejected", what=f"admissible stype_encoder_dict {case['dict']} raised {obs['exc']}: "
                                                 f"{obs['msg']}", expected="constructs", observed=obs)
    if not bad:
        want = [k for k, _ in case["dict"] if k in obs["present"]]
        if obs["wired"] != want:
            return dict(key="wiring", what=f"encoders configured for {obs['wired']}, expected {want}")
    return None


def oracle(case, obs):
    if "harness_exc" in obs:
        return dict(key="harness-exc", what="harness failed: " + obs["harness_exc"], tb=obs.get("tb"))
    if case["kind"] == "frame":
        return oracle_frame(case, obs)
    if case["kind"] == "lazy":
        return oracle_lazy(case, obs)
    return oracle_reject(case, obs)


# ------------------------------------------------------------------- shrinking
def shrink(case):
    if case["kind"] == "frame":
        d = case["desc"]
        if len(case["batches"]) > 1:
            for k in range(len(case["batches"])):
                yield dict(case, batches=case["batches"][:k] + case["batches"][k + 1:])
        feats = [c for c in d["cols"] if c["name"] != d["target"]]
        if len(feats) > 1:
            for c in feats:
                rest = [x for x in d["cols"] if x["name"] != c["name"]]
                parents = {PARENT.get(x["stype"], x["stype"]) for x in rest if x["name"] != d["target"]}
                yield dict(case, desc=dict(d, cols=rest, col_order=[n for n in d["col_order"] if n != c["name"]]),
                           enc={k: v for k, v in case["enc"].items() if k in parents},
                           order=[k for k in case["order"] if k in parents])
        if d["n"] > 1:
            for k in range(d["n"]):
                cols = [dict(c, cells=c["cells"][:k] + c["cells"][k + 1:]) for c in d["cols"]]
                if all(usable(c) for c in cols if c["name"] != d["target"]):
                    bs = []
                    for b in case["batches"]:
                        if b["t"] == "rows":
                            b = dict(b, idx=[i - (i > k) for i in b["idx"] if i != k] or [0])
                        elif b["t"] == "slice":
                            b = {"t": "all"}
                        bs.append(b)
                    yield dict(case, desc=dict(d, n=d["n"] - 1, cols=cols), batches=bs)
        for k, v in case["enc"].items():
            if v["post"] is not None:
                yield dict(case, enc=dict(case["enc"], **{k: dict(v, post=None)}))
    elif case["kind"] == "lazy":
        for k in range(len(case["ops"])):
            yield dict(case, ops=case["ops"][:k] + case["ops"][k + 1:])
    else:
        if len(case["dict"]) > 1:
            for k in range(len(case["dict"])):
                yield dict(case, dict=case["dict"][:k] + case["dict"][k + 1:])


def nontrivial_sig(case, obs):
    if case["kind"] == "frame":
        if not obs.get("ok") or not any(r.get("ok") and r["shape"][0] > 0 for r in obs["batches"]):
            return None
        d = case["desc"]
        return json.dumps([d["n"], sorted((c["stype"], tuple(x is None for x in c["cells"])) for c in d["cols"]),
                           sorted((k, v["cls"], str(v["na"]), str(v["post"]), json.dumps(v["kw"], sort_keys=True))
                                  for k, v in case["enc"].items()), case["channels"], case["f64"],
                           [b["t"] for b in case["batches"]]], default=str)
    if case["kind"] == "lazy":
        return json.dumps(["lazy", case["target"], case.get("cls"), case.get("lazy"), case.get("args"),
                           case.get("eager"), case["ops"], case.get("bad"), case.get("bad_na")])
    return json.dumps(["reject", case["present"], case["dict"]])


def stats(cases, obss):
    d = {"kinds": {}, "classes": {}, "na": {}, "batches": {}, "batch_errors": 0, "materialize_failed": 0,
         "columns_perturbed": 0, "columns_moved": 0, "lazy_targets": {}, "lazy_ops": 0, "reject_raised": 0,
         "f64": 0, "total": 0, "how": {}, "kw_defaults": 0, "lazy_uses": {}, "boundaries": {}, "posts": {},
         "inplace_post_by_class": {}, "channels": {}, "lazy_rejected_by": {}, "stypes": {}}
    for c, o in zip(cases, obss):
        if c is None:
            continue
        d["total"] += 1
        d["kinds"][c["kind"]] = d["kinds"].get(c["kind"], 0) + 1
        if c["kind"] == "frame":
            d["f64"] += bool(c["f64"])
            for k, v in (c.get("how") or {}).items():
                v = bool(v) if k == "extra_enc" else v
                d["how"][f"{k}={v}"] = d["how"].get(f"{k}={v}", 0) + 1
            d["kw_defaults"] += any((v["cls"] == "LinearPeriodicEncoder" and "n_bins" not in v["kw"]) or
                                    (v["cls"] == "TimestampEncoder" and "out_size" not in v["kw"])
                                    for v in c["enc"].values())
            for b in BOUNDARIES:
                d["boundaries"][b] = d["boundaries"].get(b, 0) + (b in (c.get("boundary") or []))
            d["channels"][c["channels"]] = d["channels"].get(c["channels"], 0) + 1
            for col in c["desc"]["cols"]:
                if col["name"] != c["desc"]["target"]:
                    d["stypes"][col["stype"]] = d["stypes"].get(col["stype"], 0) + 1
            for k, v in c["enc"].items():
                d["posts"][str(v["post"])] = d["posts"].get(str(v["post"]), 0) + 1
                if v["post"] in H.INPLACE_POSTS:
                    d["inplace_post_by_class"][v["cls"]] = d["inplace_post_by_class"].get(v["cls"], 0) + 1
            for k, v in c["enc"].items():
                d["classes"][v["cls"]] = d["classes"].get(v["cls"], 0) + 1
                d["na"][str(v["na"])] = d["na"].get(str(v["na"]), 0) + 1
            if not o.get("ok"):
                d["materialize_failed"] += o.get("stage") == "materialize"
                continue
            for r in o["batches"]:
                d["batches"][r["batch"]["t"]] = d["batches"].get(r["batch"]["t"], 0) + 1
                d["batch_errors"] += not r["ok"]
            for a in o["assoc"]:
                d["columns_perturbed"] += 1
                d["columns_moved"] += bool(a.get("moved"))
        elif c["kind"] == "lazy":
            d["lazy_targets"][c["target"]] = d["lazy_targets"].get(c["target"], 0) + 1
            why = "odd out_size" if c.get("bad_out") else ("na_strategy" if c.get("bad_na") else
                                                          ("probe value" if c.get("bad") is not None else None))
            if why:
                d["lazy_rejected_by"][why] = d["lazy_rejected_by"].get(why, 0) + 1
            if c["target"] == "probe":
                d["lazy_uses"][c.get("use", "call")] = d["lazy_uses"].get(c.get("use", "call"), 0) + 1
            d["lazy_ops"] += len(c["ops"])
        else:
            d["reject_raised"] += bool(o.get("raised"))
    return d


def sanity(cases, obss):
    """Fail-closed distribution check: every case kind, every encoder class, every batch kind, rejecting and
    non-rejecting lazy sequences and both rejection outcomes must be drawn; failing frames stay a minority."""
    # judged on the deterministic required stream alone (seed-independent by construction)
    req = [(c, o) for c, o in zip(cases, obss) if c is not None and c.get("required")]
    cases, obss = [c for c, _ in req], [o for _, o in req]
    d = stats(cases, obss)
    probs = []
    for k in ("frame", "lazy", "reject"):
        if d["kinds"].get(k, 0) == 0:
            probs.append(f"case kind {k} never drawn")
    nf = d["kinds"].get("frame", 0)
    if nf >= 100:
        for cls in sorted(CLS_OF):
            if d["classes"].get(cls, 0) == 0:
                probs.append(f"encoder class {cls} never assigned in a frame case")
        for b in ("all", "empty", "rows", "slice", "tensor", "mask", "range"):
            if d["batches"].get(b, 0) == 0:
                probs.append(f"batch kind {b} never drawn")
        for hv in ("ctor=pos", "ctor=kw", "entry=call", "entry=forward", "move=None", "move=to", "move=cpu",
                   "extra_enc=True", "extra_enc=False"):
            if d["how"].get(hv, 0) == 0:
                probs.append(f"calling convention {hv} never drawn")
        if d["kw_defaults"] == 0:
            probs.append("default n_bins / out_size never drawn")
        for b, cnt in d["boundaries"].items():
            if cnt == 0:
                probs.append(f"boundary never drawn: {b}")
        if d["channels"].get(1, 0) == 0:
            probs.append("out_channels = 1 never drawn")
        for st_ in FRAME_STYPES:
            if d["stypes"].get(st_, 0) == 0:
                probs.append(f"no feature column of stype {st_} drawn")
        for p_ in H.POSTS:
            if d["posts"].get(str(p_), 0) == 0:
                probs.append(f"post-module form {p_} never drawn")
        for cls in sorted(CLS_OF):
            if d["inplace_post_by_class"].get(cls, 0) == 0:
                probs.append(f"no in-place post-module drawn for {cls}")
        if d["materialize_failed"] > 0.2 * nf:
            probs.append(f"{d['materialize_failed']} of {nf} frames fail to materialize")
        nb = sum(d["batches"].values())
        if nb and d["batch_errors"] > 0.2 * nb:
            probs.append(f"{d['batch_errors']} of {nb} batches raise")
        if d["columns_perturbed"] and d["columns_moved"] < 0.5 * d["columns_perturbed"]:
            probs.append("fewer than half of the perturbed input columns moved an output column")
    lz = [(c, o) for c, o in zip(cases, obss) if c is not None and c["kind"] == "lazy" and "trace" in (o or {})]
    if len(lz) >= 100:
        for t in ("probe", "encoder"):
            if d["lazy_targets"].get(t, 0) == 0:
                probs.append(f"lazy target {t} never drawn")
        for u in set(USES):
            if d["lazy_uses"].get(u, 0) == 0:
                probs.append(f"guarded entry point {u} never used on a lazily configured module")
        rej = sum(1 for c, o in lz if o.get("ctor_raised") or any(st.get("raised") for st in o["trace"]))
        done = sum(1 for c, o in lz if o["trace"] and o["trace"][-1]["full"] and not o.get("ctor_raised"))
        if rej == 0:
            probs.append("no lazy sequence ends in a configuration init_modules rejects")
        for why in ("odd out_size", "na_strategy", "probe value"):
            if d["lazy_rejected_by"].get(why, 0) == 0:
                probs.append(f"no lazily configured module rejected because of: {why}")
        if done == 0:
            probs.append("no lazy sequence completes a module")
        if not any(o["trace"] and not o["trace"][-1]["full"] for c, o in lz):
            probs.append("no lazy sequence leaves the module incomplete")
    nr = d["kinds"].get("reject", 0)
    if nr >= 50 and (d["reject_raised"] == 0 or d["reject_raised"] == nr):
        probs.append("stype_encoder_dict cases are all accepted or all rejected")
    return probs


# -------------------------------------------------------------------- Coq side
def cs(s):
    return C.cstr(s)


def coq_names_dict(nd):
    return C.clist(nd, lambda p: f"({H.cstype(p[0])}, {C.clist(p[1], cs)})")


def coq_time_stats(s):
    zl = lambda l: C.clist(l, C.cz)  # noqa: E731
    return f"(qcs XNaN XNaN [] 0%nat {C.cz(s['ymin'])} {zl(s['old'])} {zl(s['new'])} {zl(s['med'])} 0%nat)"


def coq_term(case, obs):
    if "harness_exc" in obs:
        return None
    if case["kind"] == "frame":
        if not obs.get("ok"):
            return None
        good = [r for r in obs["batches"] if r["ok"]]
        parts = []
        if good:
            names = good[0]["names"]
            moved = [(a["col"], a["moved"][0]) for a in obs["assoc"] if a.get("moved") and len(a["moved"]) == 1]
            fd = C.clist(sorted(obs["ncols"].items()), lambda p: f"({H.cstype(p[0])}, {p[1]}%nat)")
            parts.append(f"check_order {coq_names_dict(obs['names_dict'])} {fd} {C.clist(names, cs)} "
                         + C.clist(moved, lambda p: f"({cs(p[0])}, {p[1]}%nat)"))
            # the same through the offsets of torch.cat(dim=1) (hcat_position): input column k of stype s moved
            # output column col_position(s, k)
            nd = dict(obs["names_dict"])
            mv = [(a["stype"], nd[a["stype"]].index(a["col"]), a["moved"][0]) for a in obs["assoc"]
                  if a.get("moved") and len(a["moved"]) == 1]
            parts.append(f"check_position {fd} "
                         + C.clist(mv, lambda m: f"(({H.cstype(m[0])}, {m[1]}%nat), {m[2]}%nat)"))
        data = obs["data"]
        zmat = lambda m: C.clist(m, lambda row: C.clist(row, C.cz))  # noqa: E731
        if "cat" in data:
            parts.append(f"cat_in_domain {C.clist(data['cat']['ncats'], C.cnat)} {zmat(data['cat']['cells'])}")
        if "cat_batch" in obs and "cat" in data:
            parts.append(f"check_cat_rows {C.clist(data['cat']['ncats'], C.cnat)} {zmat(obs['cat_batch']['cells'])} "
                         + C.clist(obs["cat_batch"]["classes"], C.cnat))
        if "bag" in data:
            parts.append(f"bag_in_domain {C.clist(data['bag']['ncats'], C.cnat)} "
                         + C.clist(data["bag"]["cells"], lambda row: C.clist(row, lambda c: C.clist(c, C.cz))))
        if "emb" in data:
            parts.append(f"check_emb {C.clist(data['emb']['dims'], C.cnat)} {data['emb']['width']}%nat")
        ts = case["enc"].get("timestamp")
        b0 = obs["batches"][0]
        if ("time" in data and ts is not None and ts["cls"] == "TimestampEncoder" and case["batches"][0]["t"] == "all"
                and (b0["ok"] or (ts["na"] is None and bool(ts_missing_rows(case))))):
            raised = not b0["ok"]
            parts.append(f"check_time {H.cna(ts['na'])} {C.clist(data['time']['stats'], coq_time_stats)} "
                         + C.clist(data["time"]["cells"], lambda row: C.clist(row, lambda c: C.clist(c, C.cz)))
                         + f" {C.cbool(raised)}")
        return "(" + " && ".join(f"({p})" for p in parts) + ")" if parts else None
    if case["kind"] == "lazy":
        copt_nat = lambda v: C.copt(v, C.cnat)  # noqa: E731
        if case["target"] != "probe":
            # the encoder classes share the generated signature: same state machine, values are opaque ids;
            # id 6 stands for the inadmissible na_strategy that init_modules rejects
            keys = ["out_channels", "stats_list", "stype", "post_module", "na_strategy"]
            ids = {"out_channels": 1, "stats_list": 2, "stype": 3}
            args = [ids[k] if k in case["eager"] else None for k in keys[:3]] + [4, None]
            if case["cls"] == "TimestampEncoder":
                args[4] = 5
            if case.get("bad_na"):
                args[4] = 6
            bad = "(Some 6%nat)" if case.get("bad_na") else "None"
            ops = [(k, None if v is None else ids.get(k, 9)) for k, v in case["ops"]]
            if obs.get("exc"):
                return None
            if case.get("bad_na") and not obs["ctor_raised"] and not any(o["raised"] for o in obs["trace"]):
                return None  # rejecting an inadmissible strategy is C13's clause: not compared on a normal return
            ctor = (f"construct nat stype_encoder_params stype_encoder_lazy_attrs (probe_init_ok {bad}) "
                    f"{C.clist(args, copt_nat)}")
            if obs["ctor_raised"] and set(case["eager"]) != {"out_channels", "stats_list", "stype"}:
                return None  # a rejected configuration refused before completion (fail fast): not fixed by C12
            if obs["ctor_raised"]:
                return f"(is_raised ({ctor}) && Nat.eqb (List.length (fired (state_of ({ctor})))) {obs['n_init']}%nat)"
            # the state machine is compared with the model only up to (excluding) a failed completion: what a
            # module does after init_modules rejected its configuration is not fixed by the property
            cut = next((i for i, o in enumerate(obs["trace"]) if o["raised"]), len(obs["trace"]))
            trace, ops = obs["trace"][:cut], ops[:max(cut - 1, 0)]
            tr = C.clist(trace, lambda o: f"((({C.cbool(o['full'])}, {C.cbool(o['use_ok'])}), "
                                          f"{C.cbool(o['raised'])}), {o['n_init']}%nat)")
            model = (f"map (lazy_enc_obs {bad}) (lazy_trace stype_encoder_params stype_encoder_lazy_attrs {bad} "
                     f"{C.clist(args, copt_nat)} "
                     + C.clist(ops, lambda p: f"({cs(p[0])}, {copt_nat(p[1])})") + ")")
            return f"lazy_enc_trace_eqb ({model}) {tr}"
        snap = lambda sn: C.clist(sn, lambda kv: f"({cs(kv[0])}, {copt_nat(kv[1])})")  # noqa: E731
        bad = C.copt(case.get("bad"), C.cnat)
        if obs["ctor_raised"]:
            ctor = (f"construct nat {C.clist(PROBE_PARAMS, cs)} {C.clist(case['lazy'], cs)} (probe_init_ok {bad}) "
                    f"{C.clist(case['args'], copt_nat)}")
            return (f"(is_raised ({ctor}) && list_eqb (list_eqb (pair_eqb String.eqb (opt_eqb Nat.eqb))) "
                    f"(fired (state_of ({ctor}))) {C.clist(obs['fired'], snap)})")
        if case.get("use", "call") != "call" and any(o["use_ok"] and not o["full"] for o in obs["trace"]):
            return None      # only "refuses to RUN" is demanded; the model mirrors the code's other guards
        cut = next((i for i, o in enumerate(obs["trace"]) if o["raised"]), len(obs["trace"]))
        trace, pops = obs["trace"][:cut], case["ops"][:max(cut - 1, 0)]
        tr = C.clist(trace, lambda o: f"((({C.cbool(o['full'])}, {C.cbool(o['use_ok'])}), "
                                      f"{C.cbool(o['raised'])}), {C.clist(o['fired'], snap)})")
        return (f"lazy_trace_eqb (lazy_trace {C.clist(PROBE_PARAMS, cs)} {C.clist(case['lazy'], cs)} {bad} "
                f"{C.clist(case['args'], copt_nat)} "
                + C.clist(pops, lambda p: f"({cs(p[0])}, {copt_nat(p[1])})") + f") {tr}")
    # reject
    bad, unbacked = reject_verdict(case)
    if bad is None and unbacked is not None and not obs["raised"]:
        return None          # the model mirrors the current code's (unbacked) raise: not compared on a normal return
    d = C.clist(case["dict"], lambda p: f"({H.cstype(p[0])}, enc_{p[1]})")
    keys = C.clist(obs["present"], H.cstype)
    wired = C.clist(obs.get("wired", []), H.cstype)
    return f"check_init {keys} {d} {C.cbool(obs['raised'])} {wired}"
