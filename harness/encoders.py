"""Helper shared by harness/c12.py and harness/c13.py: construction of the stype
encoders from JSON specs, float64 context, a recording post-module, parameter
randomisation, tensor <-> JSON conversion of encoder inputs, exact dyadic
fractions, Coq literal printers for the encoder models.

Nothing here reads an encoder's internals by name: parameters are reached only
through `parameters()` / `modules()`, the value entering the post-module through
a user-supplied post-module (public API)."""
from __future__ import annotations

import contextlib
import copy
import math
from fractions import Fraction

import torch

import torch_frame
from torch_frame import NAStrategy, stype
from torch_frame.config import ModelConfig
from torch_frame.data import MultiEmbeddingTensor, MultiNestedTensor
from torch_frame.data.stats import StatType
from torch_frame.nn import encoder as E

from harness import common as C

# ----------------------------------------------------------------------------
CLASSES = ["EmbeddingEncoder", "MultiCategoricalEmbeddingEncoder", "LinearEncoder", "LinearBucketEncoder",
           "LinearPeriodicEncoder", "ExcelFormerEncoder", "StackEncoder", "LinearEmbeddingEncoder",
           "LinearModelEncoder", "TimestampEncoder"]
# what the documentation says each class is for (the admissible assignments of C12's quantifier)
ADMISSIBLE = {
    "numerical": ["LinearEncoder", "StackEncoder", "LinearBucketEncoder", "LinearPeriodicEncoder",
                  "ExcelFormerEncoder", "LinearModelEncoder"],
    "categorical": ["EmbeddingEncoder", "LinearModelEncoder"],
    "multicategorical": ["MultiCategoricalEmbeddingEncoder", "LinearModelEncoder"],
    "timestamp": ["TimestampEncoder", "LinearModelEncoder"],
    "embedding": ["LinearEmbeddingEncoder", "LinearModelEncoder"],
    "text_tokenized": ["LinearModelEncoder"],
}
# documented strategy/stype table (property text of C13)
NA_ADMISSIBLE = {
    "numerical": [None, "MEAN", "ZEROS"],
    "categorical": [None, "MOST_FREQUENT"],
    "multicategorical": [None, "ZEROS"],
    "timestamp": [None, "OLDEST_TIMESTAMP", "NEWEST_TIMESTAMP", "MEDIAN_TIMESTAMP"],
    "embedding": [None],
    "text_tokenized": [None],
}
ALL_NA = ["MEAN", "MOST_FREQUENT", "ZEROS", "OLDEST_TIMESTAMP", "NEWEST_TIMESTAMP", "MEDIAN_TIMESTAMP"]
# every form a shape-preserving post-module takes: none, out-of-place, IN-PLACE (the module writes into the
# tensor it is given), Sequential mixes, a user Module that writes into its input
POSTS = [None, "relu", "tanh", "layernorm", "seq", "relu_inplace", "hardtanh_inplace", "dropout_inplace",
         "seq_inplace", "user_inplace"]
INPLACE_POSTS = {"relu_inplace", "hardtanh_inplace", "dropout_inplace", "seq_inplace", "user_inplace"}


class UserInplace(torch.nn.Module):
    """a user post-module that works in place on the tensor it is given"""

    def forward(self, x):
        x.mul_(0.5)
        x.clamp_(min=-3.0)
        return x
STYPE_ORDER_DOC = None   # the oracle never assumes an order


@contextlib.contextmanager
def float64():
    torch.set_default_dtype(torch.float64)
    try:
        yield
    finally:
        torch.set_default_dtype(torch.float32)


def na_of(name):
    return None if name is None else NAStrategy[name]


def st_of(name):
    return getattr(torch_frame, name)


class Tap(torch.nn.Module):
    """User-supplied post-module that records what it is given (the encoder's
    output 'before any post-module') and then applies `inner`."""

    def __init__(self, inner=None):
        super().__init__()
        self.inner = inner
        self.seen = None

    def forward(self, x):
        self.seen = x.detach().clone()
        return x if self.inner is None else self.inner(x)


def make_post(kind, channels):
    if kind is None:
        return None
    if kind == "relu":
        return torch.nn.ReLU()
    if kind == "tanh":
        return torch.nn.Tanh()
    if kind == "layernorm":
        return torch.nn.LayerNorm(channels)
    if kind == "seq":
        return torch.nn.Sequential(torch.nn.ReLU(), torch.nn.LayerNorm(channels))
    if kind == "relu_inplace":
        return torch.nn.ReLU(inplace=True)
    if kind == "hardtanh_inplace":
        return torch.nn.Hardtanh(inplace=True)
    if kind == "dropout_inplace":
        return torch.nn.Dropout(0.5, inplace=True)          # identity in eval mode
    if kind == "seq_inplace":
        return torch.nn.Sequential(torch.nn.ReLU(inplace=True), torch.nn.LayerNorm(channels))
    if kind == "user_inplace":
        return UserInplace()
    raise ValueError(kind)


class CellModel(torch.nn.Module):
    """A user model for LinearModelEncoder: maps a single-column input of shape
    [B, 1, *] to [B, 1, width], row by row."""

    def __init__(self, st, in_dim, width):
        super().__init__()
        self.st = st
        self.in_dim = max(in_dim, 1)
        self.lin = torch.nn.Linear(self.in_dim, width)

    def forward(self, x):
        if isinstance(x, dict):                 # text_tokenized: {input_ids, attention_mask} of [B, 1] ragged
            ids = x["input_ids"]
            cnt = (ids.offset[1:] - ids.offset[:-1]).to(torch.get_default_dtype())
            tot = torch.stack([ids[r, 0].sum() if ids.num_rows else ids.values.sum() for r in range(ids.num_rows)]) \
                if ids.num_rows else cnt
            v = (cnt + 0.01 * tot.to(cnt.dtype)).reshape(ids.num_rows, 1, 1)
            return self.lin(v)
        if isinstance(x, MultiEmbeddingTensor):
            v = x.values.reshape(x.num_rows, 1, self.in_dim)
        elif isinstance(x, MultiNestedTensor):
            cnt = (x.offset[1:] - x.offset[:-1]).to(torch.get_default_dtype())
            v = cnt.reshape(x.num_rows, 1, 1)
        else:
            v = x.to(torch.get_default_dtype())
        return self.lin(v)


def stats_to_lib(sj):
    """JSON statistics of one column -> dict[StatType, value] as Dataset.col_stats holds them."""
    out = {}
    for k, v in sj.items():
        kk = StatType[k]
        if k in ("MEAN", "STD"):
            out[kk] = float("nan") if v is None else float(v)
        elif k == "QUANTILES":
            out[kk] = [float("nan") if x is None else float(x) for x in v]
        elif k in ("COUNT", "MULTI_COUNT"):
            out[kk] = (list(v[0]), list(v[1]))
        elif k == "YEAR_RANGE":
            out[kk] = [int(v[0]), int(v[1])]
        elif k in ("OLDEST_TIME", "NEWEST_TIME", "MEDIAN_TIME"):
            out[kk] = torch.tensor([int(x) for x in v], dtype=torch.long)
        elif k == "EMB_DIM":
            out[kk] = int(v)
        else:
            raise ValueError(k)
    return out


def build_encoder(spec, channels, stats_list, st, col_names=None, emb_dims=None, eager=True, ctor="kw", tap=True):
    """spec = {"cls", "na", "post", "kw"}.  Returns (encoder, tap).  `stats_list`
    holds library-form statistics.  With eager=False the three lazy attributes are
    left unset."""
    cls = getattr(E, spec["cls"])
    # tap=False: the post-module is handed over as the user would (None or the bare module)
    tap = Tap(make_post(spec.get("post"), channels)) if tap else make_post(spec.get("post"), channels)
    kw = dict(spec.get("kw") or {})
    if spec["cls"] == "LinearModelEncoder":
        width = kw.pop("width", 3)
        cfg = {}
        for j, name in enumerate(col_names):
            if st in ("numerical", "categorical", "multicategorical", "text_tokenized"):
                d = 1
            elif st == "timestamp":
                d = 7
            else:
                d = emb_dims[j]
            cfg[name] = ModelConfig(model=CellModel(st, d, width), out_channels=width)
        kw["col_to_model_cfg"] = cfg
    if spec["cls"] == "TimestampEncoder" or spec.get("na") is not None:
        kw["na_strategy"] = na_of(spec.get("na"))
    if eager and ctor == "pos":
        # the five base-class parameters positionally, in signature order
        na = kw.pop("na_strategy", None)
        enc = cls(channels, stats_list, st_of(st), tap, na, **kw)
    elif eager:
        enc = cls(channels, stats_list=stats_list, stype=st_of(st), post_module=tap, **kw)
    else:
        enc = cls(post_module=tap, **kw)
    return enc, tap


def randomize(mod, seed, scale=0.5):
    """'Any parameter initialisation': add seeded noise to every parameter,
    keeping torch's padding rows (Embedding/EmbeddingBag padding_idx) zero."""
    g = torch.Generator().manual_seed(int(seed) % (2 ** 31))
    pads = []
    for m in mod.modules():
        if isinstance(m, (torch.nn.Embedding, torch.nn.EmbeddingBag)) and m.padding_idx is not None:
            pads.append((m.weight, m.padding_idx))
    with torch.no_grad():
        for p in mod.parameters():
            p.add_(torch.randn(p.shape, generator=g, dtype=torch.float64).to(p.dtype) * scale)
        for w, k in pads:
            w[k].zero_()


# ------------------------------------------------------------- encoder inputs
def feat_to_lib(st, cells, ncols, emb_dims=None):
    """rows x cols JSON cells -> the TensorData the mappers would emit.
    numerical: float | None ; categorical: int (-1 missing) ; multicategorical: list[int] ([-1] missing);
    timestamp: list of 7 ints ([-1]*7 missing) ; embedding: list[float|None] per column."""
    B = len(cells)
    Cn = ncols
    if st == "numerical":
        t = torch.tensor([[float("nan") if v is None else float(v) for v in row] for row in cells],
                         dtype=torch.get_default_dtype())
        return t.reshape(B, Cn)
    if st == "categorical":
        return torch.tensor(cells, dtype=torch.long).reshape(B, Cn)
    if st == "timestamp":
        return torch.tensor(cells, dtype=torch.long).reshape(B, Cn, 7)
    if st == "multicategorical":
        if B == 0:
            return MultiNestedTensor(num_rows=0, num_cols=Cn, values=torch.zeros(0, dtype=torch.long),
                                     offset=torch.zeros(1, dtype=torch.long))
        return MultiNestedTensor.from_tensor_mat(
            [[torch.tensor(c, dtype=torch.long) for c in row] for row in cells])
    if st == "embedding":
        return MultiEmbeddingTensor.from_tensor_list(
            [torch.tensor([[float("nan") if v is None else float(v) for v in row[j]] for row in cells],
                          dtype=torch.get_default_dtype()).reshape(B, emb_dims[j])
             for j in range(len(emb_dims))])
    raise ValueError(st)


def snapshot(feat):
    if isinstance(feat, dict):
        return {k: snapshot(v) for k, v in feat.items()}
    if isinstance(feat, (MultiNestedTensor, MultiEmbeddingTensor)):
        return ("mt", feat.num_rows, feat.num_cols, feat.values.detach().clone(), feat.offset.detach().clone())
    return ("t", feat.detach().clone())


def same(a, b):
    if a.shape != b.shape or a.dtype != b.dtype:
        return False
    if a.is_floating_point():
        return bool(torch.equal(torch.nan_to_num(a, nan=12345.678), torch.nan_to_num(b, nan=12345.678))
                    and torch.equal(torch.isnan(a), torch.isnan(b)))
    return bool(torch.equal(a, b))


def unchanged(feat, snap):
    if isinstance(feat, dict):
        return all(unchanged(v, snap[k]) for k, v in feat.items())
    if snap[0] == "mt":
        return (feat.num_rows == snap[1] and feat.num_cols == snap[2] and same(feat.values, snap[3])
                and same(feat.offset, snap[4]))
    return same(feat, snap[1])


def clone_feat(feat):
    if isinstance(feat, dict):
        return {k: clone_feat(v) for k, v in feat.items()}
    if isinstance(feat, (MultiNestedTensor, MultiEmbeddingTensor)):
        return feat.clone()
    return feat.clone()


# ------------------------------------------------------------------ fractions
def frac(x):
    """Exact value of a float (dyadic rational)."""
    return Fraction(x)


def cq(fr):
    """Coq Q literal of a Fraction."""
    fr = Fraction(fr)
    n, d = fr.numerator, fr.denominator
    return f"(({n})#{d})%Q" if n < 0 else f"({n}#{d})%Q"


def cx(v):
    """Coq literal of an NaN-extended rational scalar (None = NaN)."""
    return "XNaN" if v is None else f"(XFin {cq(Fraction(v))})"


def cstype(st):
    return "st_" + st


def cna(na):
    return "None" if na is None else f"(Some na_{na})"


def fin(x):
    return isinstance(x, float) and math.isfinite(x)


# ------------------------------------------------- stubs for embedded columns
class TextStub:
    """text embedder emitting the default dtype (dfgen's stub is float32 only)"""

    def __init__(self, w=3):
        self.w = w

    def __call__(self, xs):
        from harness import dfgen as G
        return torch.tensor([G.hash_vec(str(x), self.w) for x in xs],
                            dtype=torch.get_default_dtype()).reshape(len(xs), self.w)


def image_stub(w=2):
    from torch_frame.config.image_embedder import ImageEmbedder
    from harness import dfgen as G

    class ImageStub(ImageEmbedder):
        def __init__(self):
            super().__init__()
            self.w = w

        def forward_retrieve(self, paths):
            return list(paths)

        def forward_embed(self, images):
            return torch.tensor([G.hash_vec(str(x), self.w) for x in images],
                                dtype=torch.get_default_dtype()).reshape(len(images), self.w)

    return ImageStub()
