"""Shared probe machinery of C14 / C15 (DESIGN.md section 3.3, "Tie 3").

* float64 context (default dtype restored in `finally`)
* tiny materialised datasets from explicit JSON cells (>= 2 columns per used stype, missing values)
* construction of the seven models of the zoo with option variants, 0-3 SGD steps on random targets
* perturbation of single cells / rows of a TensorFrame (same batch shape)
* bit-exact change detection and Coq literal printers for boolean matrices
"""
from __future__ import annotations

import contextlib
import math

import numpy as np
import pandas as pd
import torch

import torch_frame
from torch_frame import TensorFrame, stype
from torch_frame.data import Dataset

TOL = 1e-9          # cross-batch comparisons (float64, relative to max(1, |out|)); same-batch comparisons are bit-exact


TOL32 = 2e-4        # cross-batch comparisons in float32 (relative; columns that encode to ~1e7 amplify float32 round-off)


def tol_of(dtype):
    return TOL32 if dtype == "float32" else TOL


@contextlib.contextmanager
def f64(seed=0, dtype="float64"):
    old = torch.get_default_dtype()
    st = torch.random.get_rng_state()
    try:
        torch.set_default_dtype(torch.float32 if dtype == "float32" else torch.float64)
        torch.manual_seed(seed)
        yield
    finally:
        torch.set_default_dtype(old)
        torch.random.set_rng_state(st)


# ------------------------------------------------------------------ data
CATS = ["a", "b", "c", "d", "e"]


NUM_KINDS_MIN_TIED = ["zero_inflated", "binary", "constant"]          # minimum == first quartile (zero-width first bucket)
NUM_KINDS_OTHER = ["mid_ties", "top_ties", "single_value", "generic"]   # "all_missing" exists but is a reported finding


def gen_num_col(rng, n, kind, miss_p):
    """One numerical column of a boundary kind (ties at the minimum / in the middle / at the top, two values, a
    constant, a single non-missing value) or a generic one."""
    base = round(rng.uniform(-3, 3), 3)
    hi = round(base + rng.uniform(0.5, 3), 3)
    if kind == "constant":
        col = [base] * n
    elif kind == "binary":
        k = max(1, n // 4)
        col = [base] * (n - k) + [hi] * k
    elif kind == "zero_inflated":
        k = max(1, min(2, n - 2))
        col = [0.0] * (n - k) + [round(rng.uniform(0.5, 4), 3) for _ in range(k)]
    elif kind == "top_ties":
        k = max(1, n // 3)
        col = [round(base - rng.uniform(0.5, 3), 3) for _ in range(k)] + [base] * (n - k)
    elif kind == "mid_ties":
        col = [round(base - 1.5, 3)] + [base] * (n - 2) + [hi] if n >= 3 else [base, hi][:n]
    elif kind == "all_missing":
        return [None] * n
    elif kind == "single_value":
        col = [None] * n
        col[rng.randrange(n)] = base
        return col
    else:
        col = [round(rng.uniform(-3, 3), 3) for _ in range(n)]
        if n >= 2 and col[0] == col[1]:
            col[1] = col[0] + 1.0
        for r in range(2, n):
            if rng.chance(miss_p):
                col[r] = None
        return col
    rng.shuffle(col)
    if kind in ("zero_inflated", "top_ties") and n >= 5 and rng.chance(miss_p):
        col[rng.randrange(n)] = None
    return col


def gen_data(rng, n, n_num, n_cat, task, miss_p, num_kinds=None):
    """Explicit cells (column-major).  Every categorical column has >= 2 categories present; numerical column 0 is
    generic (>= 2 distinct values), column 1 has its minimum tied up to the first quartile (zero-inflated / binary /
    constant), further columns take the other boundary kinds."""
    num, cat = [], []
    if num_kinds is None:
        num_kinds = []
        for j in range(n_num):
            num_kinds.append("generic" if j == 0 else rng.pick(NUM_KINDS_MIN_TIED) if j == 1
                             else rng.pick(NUM_KINDS_OTHER))
    for kind in num_kinds[:n_num]:
        num.append(gen_num_col(rng, n, kind, miss_p))
    for _ in range(n_cat):
        k = rng.randint(2, 4)
        col = [CATS[rng.randrange(k)] for _ in range(n)]
        if n >= 2:
            col[0], col[1] = CATS[0], CATS[1]
        for r in range(2, n):
            if rng.chance(miss_p):
                col[r] = None
        cat.append(col)
    if task == "regression":
        y = [round(rng.uniform(-1, 1), 3) for _ in range(n)]
    elif task == "binary":
        y = [r % 2 for r in range(n)]
    else:
        y = [r % 3 for r in range(n)]
    return {"n": n, "num": num, "cat": cat, "task": task, "y": y, "num_kinds": list(num_kinds[:n_num])}


def make_dataset(data):
    cols, c2s = {}, {}
    for j, col in enumerate(data["num"]):
        cols[f"n{j}"] = pd.Series([np.nan if v is None else float(v) for v in col], dtype="float64")
        c2s[f"n{j}"] = stype.numerical
    for j, col in enumerate(data["cat"]):
        cols[f"c{j}"] = pd.Series([None if v is None else str(v) for v in col], dtype="object")
        c2s[f"c{j}"] = stype.categorical
    if data["task"] == "regression":
        cols["y"] = pd.Series([float(v) for v in data["y"]], dtype="float64")
        c2s["y"] = stype.numerical
    else:
        cols["y"] = pd.Series([int(v) for v in data["y"]], dtype="int64")
        c2s["y"] = stype.categorical
    ds = Dataset(pd.DataFrame(cols), c2s, target_col="y")
    ds.materialize()
    return ds


def out_channels_of(data):
    if data["task"] == "multiclass":
        return len(set(data["y"]))
    return 1


# ------------------------------------------------------------------ models
MODELS = ["MLP", "ResNet", "FTTransformer", "TabTransformer", "Trompt", "TabNet", "ExcelFormer"]


# constructor of every stype encoder class the generator knows how to build; classes discovered in the repository
# that are not listed here make sanity() fail (fail-closed), classes listed in ENC_EXCLUDED are stated exclusions
ENC_CTORS = {
    "LinearEncoder": lambda tnn, na: tnn.LinearEncoder(na_strategy=na),
    "StackEncoder": lambda tnn, na: tnn.StackEncoder(na_strategy=na),
    "LinearBucketEncoder": lambda tnn, na: tnn.LinearBucketEncoder(na_strategy=na),
    "LinearPeriodicEncoder": lambda tnn, na: tnn.LinearPeriodicEncoder(n_bins=4, na_strategy=na),
    "ExcelFormerEncoder": lambda tnn, na: tnn.ExcelFormerEncoder(na_strategy=na),
    "EmbeddingEncoder": lambda tnn, na: tnn.EmbeddingEncoder(na_strategy=na),
}
ENC_EXCLUDED = {"LinearModelEncoder": "wraps a user model per column (col_to_model); excluded by C13's property text"}
NUM_NA = [None, "mean", "zeros"]
CAT_NA = [None, "most_frequent"]
# LinearBucketEncoder builds its mask with .float(): under a float64 default dtype its index_put raises
# (dtype mismatch) -- cases with that encoder run in float32
F32_ONLY = {"LinearBucketEncoder"}


def encoder_classes(st):
    """Names of the StypeEncoder subclasses of the repository that support stype `st` (live)."""
    import inspect

    from torch_frame.nn.encoder import stype_encoder as M
    out = []
    for name, cls in vars(M).items():
        if inspect.isclass(cls) and issubclass(cls, M.StypeEncoder) and cls is not M.StypeEncoder:
            if st in (getattr(cls, "supported_stypes", None) or ()):
                out.append(name)
    return sorted(out)


def _na(name):
    from torch_frame.typing import NAStrategy
    return None if name is None else NAStrategy(name)


def _enc_dict(opts):
    """stype_encoder_dict from the drawn classes / NA strategies; None = the model's default dictionary."""
    from torch_frame import nn as tnn
    if opts.get("num_enc") is None and opts.get("cat_enc") is None:
        return None
    d = {stype.numerical: ENC_CTORS[opts.get("num_enc") or "LinearEncoder"](tnn, _na(opts.get("num_na"))),
         stype.categorical: ENC_CTORS[opts.get("cat_enc") or "EmbeddingEncoder"](tnn, _na(opts.get("cat_na")))}
    return d


def build_model(name, opts, ds, out_channels):
    """Construct one model of the zoo on the materialised dataset `ds`; every public constructor argument comes
    from `opts` (drawn by the generator away from the defaults)."""
    from torch_frame import nn as tnn
    tf = ds.tensor_frame
    cs, cn = ds.col_stats, tf.col_names_dict
    ch = opts.get("channels", 8)
    L = opts.get("layers", 2)
    drop = opts.get("dropout", 0.2)
    if name == "MLP":
        return tnn.MLP(channels=ch, out_channels=out_channels, num_layers=L + 1, col_stats=cs, col_names_dict=cn,
                       stype_encoder_dict=_enc_dict(opts), normalization=opts.get("norm", "layer_norm"),
                       dropout_prob=drop)
    if name == "ResNet":
        return tnn.ResNet(channels=ch, out_channels=out_channels, num_layers=L, col_stats=cs, col_names_dict=cn,
                          stype_encoder_dict=_enc_dict(opts), normalization=opts.get("norm", "layer_norm"),
                          dropout_prob=drop)
    if name == "FTTransformer":
        return tnn.FTTransformer(channels=ch, out_channels=out_channels, num_layers=L, col_stats=cs,
                                 col_names_dict=cn, stype_encoder_dict=_enc_dict(opts))
    if name == "TabTransformer":
        return tnn.TabTransformer(channels=ch, out_channels=out_channels, num_layers=L,
                                  num_heads=opts.get("heads", 2), encoder_pad_size=opts.get("pad", 2),
                                  attn_dropout=opts.get("attn_dropout", 0.1), ffn_dropout=drop, col_stats=cs,
                                  col_names_dict=cn)
    if name == "Trompt":
        dicts = None
        if _enc_dict(opts) is not None:
            dicts = [_enc_dict(opts) for _ in range(L)]
        return tnn.Trompt(channels=ch, out_channels=out_channels, num_prompts=opts.get("prompts", 2), num_layers=L,
                          col_stats=cs, col_names_dict=cn, stype_encoder_dicts=dicts)
    if name == "TabNet":
        return tnn.TabNet(out_channels=out_channels, num_layers=L, split_feat_channels=ch,
                          split_attn_channels=opts.get("attn_channels", ch), gamma=opts.get("gamma", 1.2),
                          col_stats=cs, col_names_dict=cn, stype_encoder_dict=_enc_dict(opts),
                          num_shared_glu_layers=opts.get("shared", 2), num_dependent_glu_layers=opts.get("dep", 2),
                          cat_emb_channels=opts.get("cat_emb", 2))
    if name == "ExcelFormer":
        ncols = len(cn[stype.numerical])
        d = _enc_dict(opts)
        if d is not None:
            d = {stype.numerical: d[stype.numerical]}
        return tnn.ExcelFormer(in_channels=ch, out_channels=out_channels, num_cols=ncols, num_layers=L,
                               num_heads=opts.get("heads", 2), col_stats=cs, col_names_dict=cn,
                               stype_encoder_dict=d, diam_dropout=drop, aium_dropout=opts.get("aium_dropout", 0.1),
                               residual_dropout=opts.get("residual_dropout", 0.1))
    raise ValueError(name)


def reset_all(model):
    """A fresh initialisation of every parameter (the feature encoder's own reset_parameters is a no-op)."""
    from torch_frame.nn.encoder.stype_encoder import StypeEncoder
    model.reset_parameters()
    for m in model.modules():
        if isinstance(m, StypeEncoder) and m is not model:
            m.reset_parameters()
    return model


def train_steps(model, tf, k, lr=0.05):
    """k SGD steps on random targets in train mode (non-trivial BatchNorm running statistics, dropout active),
    then back to eval mode."""
    if k > 0 and len(tf) >= 2:
        # train on an imputed copy: a NaN input under na_strategy=None gives NaN gradients (0 * NaN) and would
        # turn that column's encoder weights into NaN, i.e. silently switch the column off
        tf = clone_tf(tf)
        for st, feat in tf.feat_dict.items():
            if feat.is_floating_point():
                feat[torch.isnan(feat)] = 0.25
            else:
                feat[feat < 0] = 0
        model.train()
        opt = torch.optim.SGD(model.parameters(), lr=lr)
        for _ in range(k):
            opt.zero_grad()
            out = model(tf)
            tgt = torch.randn(out.shape)
            loss = ((out - tgt) ** 2).mean()
            loss.backward()
            # generic parameter states, not divergent ones: a near-constant column encodes to ~1e6 and plain SGD
            # would blow the parameters up to inf within two steps -- clip, and skip a step whose gradient is not finite
            gn = torch.nn.utils.clip_grad_norm_(model.parameters(), 1.0)
            if bool(torch.isfinite(gn)):
                opt.step()
    model.eval()
    return model


def randomize_params(model, scale=0.5):
    """Re-draw every parameter / running statistic generically (used between completeness trials: a dead ReLU or
    an attenuated initialisation must not hide a dependency)."""
    with torch.no_grad():
        for p in model.parameters():
            p.add_(scale * torch.randn(p.shape))
        for m in model.modules():
            if isinstance(m, torch.nn.modules.batchnorm._BatchNorm):
                m.running_mean.add_(0.3 * torch.randn(m.running_mean.shape))
                m.running_var.mul_(1.0 + torch.rand(m.running_var.shape))
    return model


def redraw_params(model, t):
    """Fresh, mild parameters for completeness trial t >= 1: re-initialise, then add small generic noise.  (Noise
    must not accumulate over trials: large attention weights saturate the softmax and a saturated softmax gives
    exactly-zero weight to most columns, hiding their influence.)"""
    model.reset_parameters()
    # StypeWiseFeatureEncoder.reset_parameters is inherited as a no-op: reset the stype encoders themselves
    from torch_frame.nn.encoder.stype_encoder import StypeEncoder
    for m in model.modules():
        if isinstance(m, StypeEncoder) and m is not model:
            try:
                m.reset_parameters()
            except Exception:
                pass
    randomize_params(model, [0.05, 0.15, 0.3][t % 3])
    model.eval()
    return model


def fwd(model, tf):
    with torch.no_grad():
        return model(tf)


# ------------------------------------------------------------------ forward hooks (intermediate tensors)
def _get(obj, path):
    for a in path:
        obj = obj[a] if isinstance(a, int) else getattr(obj, a)
    return obj


# model -> [(probe name, attribute path, "pre" | "post")]; attribute names are the repository's; a probe whose
# path does not resolve is reported as unmeasured (None), never as an error
PROBES = {
    "MLP": [("mlp_in", ["mlp"], "pre")],
    "ResNet": [("backbone_in", ["backbone"], "pre"), ("decoder_in", ["decoder"], "pre")],
    # (the input of TabNet's final Linear is a sum of ReLU outputs: dead units hide dependencies, not probed)
    "TabNet": [("bn_in", ["bn"], "pre"), ("mask0", ["attn_transformers", 0], "post")],
    "FTTransformer": [("transformer_in", ["backbone", "transformer"], "pre"), ("decoder_in", ["decoder"], "pre")],
    "TabTransformer": [("conv0_in", ["tab_transformer_convs", 0], "pre"), ("decoder_in", ["decoder"], "pre")],
    "Trompt": [("prompts", ["trompt_convs"], "post-all")],
    "ExcelFormer": [("decoder_in", ["excelformer_decoder"], "pre")],
}


def probe_names(name, has_cat=True):
    names = [n for n, _, _ in PROBES[name]]
    if name == "TabTransformer" and not has_cat:
        names = [n for n in names if n != "conv0_in"]
    return names + ["final"]


def fwd_probes(name, model, tf, has_cat=True):
    """One evaluation forward pass; returns [tensor [B, K] or None per probe ..., final output [B, K]]."""
    grabbed, handles = {}, []

    def flat(t):
        return t.detach().reshape(t.shape[0], -1).clone()

    for pname, path, kind in PROBES[name]:
        if name == "TabTransformer" and pname == "conv0_in" and not has_cat:
            continue
        try:
            mod = _get(model, path)
        except Exception:
            grabbed[pname] = None
            continue
        if kind == "pre":
            handles.append(mod.register_forward_pre_hook(
                lambda m, args, pname=pname: grabbed.__setitem__(pname, flat(args[0]))))
        elif kind == "post":
            handles.append(mod.register_forward_hook(
                lambda m, args, out, pname=pname: grabbed.__setitem__(pname, flat(out))))
        else:   # every module of a ModuleList, outputs concatenated in order
            parts = grabbed.setdefault(pname + "#parts", {})
            for i, sub in enumerate(mod):
                handles.append(sub.register_forward_hook(
                    lambda m, args, out, i=i, parts=parts: parts.__setitem__(i, flat(out))))
    try:
        with torch.no_grad():
            out = model(tf)
    finally:
        for h in handles:
            h.remove()
    res = []
    for pname in probe_names(name, has_cat)[:-1]:
        if pname + "#parts" in grabbed:
            parts = grabbed[pname + "#parts"]
            res.append(torch.cat([parts[i] for i in sorted(parts)], dim=1) if parts else None)
        else:
            res.append(grabbed.get(pname))
    res.append(flat(out))
    return out, res


def changed_positions(a, b, r):
    """Positions of row r that differ bit-for-bit between two [B, K] tensors."""
    same = (a[r] == b[r]) | (torch.isnan(a[r]) & torch.isnan(b[r]))
    return [k for k in range(a.shape[1]) if not bool(same[k])]


# ------------------------------------------------------------------ perturbation
def clone_tf(tf):
    return TensorFrame(feat_dict={k: v.clone() for k, v in tf.feat_dict.items()},
                       col_names_dict={k: list(v) for k, v in tf.col_names_dict.items()},
                       y=None if tf.y is None else tf.y.clone())


def columns_of(tf):
    """[(stype, j)] in the order the feature encoder concatenates them (tf.stypes order)."""
    out = []
    for st in tf.stypes:
        for j in range(len(tf.col_names_dict[st])):
            out.append((st, j))
    return out


def perturb_cell(tf, r, col, rng, size, ncats):
    """In place: change cell (r, col) to a different value."""
    st, j = col
    feat = tf.feat_dict[st]
    if st == stype.numerical:
        old = feat[r, j].item()
        delta = size * rng.uniform(0.5, 1.5) * rng.choice([-1.0, 1.0])
        feat[r, j] = (0.37 + delta) if math.isnan(old) else old + delta
    elif st == stype.categorical:
        old = int(feat[r, j].item())
        k = ncats[j]
        choices = [c for c in range(k) if c != old]
        feat[r, j] = rng.choice(choices) if choices else old
    else:
        raise ValueError(st)


def num_categories(ds, tf):
    from torch_frame.data.stats import StatType
    if stype.categorical not in tf.col_names_dict:
        return []
    return [len(ds.col_stats[c][StatType.COUNT][0]) for c in tf.col_names_dict[stype.categorical]]


def changed_rows(a, b):
    """Indices along axis 0 where two equally shaped outputs differ bit-for-bit (NaN-aware)."""
    if a.shape != b.shape:
        return None
    if a.shape[0] == 0:
        return []
    fa, fb = a.reshape(a.shape[0], -1), b.reshape(b.shape[0], -1)
    same = (fa == fb) | (torch.isnan(fa) & torch.isnan(fb))
    return [i for i in range(a.shape[0]) if not bool(same[i].all())]


def maxdiff(a, b):
    if a.shape != b.shape:
        return float("inf")
    if a.numel() == 0:
        return 0.0
    d = (a - b).abs()
    if torch.isnan(d).any():
        return float("inf")
    # relative to the magnitude of the outputs (generic parameters can make them large)
    return float(d.max()) / max(1.0, float(a.abs().max()), float(b.abs().max()))


# ------------------------------------------------------------------ Coq printers
def cbmat(m):
    return "[" + "; ".join("[" + "; ".join("true" if x else "false" for x in row) + "]" for row in m) + "]"


def cbvec(v):
    return "[" + "; ".join("true" if x else "false" for x in v) + "]"


def cnats(v):
    return "[" + "; ".join(f"{int(x)}" for x in v) + "]"
