"""C02 — materialization is positional and produces a canonical schema."""
from __future__ import annotations

import json
import os

os.environ.setdefault("TQDM_DISABLE", "1")   # silence the mapper progress bars (display only)

from harness import common as C
from harness import dfgen as G
from harness import matcoq as M

PROP = "C02"

# Clause-by-clause map of the property to the oracle keys that judge it and the generator dimensions that exercise
# it.  One generator kind (gen_case; thorough adds exhaustive_orders) with the dimensions named on the right.
# "must raise / must not raise" audit.  C02's statement demands NO raise anywhere, so no key demands one (the former
# guard-not-raised:* keys are gone; the 15 guard scenarios and the key-less tokenizer are observed only).  Keys that
# demand a NORMAL return and the words backing them: materialize-raises:* / relabel-raises:* / colperm-raises:* /
# both-raises:* -- "whatever the DataFrame's index labels are (non-zero-based, shuffled, non-numeric or duplicated) and
# whatever order its columns are in" + "Materializing an equal DataFrame with a relabeled index or permuted columns
# gives an equal TensorFrame"; reconvert-raises:* -- the same sentence applied to a later conversion of the same
# dataset; lookup-by-name-raises:* -- "text- and image-embedded columns are merged behind the embedding columns under
# the embedding group" (the frame lists the column there, so it is retrievable); operator-eq-raises:* -- "gives an
# equal TensorFrame" on the inputs C08 defines equality for.
CLAUSES = [
    ("row i (features and target) describes DataFrame row i by position, whatever the index labels are",
     ["position:<stype>", "position:y", "position:text_tokenized", "relabel-tensorframe:*", "relabel-raises:*",
      "operator-eq:relabel"],
     ["label_kind offset/perm/string/dup/positions x method assign/set_index/iloc/concat x index_name"]),
    ("... and whatever order the columns are in", ["colperm-tensorframe:*", "colperm-raises:*", "both-*", "operator-eq:*"],
     ["perm (column order), forms.stype_order (col_to_stype order != frame order)"]),
    ("feature columns grouped by stype with names sorted within each group", ["schema-names"], ["mixed-case names (dfgen)"]),
    ("text-/image-embedded columns merged behind the embedding columns under the embedding group",
     ["schema-names", "position:text_embedded", "position:image_embedded", "lookup-by-name*", "schema-emb-dim"],
     ["FAMILY frames (embedding sorting before / between / after children)"]),
    ("the target never appears among the features", ["schema-target-in-features", "schema-y"], ["with / without target"]),
    ("the frame has exactly len(df) rows", ["schema-num-rows", "schema-feat-shape", "sizes"],
     ["rows (incl. repeated positions), unlabeled target rows first/last/some/all"]),
    ("task type (regression / binary / multiclass) and class count match the target column",
     ["task-type", "num-classes", "*-task_type", "*-num_classes"], ["target numerical / categorical (2 or more classes)"]),
    ("an equal DataFrame with relabelled index or permuted columns gives an equal TensorFrame and equal statistics",
     ["relabel-*", "colperm-*", "both-*", "*-stats", "operator-eq:*"], ["variants A/B/C/D"]),
    ("(history) later conversions through the dataset's converter reproduce the materialized frame",
     ["reconvert:*", "reconvert-raises:*"], ["again: same / relabelled / permuted / both / same-2 / no-target"]),
]
# Every raise / assert / special-case branch of dataset.py on the paths C02 speaks about, the generator kind that
# reaches it and the oracle key that notices if it is removed, loosened or replaced by a default (mapper-level
# guards and casts: harness/c01.py ERROR_PATHS; the same numeric-representation kinds are drawn here).
ERROR_PATHS = [
    ("requires_post_materialization: RuntimeError for tensor_frame / col_stats / num_classes before materialize()",
     "guards: premature-tensor-frame, premature-num-classes", ["observed only"]),
    ("canonicalize_col_to_pattern: ValueError when an embedder/tokenizer cfg dict misses a column; None-fill for "
     "col_to_sep / col_to_time_format", "guards: partial-embedder-cfg; forms sep/fmt=partial-dict",
     ["observed only", "position:*"]),
    ("canonicalize_and_validate: TypeError for a pattern of the wrong type", "guards: sep-wrong-type", ["observed only"]),
    ("Dataset.__init__: ValueError split_col missing / listed in col_to_stype / values outside {0,1,2}",
     "guards: split-col-*; forms.split_col (valid use)", ["observed only", "position:*"]),
    ("Dataset.__init__: ValueError for columns missing from the frame; ValueError for a multicategorical target",
     "guards: missing-column, multilabel-target", ["observed only"]),
    ("task_type: assert target_col is not None; ValueError 'Task type cannot be inferred' (target neither numerical nor "
     "categorical)", "guards: task-type-without-target, task-type-timestamp-target", ["observed only", "task-type"]),
    ("num_classes: ValueError without a COUNT statistic; assert num_classes > 1",
     "guards: num-classes-numerical-target, num-classes-one-class", ["observed only", "num-classes"]),
    ("materialize(col_stats=...): assert every column / every required statistic present",
     "guards: col-stats-missing-column, col-stats-missing-stat", ["observed only"]),
    ("_get_mapper: NotImplementedError for an unknown stype", "unreachable (stype is a closed enum; Gen/Tables.v)", []),
    ("__call__: target_col in df -> y, else None; _merge_feat branches (parent present / absent)",
     "with / without target, again['no-target'], FAMILY frames", ["schema-y", "reconvert:*", "schema-names"]),
    ("_update_col_stats: EMB_DIM only when an embedding block exists", "FAMILY frames", ["schema-emb-dim"]),
    ("TensorFrame.validate: ValueError / RuntimeError on misaligned blocks", "every materialization (must NOT fire)",
     ["materialize-raises:*", "relabel-raises:*", "colperm-raises:*"]),
    ("get_split / split errors", "not C02 (C09)", []),
]
# Public signature (forms drawn by matcoq.draw_forms; histogram in stats()['forms'], fail-closed in sanity()):
#   Dataset(...) keyword / positional, col_to_stype order, split_col, col_to_sep / col_to_time_format as dict / single /
#   partial dict / None, embedder / tokenizer cfg as dict / single config; materialize(device None / 'cpu' / torch.device);
#   converter(df) / converter(df, device) / converter(df, device=...); TensorFrame ==, !=, len(), num_rows, num_cols;
#   Dataset.num_rows / len(); get_col_feat(name) / (name, return_stype=True).
HEADER = M.HEADER
MODEL_TARGETS = M.MODEL_TARGETS
SHARD = 40
RULE = ("(+ targets with unlabeled rows: missing target cells in the first / last / some / all rows; the frame still "
        "has len(df) rows and y is NaN / -1 there) (+ history: after materialization the dataset's converter converts the same / relabelled / permuted / "
        "target-less frame again and must reproduce the materialized frame) DataFrames of 1-12 rows over all nine stypes (+ numerical/categorical target or none), materialized four "
        "times: RangeIndex + original column order, relabelled index (offset / permuted / string / duplicated labels, "
        "assigned, via set_index, or as left behind by iloc / concat; the index unnamed or NAMED 'data' / 'index' / "
        "like one of the columns), permuted columns, both; distinct = distinct "
        "(stype multiset, n, label kind, method, target stype, column permutation signature); non-trivial = at least "
        "two feature columns or a non-identity relabelling")
TRUSTED = [
    "Coq 8.16.1 kernel + vm_compute",
    "hand-written model coq/Model/Converter.v (+ Mapper.v) of DataFrameToTensorFrameConverter.__init__/__call__/"
    "_merge_feat and Dataset.task_type/num_classes/_update_col_stats, tied to /repo by this run's correspondence",
    "coq/Gen/Tables.v regenerated from /repo (all_stype order, stype_parent, storage flags, task types)",
    "modelled primitives: Python dict insertion order, list.sort on str, pandas df[col]; black boxes: to_datetime, "
    "user embedders / tokenizers (their per-cell outputs are inputs of the model)",
    "harness/c02.py + harness/dfgen.py (generator, plain-Python schema/position oracle, Coq literal printer)",
]
ASSUMPTIONS = [
    "no raise is demanded anywhere (C02's statement demands none): the Dataset guard scenarios and the key-less "
    "tokenizer are observed, a raise or a normal return are both accepted, and the model's raise is compared only "
    "when the implementation raised",
    "the public == / != of TensorFrame are exercised only on frames whose target has no missing cell: C08, which owns "
    "TensorFrame equality, restricts it to 'targets without missing values, operands of equal dtypes' (y is compared "
    "without equal_nan); with unlabeled target rows equality is judged cell by cell, NaN matching NaN positionally",
    "column names are unique (a pandas frame with duplicated column names is outside the property)",
    "string-valued columns are held as object or str; pandas `category` dtype columns are outside the quantifier "
    "(value_counts lists unobserved categories with count 0, which would inflate the class count)",
    "relabel_invariant equates the columns INCLUDING the statistics the converter was given; that the statistics "
    "themselves do not depend on labels / column order is observed by the oracle (equal read_stats), not proved",
    "category tie order may depend on row order; all four materializations of a case have the same row order",
    "column_perm_invariant is proved for the case that both conversions succeed; success transfer is observed, and "
    "is false in one corner of code and model alike (a tokenizer returning key-less dicts: Props/C02.v "
    "column_perm_success_transfer_refuted, run against /repo as the `keyless` case)",
    "later calls of the converter object (state = the dict _merge_feat rewrote): proved equal to the first call "
    "whenever they succeed (later_call_equal_partial, converter_state_is_fixed_point); that they cannot raise and "
    "the dictionary-valued text_tokenized block are observed (reconvert:* keys, check_tf_again in the correspondence)",
]

LABEL_KINDS = ["offset", "perm", "string", "dup"]
METHODS = ["assign", "assign", "set_index", "iloc", "concat", "reverse", "sort_index", "take", "sample", "reindex"]
DERIVED = ("reverse", "sort_index", "take", "sample", "reindex")     # the labels follow from the pandas operation


# ------------------------------------------------------------------ generation
FAMILY = ["embedding", "text_embedded", "image_embedded", "embedding", "numerical", "categorical"]


CHEAP = ["embedding", "numerical", "categorical", "text_embedded", "numerical"]
LARGE_ROWS = [257, 513]


def gen_case(rng, n=None):
    while True:
        # a fifth of the frames is drawn from the embedding family only, so that `embedding` columns whose names
        # sort before, between and after text_/image_embedded columns are common
        if n is not None:       # a LARGE frame (batch boundaries): cheap stypes only
            fr = G.gen_frame(rng, index_kinds=["range"], stypes=CHEAP, n=n)
        else:
            fr = G.gen_frame(rng, index_kinds=["range"], stypes=FAMILY if rng.chance(0.2) else None)
        tgt = next((c for c in fr["cols"] if c["name"] == fr["target"]), None)
        if tgt is not None and tgt["stype"] == "categorical" and fr["n"] < 2:
            continue                       # Dataset.num_classes asserts >= 2 classes
        break
    unlabeled = None
    if tgt is not None and rng.chance(0.4):
        # UNLABELED rows: missing cells (NaN / None, per the column's nan_kind) in the target column -- the first row,
        # the last row, a random subset, or (numerical target) every row.  A categorical target keeps >= 2 classes.
        cells = tgt["cells"]
        n0 = len(cells)
        unlabeled = rng.pick(["first", "last", "some", "all"] if tgt["stype"] == "numerical" else ["first", "last", "some"])
        idx = {"first": [0], "last": [n0 - 1], "all": list(range(n0)),
               "some": [i for i in range(n0) if rng.chance(0.4)] or [rng.randrange(n0)]}[unlabeled]
        new = [None if i in idx else v for i, v in enumerate(cells)]
        if tgt["stype"] == "categorical" and len({str(v) for v in new if v is not None}) < 2:
            unlabeled = None
        else:
            tgt["cells"] = new
    n = fr["n"]
    rows = list(range(n))
    method = rng.pick(METHODS)
    if method in DERIVED:
        if rng.chance(0.3):
            rng.shuffle(rows)
        kind = "derived"
    elif method in ("iloc", "concat"):
        rng.shuffle(rows)
        if rng.chance(0.5):
            rows += [rng.randrange(n) for _ in range(rng.randint(1, 2))]      # repeated positions -> duplicated labels
        if rng.chance(0.15):
            rows = sorted(rows)
        kind = "positions"
    else:
        if rng.chance(0.3):
            rng.shuffle(rows)
        kind = rng.pick(LABEL_KINDS)
    order = list(fr["col_order"])
    perm = list(order)
    if len(perm) > 1:
        for _ in range(5):
            rng.shuffle(perm)
            if perm != order:
                break
    # the index may carry a NAME: none, the merge key the mappers use, pandas' default column name after
    # reset_index, or the name of one of the frame's own columns (as left behind by set_index)
    iname = rng.wpick([(4, None), (2, "data"), (1, "index"), (2, "col"), (1, "level_0")])
    if iname == "col":
        iname = rng.pick(fr["col_order"])
    forms = M.draw_forms(rng, fr)
    forms["path"] = False
    for col in fr["cols"]:
        if col["stype"] == "numerical":
            M.draw_num_backing(rng, col)
    q = list(range(len(rows)))
    rng.shuffle(q)
    return {"frame": fr, "rows": rows, "label_kind": kind, "method": method, "perm": perm,
            "split": rng.randint(0, len(rows)), "index_name": iname, "unlabeled": unlabeled, "forms": forms,
            "q": q, "seed": rng.randint(0, 10 ** 6),
            "layouts": {t: rng.pick([None, None] + M.RESTRIDES) for t in "ABCD"}}


def exhaustive_orders(rng):
    """Thorough tier: one frame with the whole embedding family, two numerical columns and a
    target, under EVERY order of its six columns x every label kind (720 x 5 frames)."""
    import itertools
    n = 3
    cols = [G.gen_col(rng, "m_emb", "embedding", n, 0.0), G.gen_col(rng, "a_text", "text_embedded", n, 0.2),
            G.gen_col(rng, "z_img", "image_embedded", n, 0.2), G.gen_col(rng, "q_num", "numerical", n, 0.2),
            G.gen_col(rng, "b_num", "numerical", n, 0.2), G.gen_col(rng, "k_y", "categorical", n, 0.0, for_target=True)]
    names = [c["name"] for c in cols]
    out = []
    for order in itertools.permutations(names):
        for kind in LABEL_KINDS + ["positions"]:
            fr = {"n": n, "index": "range", "cols": cols, "target": "k_y", "col_order": names}
            rows = [2, 0, 1, 0] if kind == "positions" else [0, 1, 2]
            out.append({"frame": fr, "rows": rows, "label_kind": kind, "method": "iloc" if kind == "positions" else "assign",
                        "perm": list(order), "split": 2, "index_name": [None, "data", "k_y", "index"][len(out) % 4]})
    return out


def run_guards(case):
    """Documented guards of Dataset (dataset.py raise / assert): each scenario must raise (any exception type)."""
    import numpy as np
    import pandas as pd
    import torch_frame as tfm
    from torch_frame.config.text_embedder import TextEmbedderConfig
    from torch_frame.data import Dataset
    from torch_frame.data.stats import StatType
    df = pd.DataFrame({"x": [1.0, 2.0, 3.0], "c": ["a", "b", "a"], "m": ["p|q", "q", None], "t": ["u", "v", "w"],
                       "t2": ["u", "v", "w"], "ts": pd.to_datetime(["2020-01-01", "2021-02-03", "2022-03-04"]),
                       "one": ["k", "k", "k"], "sp": [0, 1, 2], "bad": [0, 5, 1]})
    st = {"x": tfm.numerical, "c": tfm.categorical}
    emb = TextEmbedderConfig(text_embedder=G.StubTextEmbedder(3), batch_size=None)

    def mat(*a, **k):
        return Dataset(*a, **k).materialize()
    scen = {
        "premature-tensor-frame": lambda: Dataset(df, st).tensor_frame,
        "premature-num-classes": lambda: Dataset(df, st, target_col="c").num_classes,
        "partial-embedder-cfg": lambda: Dataset(df, {"t": tfm.text_embedded, "t2": tfm.text_embedded, "x": tfm.numerical},
                                                col_to_text_embedder_cfg={"t": emb}),
        "sep-wrong-type": lambda: Dataset(df, {"m": tfm.multicategorical, "x": tfm.numerical}, col_to_sep={"m": 7}),
        "split-col-missing": lambda: Dataset(df, st, split_col="nope"),
        "split-col-in-stypes": lambda: Dataset(df, dict(st, sp=tfm.numerical), split_col="sp"),
        "split-col-bad-values": lambda: Dataset(df, st, split_col="bad"),
        "missing-column": lambda: Dataset(df, dict(st, ghost=tfm.numerical)),
        "multilabel-target": lambda: Dataset(df, {"m": tfm.multicategorical, "x": tfm.numerical}, target_col="m", col_to_sep="|"),
        "task-type-without-target": lambda: mat(df, st).task_type,
        "task-type-timestamp-target": lambda: mat(df, {"x": tfm.numerical, "ts": tfm.timestamp}, target_col="ts").task_type,
        "num-classes-numerical-target": lambda: mat(df, st, target_col="x").num_classes,
        "num-classes-one-class": lambda: mat(df, {"x": tfm.numerical, "one": tfm.categorical}, target_col="one").num_classes,
        "col-stats-missing-column": lambda: Dataset(df, st).materialize(
            col_stats={"x": {StatType.MEAN: 0.0, StatType.STD: 1.0, StatType.QUANTILES: [0, 0, 0, 0, 0]}}),
        "col-stats-missing-stat": lambda: Dataset(df, st).materialize(
            col_stats={"x": {StatType.MEAN: 0.0}, "c": {StatType.COUNT: (["a", "b"], [2, 1])}}),
    }
    out = {"ok": True, "raised": {}}
    for name, f in scen.items():
        try:
            f()
            out["raised"][name] = None
        except Exception as ex:
            out["raised"][name] = C.exc_name(ex)
    # positive controls: the same constructions without the defect must work
    try:
        ok = mat(df, st, target_col="c", split_col="sp")
        out["control"] = [ok.task_type.name, ok.num_classes, ok.tensor_frame.num_rows]
    except Exception as ex:
        out["control"] = {"exc": C.exc_name(ex), "msg": str(ex)[:200]}
    return out


def run_keyless(case):
    """The witness of Props/C02.v column_perm_success_transfer_refuted against the real code: a tokenizer that
    returns dictionaries without keys (outside the property: nothing is demanded), in both column orders."""
    import pandas as pd
    import torch_frame
    from torch_frame.config.text_tokenizer import TextTokenizerConfig
    from torch_frame.data import Dataset
    out = {"ok": True, "orders": {}}
    for tag, order in (("tok-first", ["t", "x"]), ("num-first", ["x", "t"])):
        df = pd.DataFrame({"t": ["a", "b"], "x": [1.0, 2.0]})[order]
        c2s = {c: (torch_frame.text_tokenized if c == "t" else torch_frame.numerical) for c in order}
        try:
            Dataset(df, c2s, col_to_text_tokenizer_cfg=TextTokenizerConfig(
                text_tokenizer=lambda xs: [{} for _ in xs], batch_size=None)).materialize()
            out["orders"][tag] = True
        except Exception as ex:
            out["orders"][tag] = False
            out[tag + "_exc"] = C.exc_name(ex)
    return out


def required_cases():
    """DETERMINISTIC stream (no randomness, every run, both tiers): every kind and argument form that sanity()
    demands, built on matcoq's fixed template frame -- each label kind x {named, unnamed} index through every
    relabelling method, every target kind with every unlabeled-rows pattern, every signature form, numeric backing
    and memory layout, tied categories under every labelling, a one-row frame, duplicated labels with missing cells,
    an embedding column (width 1) sorting after its text/image siblings."""
    combos = [("offset", "assign"), ("perm", "set_index"), ("string", "assign"), ("dup", "set_index"),
              ("positions", "iloc"), ("positions", "concat"), ("derived", "reverse"), ("derived", "sort_index"),
              ("derived", "take"), ("derived", "sample"), ("derived", "reindex")]
    names = ["data", "index", "cat", "level_0"]
    targets = ["none", "numerical", "categorical"]
    pats = {"numerical": ["first", "last", "all", None], "categorical": ["first", "last", None], "none": [None]}
    used = {"numerical": 0, "categorical": 0, "none": 0}
    lay = [None] + M.RESTRIDES
    out = []
    i = 0
    for named in (False, True):
        for kind, method in combos:
            tk = targets[i % 3]
            un = pats[tk][used[tk] % len(pats[tk])]
            used[tk] += 1
            fr, forms = M.template_frame(i, tk, un)
            forms["path"] = False
            n = fr["n"]
            rows = list(range(n))
            if kind == "positions":
                rows = [2, 0, 1, 3] if method == "iloc" else [2, 0, 1, 3, 0]
            out.append({"frame": fr, "rows": rows, "label_kind": kind, "method": method, "perm": fr["col_order"][::-1],
                        "split": 2, "index_name": names[i % 4] if named else None, "unlabeled": un, "forms": forms,
                        "q": [(k * 3 + 1) % len(rows) if len(rows) % 3 else (len(rows) - 1 - k) for k in range(len(rows))],
                        "seed": 7 + i, "layouts": {t: lay[(i + k) % 5] for k, t in enumerate("ABCD")}, "required": True})
            i += 1
    fr, forms = M.template_frame(i, "none", None, n_rows=1)             # a one-row frame
    forms["path"] = False
    out.append({"frame": fr, "rows": [0], "label_kind": "offset", "method": "assign", "perm": fr["col_order"][::-1],
                "split": 0, "index_name": None, "unlabeled": None, "forms": forms, "q": [0], "seed": 1,
                "layouts": {t: None for t in "ABCD"}, "required": True})
    return out


def generate(rng, tier):
    n = 120 if tier == "quick" else 5000
    cases = required_cases() + [gen_case(rng) for _ in range(n)] + [{"kind": "keyless"}, {"kind": "guards"}]
    cases += [gen_case(rng, n=r) for r in LARGE_ROWS]
    if tier == "thorough":
        cases += exhaustive_orders(rng)
    return cases


def effective(case):
    """The frame actually materialized: rows `rows` of the described frame."""
    fr = case["frame"]
    rows = case["rows"]
    d = dict(fr)
    d["n"] = len(rows)
    d["index"] = "range"
    d["cols"] = [dict(c, cells=[c["cells"][r] for r in rows]) for c in fr["cols"]]
    return d


def labels_of(case):
    n = len(case["rows"])
    if case["label_kind"] == "derived":
        q = case["q"]
        return {"reverse": list(range(n))[::-1], "sort_index": list(range(n)), "take": list(q), "sample": list(q),
                "reindex": [f"k{i}" for i in range(n)]}[case["method"]]
    if case["label_kind"] == "positions":
        return list(case["rows"])
    return G.index_labels(case["label_kind"], n)


def relabelled_df(case, eff, col_order):
    import pandas as pd
    name = case.get("index_name")
    if case["method"] in DERIVED:
        # pandas operations that reorder rows and leave their own labels behind; `pre` is arranged so that the
        # result has the rows of the effective frame in order
        base = M.build_df(eff, col_order=col_order)
        n = len(base)
        q = case["q"]
        inv = [0] * n
        for i, v in enumerate(q):
            inv[v] = i
        m = case["method"]
        if m == "reverse":
            out = base.iloc[::-1].reset_index(drop=True).iloc[::-1]
        elif m == "sort_index":
            out = base.iloc[q].sort_index()
        elif m == "take":
            out = base.iloc[inv].reset_index(drop=True).take(q)
        elif m == "sample":
            p = pd.Series(range(n)).sample(frac=1, random_state=case["seed"]).tolist()
            ip = [0] * n
            for i, v in enumerate(p):
                ip[v] = i
            out = base.iloc[ip].reset_index(drop=True).sample(frac=1, random_state=case["seed"])
        else:
            lab = [f"k{i}" for i in range(n)]
            pre = base.iloc[q].copy()
            pre.index = [lab[j] for j in q]
            out = pre.reindex(lab)
        out.index.name = name
        return out
    if case["method"] in ("iloc", "concat"):
        pre = M.build_df(dict(case["frame"], index="range"), col_order=col_order)
        pre.index.name = name
        if case["method"] == "iloc":
            return pre.iloc[case["rows"]]
        k = case["split"]
        return pd.concat([pre.iloc[case["rows"][:k]], pre.iloc[case["rows"][k:]]])
    df = M.build_df(eff, col_order=col_order)
    labels = labels_of(case)
    if case["method"] == "set_index":
        return df.set_index(pd.Index(labels, name=name))
    df.index = pd.Index(labels, name=name)
    return df


def materialize(eff, df, forms=None):
    forms = forms or {}
    ds, stubs, used = M.make_dataset(eff, df=df, forms=forms)
    dev = M.device_arg(forms.get("device"))
    used["device"] = forms.get("device", "none")
    used["layout"] = forms.get("_layout") or "plain"
    if dev is None:
        ds.materialize()
    else:
        ds.materialize(device=dev)
    tf = ds.tensor_frame
    out = {"tf": G.read_tf(tf), "stats": G.read_stats(ds.col_stats), "columns": list(df.columns), "used": used,
           "sizes": {"len_tf": len(tf), "num_rows": tf.num_rows, "num_cols": tf.num_cols, "ds_num_rows": ds.num_rows,
                     "len_ds": len(ds)},
           "index_name": df.index.name,
           "labels": [x if isinstance(x, str) else int(x) for x in df.index.tolist()]}
    # black boxes, recorded for the correspondence: what the user callables returned, cell by cell
    emb, tok = {}, {}
    for c in eff["cols"]:
        if c["stype"] in ("text_embedded", "image_embedded"):
            w = 3 if c["stype"] == "text_embedded" else 2
            emb[c["name"]] = [G.hash_vec(str(x), w) for batch in stubs[c["name"]].calls for x in batch]
        elif c["stype"] == "text_tokenized":
            tok[c["name"]] = [{"input_ids": stubs[c["name"]].tok(x), "attention_mask": [1] * len(stubs[c["name"]].tok(x))}
                              for batch in stubs[c["name"]].calls for x in batch]
    out["embedded"], out["tokenized"] = emb, tok
    # lookup by name: TensorFrame.get_col_feat for every column the frame lists
    by_name = {}
    rs = bool(forms.get("return_stype"))
    used["return_stype"] = rs
    for names in ds.tensor_frame.col_names_dict.values():
        for name in names:
            try:
                r = ds.tensor_frame.get_col_feat(name, return_stype=True)[0] if rs else ds.tensor_frame.get_col_feat(name)
                by_name[name] = G.read_feat(r)
            except Exception as ex:
                by_name[name] = {"exc": C.exc_name(ex), "msg": str(ex)[:200]}
    out["by_name"] = by_name
    if eff["target"] is not None:
        for attr in ("task_type", "num_classes"):
            try:
                v = getattr(ds, attr)
                out[attr] = v.name if hasattr(v, "name") else int(v)
            except Exception as ex:
                out[attr] = {"exc": C.exc_name(ex)}
    return out, ds


def run(case):
    if case.get("kind") == "keyless":
        return run_keyless(case)
    if case.get("kind") == "guards":
        return run_guards(case)
    eff = effective(case)
    obs = {"ok": True, "variants": {}, "again": {}}
    dfs, tfs, dss, ds_a = {}, {}, {}, None
    plans = [("A", "base", case["frame"]["col_order"]), ("B", "relabel", case["frame"]["col_order"]),
             ("C", "base", case["perm"]), ("D", "relabel", case["perm"])]
    for tag, how, order in plans:
        try:
            df = M.build_df(eff, col_order=order) if how == "base" else relabelled_df(case, eff, order)
            df = M.restride(df, (case.get("layouts") or {}).get(tag))     # an equal frame in another memory layout
            dfs[tag] = df
            o, ds = materialize(eff, df, dict(case.get("forms") or {}, _layout=(case.get("layouts") or {}).get(tag)))
            tfs[tag] = ds.tensor_frame
            dss[tag] = ds
            if tag == "A":
                o["parsed"] = {c["name"]: M.parse_timestamps(ds.df, c) for c in eff["cols"] if c["stype"] == "timestamp"}
                ds_a = ds
            obs["variants"][tag] = dict(o, ok=True)
        except Exception as ex:
            obs["variants"][tag] = {"ok": False, "exc": C.exc_name(ex), "msg": str(ex)[:300], "tb": C.fmt_exc()}
    # the public equality operators between the four materialized frames -- only where C08 (which owns TensorFrame
    # equality) defines them: targets without missing values; with unlabeled target rows the frames are compared
    # cell by cell (NaN matching NaN positionally) as everywhere else in this oracle
    obs["eq"] = {}
    tcol = next((c for c in eff["cols"] if c["name"] == eff["target"]), None)
    eq_defined = tcol is None or all(v is not None for v in tcol["cells"])
    for tag in (("A", "B", "C", "D") if eq_defined else ()):
        if "A" in tfs and tag in tfs:
            try:
                obs["eq"][tag] = [bool(tfs["A"] == tfs[tag]), bool(tfs[tag] == tfs["A"]), bool(tfs["A"] != tfs[tag])]
            except Exception as ex:
                obs["eq"][tag] = {"exc": C.exc_name(ex), "msg": str(ex)[:200]}
    # HISTORY: later conversions through the converter that materialization left behind (dataset A): the same
    # frame again, the relabelled frame, the column-permuted frame, both, and the frame without its target column
    if ds_a is not None:
        again = [("same", dfs.get("A")), ("relabelled", dfs.get("B")), ("permuted", dfs.get("C")), ("both", dfs.get("D")),
                 ("same-2", dfs.get("A"))]
        if eff["target"] is not None and dfs.get("A") is not None:
            again.append(("no-target", dfs["A"].drop(columns=[eff["target"]])))
        for tag, df in again:
            if df is None:
                continue
            try:
                dev = M.device_arg((case.get("forms") or {}).get("device"))
                conv = ds_a.convert_to_tensor_frame
                tf2 = conv(df) if dev is None else (conv(df, dev) if tag in ("same", "permuted") else conv(df, device=dev))
                by_name = {}
                for names in tf2.col_names_dict.values():
                    for name in names:
                        try:
                            by_name[name] = G.read_feat(tf2.get_col_feat(name))
                        except Exception as ex:
                            by_name[name] = {"exc": C.exc_name(ex), "msg": str(ex)[:200]}
                obs["again"][tag] = {"ok": True, "tf": G.read_tf(tf2), "by_name": by_name}
            except Exception as ex:
                obs["again"][tag] = {"ok": False, "exc": C.exc_name(ex), "msg": str(ex)[:300], "tb": C.fmt_exc()}
    # LAST (it edits frames and tensors): the TensorFrame must not share memory with the DataFrame
    obs["aliasing"] = {}
    for tag in ("B", "C"):
        if tag in dss:
            try:
                obs["aliasing"][tag] = M.aliasing_probe(dss[tag], G.read_tf)
            except Exception as ex:
                obs["aliasing"][tag] = [f"aliasing probe crashed: {C.exc_name(ex)}: {ex}"]
    return obs


# ------------------------------------------------------------------ oracle
PARENT = {"text_embedded": "embedding", "image_embedded": "embedding"}
GROUP_ORDER = {"embedding": 0, "text_embedded": 1, "image_embedded": 2}


def canon_tf(tfj, eff):
    """multicategorical cells are sets: sort them"""
    out = json.loads(json.dumps(tfj))
    if "multicategorical" in out["feats"]:
        out["feats"]["multicategorical"] = [[sorted(cell) for cell in row] for row in out["feats"]["multicategorical"]]
    return out


def expected_schema(eff):
    groups = {}
    for st in G_ALL:
        names = sorted(c["name"] for c in eff["cols"] if c["stype"] == st and c["name"] != eff["target"])
        if names:
            groups[st] = names
    out = {}
    for st, names in groups.items():
        if st in PARENT:
            continue
        out[st] = list(names)
    fam = groups.get("embedding", []) + groups.get("text_embedded", []) + groups.get("image_embedded", [])
    if fam:
        out["embedding"] = fam
    return out


G_ALL = ["numerical", "categorical", "text_embedded", "text_tokenized", "multicategorical", "sequence_numerical",
         "timestamp", "image_embedded", "embedding"]


def feat_shape(feat):
    if isinstance(feat, dict):
        return {k: feat_shape(v) for k, v in feat.items()}
    return [len(feat), len(feat[0]) if feat else None]


def oracle(case, obs):
    if "harness_exc" in obs:
        return dict(key="harness-exc", what=obs["harness_exc"], tb=obs.get("tb"))
    if case.get("kind") == "keyless":
        return None
    if case.get("kind") == "guards":
        # C02's statement demands no raise anywhere: whether each documented guard fired is only RECORDED
        # (stats()['guards']); a guard that stops raising is not a violation of C02.  The valid control dataset is
        # judged ("the dataset reports the task type ... and class count that match the target column").
        if obs.get("control") != ["BINARY_CLASSIFICATION", 2, 3]:
            return dict(key="guard-control", what=f"the valid control dataset misbehaves: {obs.get('control')}")
        return None
    eff = effective(case)
    V = obs["variants"]
    sts = sorted({c["stype"] for c in eff["cols"]})
    A = V["A"]
    if not A["ok"]:
        return dict(key=f"materialize-raises:{A['exc']}", what=f"materializing the RangeIndex frame raised {A['exc']}: "
                    f"{A['msg']}", stypes=sts, tb=A.get("tb"))
    # (a) relabelling / column order change nothing
    rl = f"index relabelled ({case['label_kind']} via {case['method']}, index name {case.get('index_name')!r})"
    what = {"B": rl, "C": "columns permuted", "D": rl + " and columns permuted"}
    ca = canon_tf(A["tf"], eff)
    for tag in ("B", "C", "D"):
        o = V[tag]
        kind = "relabel" if tag == "B" else ("colperm" if tag == "C" else "both")
        if not o["ok"]:
            return dict(key=f"{kind}-raises:{o['exc']}", what=f"materialization raised {o['exc']} with {what[tag]}: "
                        f"{o['msg']}", stypes=sts, tb=o.get("tb"))
        co = canon_tf(o["tf"], eff)
        if co != ca:
            where = next((k for k in ("num_rows", "names", "y", "feats") if co[k] != ca[k]), "?")
            return dict(key=f"{kind}-tensorframe:{where}", what=f"TensorFrame differs ({where}) with {what[tag]}",
                        expected=ca[where], observed=co[where], stypes=sts)
        if o["stats"] != A["stats"]:
            col = next(c for c in A["stats"] if o["stats"].get(c) != A["stats"][c])
            return dict(key=f"{kind}-stats", what=f"statistics of column {col} differ with {what[tag]}",
                        expected=A["stats"][col], observed=o["stats"].get(col))
        for attr in ("task_type", "num_classes"):
            if o.get(attr) != A.get(attr):
                return dict(key=f"{kind}-{attr}", what=f"{attr} differs with {what[tag]}", expected=A.get(attr),
                            observed=o.get(attr))
    for tag, r in obs.get("eq", {}).items():
        kind = {"A": "reflexive", "B": "relabel", "C": "colperm", "D": "both"}[tag]
        if isinstance(r, dict):
            return dict(key=f"operator-eq-raises:{r['exc']}", what=f"tensor_frame == tensor_frame raised {r['exc']}: {r['msg']}")
        if r != [True, True, False]:
            wh = "the materialized frame itself" if tag == "A" else "the frame materialized with " + what[tag]
            return dict(key=f"operator-eq:{kind}",
                        what=f"(A == X, X == A, A != X) = {r} for X = {wh}; equal DataFrames must give equal TensorFrames")
    sz = A.get("sizes")
    if sz and (sz["len_tf"] != eff["n"] or sz["num_rows"] != eff["n"] or sz["ds_num_rows"] != eff["n"] or sz["len_ds"] != eff["n"]
               or sz["num_cols"] != len(eff["cols"]) - (1 if eff["target"] else 0)):
        return dict(key="sizes", what=f"len(tf) / num_rows / num_cols / dataset sizes {sz} for a frame of {eff['n']} rows "
                    f"and {len(eff['cols']) - (1 if eff['target'] else 0)} feature columns")
    for tag, pr in obs.get("aliasing", {}).items():
        if pr:
            return dict(key="aliases-dataframe", what=f"variant {tag} ({what.get(tag, 'base')}): " + "; ".join(pr))
    # (a') every LATER conversion through the dataset's converter equals the materialized frame, cell by cell and
    #      name by name (without the target column: the same features and no y)
    for tag, o in obs.get("again", {}).items():
        how = f"a later ds.convert_to_tensor_frame(df) [{tag}]"
        if not o["ok"]:
            return dict(key=f"reconvert-raises:{o['exc']}", what=f"{how} raised {o['exc']}: {o['msg']}", stypes=sts,
                        tb=o.get("tb"))
        co = canon_tf(o["tf"], eff)
        want = dict(ca, y=None) if tag == "no-target" else ca
        if co != want:
            where = next((k for k in ("num_rows", "names", "y", "feats") if co[k] != want[k]), "?")
            return dict(key=f"reconvert:{where}", what=f"{how} differs from the materialized TensorFrame ({where})",
                        expected=want[where], observed=co[where], stypes=sts)
        if o["by_name"] != A["by_name"]:
            name = next(n for n in A["by_name"] if o["by_name"].get(n) != A["by_name"][n])
            return dict(key="reconvert:lookup-by-name", what=f"{how}: get_col_feat({name!r}) differs from the "
                        f"materialized frame's", expected=A["by_name"][name], observed=o["by_name"].get(name))
    # (b) schema facts read off the TensorFrame
    tfj = A["tf"]
    exp = expected_schema(eff)
    if tfj["names"] != exp:
        return dict(key="schema-names", what="col_names_dict is not grouped-by-stype / sorted / children-behind-embedding",
                    expected=exp, observed=tfj["names"])
    if eff["target"] is not None and any(eff["target"] in v for v in tfj["names"].values()):
        return dict(key="schema-target-in-features", what="target column appears among the features")
    if tfj["num_rows"] != eff["n"]:
        return dict(key="schema-num-rows", what=f"frame has {tfj['num_rows']} rows, DataFrame has {eff['n']}")
    for st, names in tfj["names"].items():
        feat = tfj["feats"].get(st)
        if feat is None:
            return dict(key="schema-feat-missing", what=f"no feature data for stype {st}")
        mats = list(feat.values()) if isinstance(feat, dict) else [feat]
        for m in mats:
            if len(m) != eff["n"] or any(len(row) != len(names) for row in m):
                return dict(key="schema-feat-shape", what=f"feature data of {st} is not {eff['n']} x {len(names)}",
                            observed=feat_shape(feat))
    # every listed column is retrievable by name and is column j of its group
    for st, names in tfj["names"].items():
        feat = tfj["feats"][st]
        for j, name in enumerate(names):
            got = A["by_name"].get(name)
            if isinstance(got, dict) and "exc" in got:
                return dict(key=f"lookup-by-name-raises:{got['exc']}", what=f"get_col_feat({name!r}) raised {got['exc']}: "
                            f"{got['msg']} although col_names_dict lists the column under {st}")
            if isinstance(feat, dict):
                expn = {k: [[row[j]] for row in m] for k, m in feat.items()}
            else:
                expn = [[row[j]] for row in feat]
            if got != expn:
                return dict(key="lookup-by-name", what=f"get_col_feat({name!r}) is not column {j} of feat_dict[{st}]",
                            expected=expn, observed=got)
    if set(tfj["feats"]) != set(tfj["names"]):
        return dict(key="schema-keys", what="feat_dict and col_names_dict have different keys")
    # _update_col_stats: EMB_DIM of every column of the merged embedding group is that column's width
    width = {"text_embedded": 3, "image_embedded": 2}
    for name in tfj["names"].get("embedding", []):
        col = next(c for c in eff["cols"] if c["name"] == name)
        w = width.get(col["stype"], col.get("width"))
        if A["stats"].get(name, {}).get("EMB_DIM") != w:
            return dict(key="schema-emb-dim", what=f"EMB_DIM of column {name} is {A['stats'].get(name, {}).get('EMB_DIM')}, "
                        f"its vectors have width {w}")
    if (tfj["y"] is None) != (eff["target"] is None):
        return dict(key="schema-y", what="y present iff a target column is configured fails")
    # positional: every cell is the encoding of the cell in the same row of the column with that name
    by = {c["name"]: c for c in eff["cols"]}
    for st, names in tfj["names"].items():
        for j, name in enumerate(names):
            col = by[name]
            stats = A["stats"].get(name, {})
            for i, cell in enumerate(col["cells"]):
                if col["stype"] == "text_tokenized":
                    ids = tfj["feats"][st]["input_ids"][i][j]
                    s = text_seen(col, cell)
                    expi = [ord(ch) % 97 for ch in s][:6]
                    if ids != expi or tfj["feats"][st]["attention_mask"][i][j] != [1] * len(expi):
                        return dict(key="position:text_tokenized", what=f"tokens of row {i} column {name} are {ids}, "
                                    f"the tokenizer maps {s!r} to {expi}")
                    continue
                exp_cell = G.expected_cell(col, cell, stats)
                got = G.canon_sorted(tfj["feats"][st][i][j], col["stype"])
                if got != exp_cell:
                    return dict(key=f"position:{col['stype']}", what=f"cell (row {i}, column {name}) holds {got}, the "
                                f"canonical encoding of the raw cell {cell!r} in that row is {exp_cell}")
    if eff["target"] is not None:
        col = by[eff["target"]]
        for i, cell in enumerate(col["cells"]):
            e = G.expected_cell(col, cell, A["stats"].get(col["name"], {}))
            if [tfj["y"][i]] != e:
                return dict(key="position:y", what=f"y[{i}] = {tfj['y'][i]}, target cell {cell!r} encodes as {e}")
        # (c) task type / class count
        if col["stype"] == "numerical":
            et, ec = "REGRESSION", None
        else:
            k = len({(type(v).__name__, v) for v in col["cells"] if v is not None})
            if k < 2:
                return None      # a one-class target is outside the property (num_classes asserts >= 2 classes)
            et, ec = ("BINARY_CLASSIFICATION" if k == 2 else "MULTICLASS_CLASSIFICATION"), k
        if A.get("task_type") != et:
            return dict(key="task-type", what=f"task_type is {A.get('task_type')}, the target column says {et}")
        if ec is not None and A.get("num_classes") != ec:
            return dict(key="num-classes", what=f"num_classes is {A.get('num_classes')}, the target has {ec} distinct values")
    return None


def text_seen(col, cell):
    """str(x) of a raw text cell as the mapper renders it (missing -> 'None' / 'nan')"""
    if cell is not None:
        return cell
    return "None" if col.get("nan_kind", "none") == "none" and col["dtype"] == "object" else "nan"


# ------------------------------------------------------------------ shrinking, evidence
def shrink(case):
    if case.get("kind") in ("keyless", "guards"):
        return
    fr = case["frame"]
    cols = fr["cols"]
    for k, c in enumerate(cols):
        if c["name"] != fr["target"] and len(cols) > 1:
            rest = cols[:k] + cols[k + 1:]
            nfr = dict(fr, cols=rest, col_order=[n for n in fr["col_order"] if n != c["name"]])
            yield dict(case, frame=nfr, perm=[n for n in case["perm"] if n != c["name"]])
    tcol = next((c for c in cols if c["name"] == fr["target"] and c["stype"] == "categorical"), None)
    if len(case["rows"]) > 1:
        for k in range(len(case["rows"])):
            rows = case["rows"][:k] + case["rows"][k + 1:]
            if tcol is not None and len({str(tcol["cells"][r]) for r in rows}) < 2:
                continue         # keep >= 2 target classes: stay inside the quantifier
            yield dict(case, rows=rows, split=min(case["split"], len(rows)))
    if fr["target"] is not None:
        nfr = dict(fr, target=None, cols=[c for c in cols if c["name"] != fr["target"]],
                   col_order=[n for n in fr["col_order"] if n != fr["target"]])
        if nfr["cols"]:
            yield dict(case, frame=nfr, perm=[n for n in case["perm"] if n != fr["target"]])
    if case["method"] != "assign" and case["label_kind"] != "positions":
        yield dict(case, method="assign")
    if case.get("index_name") is not None:
        yield dict(case, index_name=None)


def nontrivial_sig(case, obs):
    if case.get("kind") == "keyless":
        return json.dumps(["keyless", obs.get("orders")])
    if case.get("kind") == "guards":
        return json.dumps(["guards", obs.get("raised")])
    if not obs.get("variants", {}).get("A", {}).get("ok"):
        return None
    fr = case["frame"]
    if len(fr["cols"]) - (1 if fr["target"] else 0) < 2 and case["label_kind"] == "range":
        return None
    tgt = next((c["stype"] for c in fr["cols"] if c["name"] == fr["target"]), None)
    rank = {n: i for i, n in enumerate(sorted(fr["col_order"]))}
    iname = case.get("index_name")
    sig = [sorted(c["stype"] for c in fr["cols"]), len(case["rows"]), case["label_kind"], case["method"], tgt,
           iname if iname in (None, "data", "index", "level_0") else "col",
           [rank[n] for n in fr["col_order"]], [rank[n] for n in case["perm"]]]
    return json.dumps(sig)


def stats(cases, obss):
    d = {"stypes": {}, "label_kind": {}, "method": {}, "rows": {}, "target": {}, "raised": 0, "dup_labels": 0,
         "with_children": 0, "total": 0}
    for c, o in zip(cases, obss):
        if c is None:
            continue
        if c.get("kind") == "keyless":
            d["keyless_witness"] = (o or {}).get("orders")
            continue
        if c.get("kind") == "guards":
            d["guards"] = (o or {}).get("raised")
            continue
        d["total"] += 1
        fr = c["frame"]
        d["label_kind"][c["label_kind"]] = d["label_kind"].get(c["label_kind"], 0) + 1
        d["method"][c["method"]] = d["method"].get(c["method"], 0) + 1
        for v in (o or {}).get("variants", {}).values():
            M.count_forms(d, v.get("used"))
        d["eq_operator_uses"] = d.get("eq_operator_uses", 0) + len((o or {}).get("eq", {}))
        d["aliasing_probes"] = d.get("aliasing_probes", 0) + len([v for v in (o or {}).get("aliasing", {}).values()
                                                                   if v is not None])
        iname = c.get("index_name")
        ik = iname if iname in (None, "data", "index", "level_0") else "like-a-column"
        d.setdefault("index_name", {})
        d["index_name"][str(ik)] = d["index_name"].get(str(ik), 0) + 1
        d.setdefault("label_x_name", {})
        key = f"{c['label_kind']}/{'named' if iname is not None else 'unnamed'}"
        d["label_x_name"][key] = d["label_x_name"].get(key, 0) + 1
        d["rows"][len(c["rows"])] = d["rows"].get(len(c["rows"]), 0) + 1
        b = d.setdefault("boundaries", {})
        if len(c["rows"]) >= 256:
            b["rows>=256"] = b.get("rows>=256", 0) + 1
        if len(c["rows"]) == 1:
            b["one-row-frame"] = b.get("one-row-frame", 0) + 1
        for x in fr["cols"]:
            cells = [x["cells"][r] for r in c["rows"]]
            if x["stype"] == "embedding" and x.get("width") == 1:
                b["embedding-width-1"] = b.get("embedding-width-1", 0) + 1
            if x["stype"] == "categorical":
                from collections import Counter
                cnt = sorted(Counter(str(v) for v in cells if v is not None).values(), reverse=True)
                if len(cnt) >= 2 and cnt[0] == cnt[1]:
                    b["tied-categories/" + c["label_kind"]] = b.get("tied-categories/" + c["label_kind"], 0) + 1
            lab = labels_of(c)
            if any(v is None and [str(z) for z in lab].count(str(lab[i])) > 1 for i, v in enumerate(cells)):
                b["missing-cell-on-duplicated-label"] = b.get("missing-cell-on-duplicated-label", 0) + 1
        tgt = next((x["stype"] for x in fr["cols"] if x["name"] == fr["target"]), "none")
        d["target"][tgt] = d["target"].get(tgt, 0) + 1
        tcol = next((x for x in fr["cols"] if x["name"] == fr["target"]), None)
        if tcol is not None and any(tcol["cells"][r] is None for r in c["rows"]):
            k = f"{tgt}/{c.get('unlabeled') or 'some'}"
            d.setdefault("unlabeled_target", {})
            d["unlabeled_target"][k] = d["unlabeled_target"].get(k, 0) + 1
        lab = labels_of(c)
        if len(set(map(str, lab))) < len(lab):
            d["dup_labels"] += 1
        if any(x["stype"] in PARENT for x in fr["cols"]):
            d["with_children"] += 1
        embs = [x["name"] for x in fr["cols"] if x["stype"] == "embedding" and x["name"] != fr["target"]]
        kids = [x["name"] for x in fr["cols"] if x["stype"] in PARENT]
        if embs and kids and max(embs) > min(kids):
            d["embedding_sorts_after_child"] = d.get("embedding_sorts_after_child", 0) + 1
        d["reconversions"] = d.get("reconversions", 0) + len((o or {}).get("again", {}))
        if any(not v.get("ok") for v in (o or {}).get("variants", {}).values()):
            d["raised"] += 1
        for x in fr["cols"]:
            d["stypes"][x["stype"]] = d["stypes"].get(x["stype"], 0) + 1
    return d


# ------------------------------------------------------------------ Coq side
TASK = {"REGRESSION": "task_REGRESSION", "BINARY_CLASSIFICATION": "task_BINARY_CLASSIFICATION",
        "MULTICLASS_CLASSIFICATION": "task_MULTICLASS_CLASSIFICATION",
        "MULTILABEL_CLASSIFICATION": "task_MULTILABEL_CLASSIFICATION"}
INT_FEATS = ("categorical", "multicategorical", "timestamp", "text_tokenized")


def coq_frame(eff, variant, parsed, labels, order):
    by = {c["name"]: c for c in eff["cols"]}
    cols = []
    for name in order:
        col = by[name]
        raw = M.rawcol(col, variant["stats"].get(name, {}), parsed=parsed.get(name),
                       embedded=variant["embedded"].get(name), tokenized=variant["tokenized"].get(name))
        cols.append(f"({M.pstr(name)}, {raw})")
    return f"(MkFrame {M.plist(labels, M.ppval)} {M.plist(cols)})"


def coq_obs(eff, variant):
    tfj = variant["tf"]
    by = {c["name"]: c for c in eff["cols"]}
    names = M.plist(list(tfj["names"].items()),
                    lambda kv: f"({M.stype_ctor(kv[0])}, {M.plist(kv[1], M.pstr)})")

    def rows(mat, is_int, sort=False):
        return M.plist(mat, lambda row: M.plist(row, lambda cell: M.pecell(sorted(cell) if sort else cell, is_int)))
    feats = []
    for st, feat in tfj["feats"].items():
        if isinstance(feat, dict):
            d = M.plist(list(feat.items()), lambda kv: f"({M.pstr(kv[0])}, {rows(kv[1], True)})")
            feats.append(f"({M.stype_ctor(st)}, ODict {d})")
        else:
            feats.append(f"({M.stype_ctor(st)}, OCols {rows(feat, st in INT_FEATS, sort=(st == 'multicategorical'))})")
    if tfj["y"] is None:
        y = "None"
    else:
        is_int = by[eff["target"]]["stype"] != "numerical"
        y = "(Some " + M.plist(tfj["y"], lambda v: M.pscalar(v, is_int)) + ")"
    dims = [(n, variant["stats"][n]["EMB_DIM"]) for n in tfj["names"].get("embedding", [])]
    dims = M.plist(dims, lambda p: f"({M.pstr(p[0])}, {M.nat(p[1])})")
    return f"(MkObs {M.nat(tfj['num_rows'])} {names} {M.plist(feats)} {y} {dims})"


def coq_term(case, obs):
    if case.get("kind") == "guards":
        # the decision table of Model/DatasetInit.v on the constructor scenarios: compared only where the
        # implementation raised (C02 demands no raise), plus the valid control dataset
        cols = ["x", "c", "m", "t", "t2", "ts", "one", "sp", "bad"]
        base = {"columns": cols, "stypes": [("x", "numerical"), ("c", "categorical")], "target": None, "split": None,
                "split_vals": [], "sep": None, "fmt": None, "text": None, "image": None, "tok": None}
        scen = {
            "partial-embedder-cfg": dict(base, stypes=[("t", "text_embedded"), ("t2", "text_embedded"), ("x", "numerical")],
                                         text=["t"]),
            "split-col-missing": dict(base, split="nope"),
            "split-col-in-stypes": dict(base, stypes=base["stypes"] + [("sp", "numerical")], split="sp", split_vals=[0, 1, 2]),
            "split-col-bad-values": dict(base, split="bad", split_vals=[0, 5, 1]),
            "missing-column": dict(base, stypes=base["stypes"] + [("ghost", "numerical")]),
            "multilabel-target": dict(base, stypes=[("m", "multicategorical"), ("x", "numerical")], target="m", sep="|"),
        }
        parts = [f"negb (init_accepts {M.ds_args_literal(a)})" for n, a in scen.items() if obs["raised"].get(n)]
        if obs["raised"].get("sep-wrong-type"):
            parts.append("negb (init_accepts (MkArgs " + M.plist(cols, M.pstr) + " [([109], st_multicategorical); "
                         "([120], st_numerical)] None None [] (ADict [([109], PBad)]) (ASingle PNone) (ASingle PNone) "
                         "(ASingle PNone) (ASingle PNone)))")
        parts.append("init_accepts " + M.ds_args_literal(dict(base, target="c", split="sp", split_vals=[0, 1, 2])))
        return "(" + " && ".join(parts) + ")"
    if case.get("kind") == "keyless":
        # the model mirrors the current code's raise: it is compared only for the orders on which the implementation
        # raised (a tolerant implementation is not a violation of C02) and for the order that must work
        o = obs.get("orders", {})
        f = "(MkFrame [0%nat; 1%nat] {})"
        parts = []
        if not o.get("tok-first"):
            parts.append(f"negb (converts Nat.eqb None {f.format('keyless_cols')})")
        if o.get("num-first"):
            parts.append(f"converts Nat.eqb None {f.format('(rev keyless_cols)')}")
        return "(" + " && ".join(parts or ["true"]) + ")"
    V = obs.get("variants", {})
    if not all(V.get(t, {}).get("ok") for t in "ABCD"):
        return None
    if len(case["rows"]) > 64:
        return None     # large frames: every cell is judged by the oracle; the Coq evaluation stops at 64 rows
    eff = effective(case)
    parsed = V["A"]["parsed"]
    tgt = "None" if eff["target"] is None else f"(Some {M.pstr(eff['target'])})"
    parts = []
    for tag in ("A", "D"):
        v = V[tag]
        fr = coq_frame(eff, v, parsed, v["labels"], v["columns"])
        parts.append(f"check_tf pval_eqb {tgt} {fr} {coq_obs(eff, v)}")
    # Dataset.__init__ (Model/DatasetInit.v): these arguments are accepted and canonicalised as the real dataset did
    if V["A"].get("used", {}).get("_args"):
        parts.append(M.check_config_term(V["A"]["used"]["_args"]))
    # the model's later calls of the same converter object vs the later conversions observed
    fra = coq_frame(eff, V["A"], parsed, V["A"]["labels"], V["A"]["columns"])
    # ("same-2" is the 5th later call; by converter_state_is_fixed_point it is the same computation as the 2nd)
    for tag, k in (("same", 1), ("same-2", 2)):
        ag = obs.get("again", {}).get(tag)
        if ag and ag.get("ok"):
            pseudo = dict(V["A"], tf=ag["tf"])
            parts.append(f"check_tf_again pval_eqb {tgt} {fra} {k}%nat {coq_obs(eff, pseudo)}")
    if eff["target"] is not None:
        a = V["A"]
        col = next(c for c in eff["cols"] if c["name"] == eff["target"])
        raw = M.rawcol(col, a["stats"].get(col["name"], {}))
        tt = a.get("task_type")
        nc = a.get("num_classes")
        tts = f"(Some {TASK[tt]})" if isinstance(tt, str) else "None"
        ncs = f"(Some {M.nat(nc)})" if isinstance(nc, int) else "None"
        parts.append(f"check_task ({raw}) {tts} {ncs}")
    return "(" + " && ".join(parts) + ")"


def sanity(cases, obss):
    """Fail-closed distribution check: all nine stypes, every labeling x {named, unnamed index}, every relabelling
    method, every index-name kind, targets of both kinds and none, frames with merged children and duplicated
    labels must all be drawn, and raising cases stay a minority."""
    d = stats(cases, obss)
    probs = []
    if d["total"] and d["raised"] > 0.6 * d["total"]:
        probs.append(f"{d['raised']} of {d['total']} cases raise")
    for st in G_ALL:
        if d["stypes"].get(st, 0) == 0:
            probs.append(f"stype {st} never drawn")
    for k in LABEL_KINDS + ["positions", "derived"]:
        for nm in ("named", "unnamed"):
            if d.get("label_x_name", {}).get(f"{k}/{nm}", 0) == 0:
                probs.append(f"labeling {k} with {nm} index never drawn")
    for m in set(METHODS):
        if d["method"].get(m, 0) == 0:
            probs.append(f"relabelling method {m} never drawn")
    for k in ("None", "data", "index", "like-a-column"):
        if d.get("index_name", {}).get(k, 0) == 0:
            probs.append(f"index name kind {k} never drawn")
    for t in ("numerical", "categorical", "none"):
        if d["target"].get(t, 0) == 0:
            probs.append(f"target kind {t} never drawn")
    if d["dup_labels"] == 0:
        probs.append("duplicated labels never drawn")
    if len(d.get("guards") or {}) < 15:
        probs.append("the Dataset guard scenarios did not run")
    if d.get("aliasing_probes", 0) == 0:
        probs.append("aliasing probe never ran")
    for k in M.missing_forms(d, extra=["cfg=single", "cfg=dict"] + M.REQUIRED_BACKINGS +
                             ["layout=" + x for x in M.RESTRIDES + ["plain"]]):
        if k != "path=True":
            probs.append(f"signature form {k} never drawn")
    for k in (["rows>=256", "one-row-frame", "embedding-width-1", "missing-cell-on-duplicated-label"] +
              ["tied-categories/" + i for i in LABEL_KINDS + ["positions"]]):
        if d.get("boundaries", {}).get(k, 0) == 0:
            probs.append(f"boundary {k} never drawn")
    if not d.get("keyless_witness"):
        probs.append("the key-less tokenizer witness did not run")
    if d.get("eq_operator_uses", 0) == 0:
        probs.append("TensorFrame == never exercised")
    for k in ("numerical/first", "numerical/last", "numerical/all", "categorical/first", "categorical/last"):
        if d.get("unlabeled_target", {}).get(k, 0) == 0:
            probs.append(f"target with unlabeled rows ({k}) never drawn")
    if d["with_children"] == 0:
        probs.append("no frame with text/image-embedded columns")
    if d.get("embedding_sorts_after_child", 0) < 3:
        probs.append("fewer than 3 frames whose embedding column sorts after a text/image-embedded column")
    if d.get("reconversions", 0) < 4 * d["total"]:
        probs.append("later conversions through the fitted converter are not being exercised")
    return probs
