"""C18 — stype inference follows its decision table and ignores row order and labels.

Cases
  kind "series": one homogeneous column of a decision-table family (cells written
      out), plus variants = (row permutation, index labeling, missing cells added)
      of the same column.  The implementation is run on the base column and on
      every variant.
  kind "df": a frame of several such columns (plus all-missing columns) under one
      index labeling; infer_df_stype against per-column infer_series_stype.

Cell encoding (JSON): ["f", num, den] float | ["i", z] int | ["b", bool] | ["s", str]
  non-date string | ["d", str] date string | ["l", [elem...]] list | ["m", "none"|"nan"].
  elem: ["i", z] | ["f", num, den] | ["nan"] | ["inf", sign] | ["s", str].
"""
from __future__ import annotations

import collections
import itertools
import json
import math
import re
import warnings
from fractions import Fraction

import numpy as np
import pandas as pd
import pandas.api.types as ptypes

from harness import common as C

# Clause-by-clause coverage of the property text (properties.jsonl C18): clause -> oracle key(s) -> generator.
CLAUSES = [
    ("inference is a deterministic function of the column's non-missing values",
     "variant:<family> (identity / missing-added variants re-run the same values)", "series: every family, variants"),
    ("float columns infer numerical", "table:float:*", "series family float (default / float32 / Float64 backing)"),
    ("booleans ... categorical", "table:bool:*", "series family bool (numpy bool, object with missing, boolean)"),
    ("low-cardinality repeated integers ... categorical (else numerical)", "table:int:*",
     "series family int, multiplicities 1..7 (int64 / Int64 / int32 / int8 / uint8, float64 when missing)"),
    ("low-cardinality repeated ... strings categorical", "table:strcat:*", "series family strcat x object/str/string"),
    ("parseable dates timestamp", "table:date:*, table:datex:*, date-format-inference-order-dependent (known finding)",
     "series families date (explicit formats) and datex (guessed / mixed formats)"),
    ("lists of equal-length finite floats embedding", "table:emb:*", "series family emb"),
    ("other numeric lists numerical sequence", "table:seqnum:*", "series family seqnum (ragged / int / nan / inf)"),
    ("lists of strings ... multicategorical", "table:strlist:*", "series family strlist"),
    ("delimiter-joined repeated tokens multicategorical", "table:multicat:*",
     "series family multicat (seps | , ; /, token multiplicities 2..6, padding, duplicates in a row)"),
    ("free text text-embedded", "table:text:*, table:strcat:* / table:multicat:* below the threshold",
     "series families text, strcat, multicat"),
    ("an all-missing column is skipped", "table:allmissing:*, df:table, df:not-per-column",
     "series family allmissing; df columns allmissing"),
    ("unchanged by permuting the rows", "variant:<family>", "variants with perm (thorough: ALL permutations, n <= 5)"),
    ("unchanged by relabeling the index", "variant:<family>",
     "variants with labels offset / perm / string / dup / multi / datetime / float; Series name None/str/int"),
    ("unchanged by adding missing cells to a string- or list-valued column", "variant:<family>",
     "variants with add (None / np.nan / float('nan') / pd.NA), also for int and bool columns"),
    ("frame-level inference is exactly the per-column inference over the columns that yield a type",
     "df:not-per-column, df:table, df:raised", "df cases (concat / dict / assign built, str / int / tuple labels, "
     "blank rows, single column), positional and keyword call, module and torch_frame.utils entry point"),
    ("quantifier: both pandas string representations", "table:* on sdtype object and str (plus nullable string)",
     "sdtype in every string family"),
    ("quantifier: both sides of the frequency threshold (4 vs 5)", "table:int / strcat / multicat",
     "_counts(): min multiplicity 1..7 weighted to 4 and 5; sanity() fails closed if 4 or 5 is not drawn"),
]

# Every raise / assert / try-except / special-case branch / dtype cast / exact float comparison of the anchored code
# (infer_stype.py, MultiCategoricalTensorMapper.split_by_sep): site -> generator kind that reaches it -> oracle key.
ERROR_PATHS = [
    ("_is_timestamp: try/except (ValueError, ParserError, TypeError) per candidate format",
     "families date / datex (accepted), strcat / multicat / text / bool+missing object columns (every format raises)",
     "table:date:*, table:datex:*, table:strcat:* (a string column turning timestamp), known date key"),
    ("_lst_is_all_type: assert isinstance(lst, list); isinstance(x, (int, float)) / float / str",
     "families emb / seqnum / strlist; boundaries list_one_int_first/last", "table:emb:*, table:seqnum:*, table:strlist:*"),
    ("_lst_is_free_of_nan_and_inf: math.isnan / math.isinf", "seqnum 'nan' / 'inf', boundaries list_one_nan_last, "
     "list_one_inf_first", "table:seqnum:sequence_numerical->embedding"),
    ("has_nan = ser.isna().any(); dropna", "missing kinds None / np.nan / float('nan') / pd.NA in every family",
     "variant:<family>, table:*"),
    ("len(ser) == 0 -> None", "family allmissing, boundaries size0, df_all_missing", "table:allmissing:*, df:table"),
    ("isinstance(ser.iloc[0], list) AFTER dropna; `if not isinstance(lst, list): return None`",
     "list families with a leading missing cell (missing_first); the early return needs a mixed column: stream "
     "'mixed' (outside the quantifier, run but not judged)", "variant:emb / seqnum / strlist"),
    ("length == len(lst) (exact comparison with the FIRST list)", "boundaries list_first/last_longer/shorter", "table:seqnum:*"),
    ("is_numeric_dtype / is_bool_dtype / is_float_dtype dispatch", "every numeric backing (int64, Int64, int32, int8, "
     "uint8, float64, Float64, float32, bool, boolean)", "table:int / float / bool:*, Coq dtype_preds"),
    ("(ser % 1 == 0).all()  -- exact float comparison, only with has_nan",
     "families wholefloat (2^53 .. 1e300, -0.0), floatinf (inf % 1 is NaN), float (one non-integral value + NaN), "
     "int + missing; boundaries wholefloat_*, float_inf_nan, float_signed_zero_*",
     "table:wholefloat:*, table:floatinf:*, table:float:*, table:int:*"),
    ("_min_count(ser) > cat_min_count_thresh (numeric, string and not-string branch)",
     "multiplicities 1..7, boundaries *_const_3..6, *_tie_5_5, *_5_4", "table:int / strcat / wholefloat:*; make (threshold_is_4_vs_5)"),
    ("is_bool_dtype(ser) or infer_dtype(ser) == 'boolean' (object column of bools)", "family bool with missing cells "
     "(None / NaN / pd.NA), boolean backing", "table:bool:*"),
    ("`if not is_string_dtype(ser)` -> multicategorical / embedding", "only reachable with cells that are neither "
     "strings nor lists nor numbers (tuples, ndarrays, mixed): outside the quantifier, reported in DESIGN 8", "-"),
    ("isinstance(ser.iloc[0], (list, np.ndarray)) inside the string branch", "dead for string columns", "-"),
    ("try/except Exception around split_by_sep per separator; max(min_count_list or [0])",
     "every string family (no separator raises on str cells: the except / `or [0]` arm is dead there); blank cells "
     "(boundary tok_blank_cell) give an EMPTY exploded series whose min is NaN", "table:multicat:*, table:text:*"),
    ("split_by_sep: None / pd.NA / NaN -> {-1}", "not reachable from inference (dropna first); covered by C01", "-"),
    ("split_by_sep: row.strip() == '' -> set(); assert sep is not None; {cat.strip() ...}",
     "multicat rows with padding, duplicates, blank cells; boundaries tok_ws_merge_5, tok_dup_in_row_4, tok_blank_cell",
     "table:multicat:*"),
    ("infer_df_stype: `if stype is not None`", "df cases with all-missing columns (first / last / all / none)",
     "df:not-per-column, df:table"),
]

PROP = "C18"
HEADER = "Require Import Coq.QArith.QArith PF.Gen.Tables PF.Model.Infer."
MODEL_TARGETS = ["Model/Infer.vo"]
SHARD = 150
RULE = ("homogeneous columns of every decision-table family (float, int, bool, date string, repeated string, "
        "delimiter-joined tokens, free text, float-list, other numeric list, string list, all-missing) with "
        "multiplicities on both sides of the min-count threshold (3..6), both pandas string dtypes, each with "
        "variants (row permutation x index labeling x missing cells added to string/list columns); frames of such "
        "columns for infer_df_stype.  distinct = distinct (family, string dtype, size, min multiplicity, token "
        "min multiplicity, result, set of variant kinds); non-trivial = the column has a non-missing cell or is "
        "a frame with >= 1 column")
TRUSTED = [
    "Coq 8.16.1 kernel + vm_compute (no native_compute)",
    "hand-written model coq/Model/Infer.v of infer_stype.py + split_by_sep, tied to /repo by this run's correspondence",
    "coq/Gen/Tables.v (cat_min_count_thresh, possible_seps read from the source by ast on every run)",
    "modelled primitives: pandas dtype of a homogeneous column and is_numeric/bool/float/string_dtype on it "
    "(compared on every case), isna/dropna, value_counts().min(), str.split/strip, set, explode",
    "pandas' date recognition (pd.to_datetime): 'is a date string' is an input classification of the generator",
    "harness/c18.py (generator, plain-Python decision table, Coq literal printer)",
]
ASSUMPTIONS = [
    "no oracle key of C18 demands a raise (the statement names none): raised:<family> and df:raised demand that "
    "inference does NOT raise on a column of the decision table; the Coq model never predicts an exception",
    "columns are homogeneous (all non-missing cells of one kind); the model is not validated on mixed-kind "
    "object columns, nor on bool columns with missing cells (outside the property's quantifier)",
    "date strings are ISO-like dates pandas certainly parses, non-date strings are tokens it certainly rejects",
    "index labels are absent from the model; label independence is an observation (relabelled variants)",
    "numeric payloads are small dyadic rationals / small ints (exact in float64)",
]

CONS = "bcdfghjklmnpqrstvwxz"
VOCAB = ["k%s%sq" % (a, b) for a in "aeiou" for b in CONS]
REF_SEPS = ["|", ","]          # the delimiters of the decision table
REF_THRESH = 4                  # "min count 4 vs 5"
# the explicit candidate formats of _is_timestamp (besides "let pandas guess")
REF_TIME_FORMATS = ["%Y-%m-%d %H:%M:%S", "%Y-%m-%d", "%Y/%m/%d"]
KNOWN_DATE_KEY = "date-format-inference-order-dependent"
STYPES = {"numerical", "categorical", "text_embedded", "text_tokenized", "multicategorical",
          "sequence_numerical", "timestamp", "image_embedded", "embedding"}
LIST_FAMS = ("emb", "seqnum", "strlist")
STR_FAMS = ("date", "strcat", "multicat", "text")


# ----------------------------------------------------------------- generators
def _fl(rng, integral=False):
    if integral:
        return ["f", rng.randint(-6, 9), 1]
    den = rng.pick([2, 4, 8])
    num = rng.randint(-40, 60)
    if num % den == 0:
        num += 1
    return ["f", num, den]


def _counts(rng, k):
    """k multiplicities whose minimum straddles the threshold."""
    m = rng.wpick([(1, 1), (1, 2), (2, 3), (6, 4), (6, 5), (2, 6), (1, 7)])
    cs = [m] + [m + rng.pick([0, 0, 1, 2, 3]) for _ in range(k - 1)]
    rng.shuffle(cs)
    return cs


def _rep(rng, values, counts):
    cells = []
    for v, c in zip(values, counts):
        cells += [v] * c
    rng.shuffle(cells)
    return cells


def _miss(rng):
    return ["m", rng.pick(["none", "nan"])]


def _insert_missing(rng, cells, p=0.5):
    cells = list(cells)
    if rng.chance(p):
        for _ in range(rng.randint(1, 2)):
            cells.insert(rng.pick([0, 0, len(cells), rng.randint(0, len(cells))]), _miss(rng))
    return cells


def gen_float(rng):
    if rng.chance(0.4):       # repeated float values (multiplicity must not matter)
        integral = rng.chance(0.5)    # repeated INTEGRAL floats without a missing cell are still a float column
        vals = [_fl(rng, integral=integral) for _ in range(rng.randint(1, 2))]
        vals = [list(x) for x in sorted({tuple(v) for v in vals})]
        cells = _rep(rng, vals, _counts(rng, len(vals)))
        return cells if integral else _insert_missing(rng, cells)
    if rng.chance(0.25):      # all-integral floats, no missing cell: still a float column
        return [_fl(rng, integral=True) for _ in range(rng.randint(1, 8))]
    n = rng.randint(1, 8)
    cells = [_fl(rng, integral=rng.chance(0.3)) for _ in range(n)]
    cells[rng.randrange(n)] = _fl(rng)        # at least one non-integral value
    return _insert_missing(rng, cells)


WHOLE_MAGNITUDES = [2 ** 53, 2 ** 62, 2 ** 63, int(1e19), -int(1e19), int(1e300), -(2 ** 63), 2 ** 64]


def gen_wholefloat(rng):
    """float columns whose values are all whole, at magnitudes around and beyond the int64 range, with and
    without NaN, 2-3 distinct values with multiplicities on both sides of the threshold (numeric representation:
    `ser % 1 == 0`, value_counts on floats; no integer cast may be involved)"""
    base = float(rng.pick(WHOLE_MAGNITUDES))
    k = rng.randint(1, 3)
    vals = []
    for j in range(1, k + 1):
        v = base * j                                  # exact: a small multiple of a double
        if v in (math.inf, -math.inf) or v != base * j:
            continue
        vals.append(["f", int(v), 1])
    if rng.chance(0.15):
        vals.append(["f", 0, 1, "neg"])               # -0.0
    vals = [list(x) for x in sorted({tuple(v) for v in vals}, key=str)]
    cells = _rep(rng, vals, _counts(rng, len(vals)))
    if rng.chance(0.6):
        cells.insert(rng.pick([0, len(cells), rng.randint(0, len(cells))]), ["m", "nan"])
    return cells


def gen_floatinf(rng):
    """float columns that contain +-inf (inf % 1 is NaN: never whole), with and without NaN"""
    cells = [_fl(rng, integral=True) for _ in range(rng.randint(1, 6))]
    for _ in range(rng.randint(1, 2)):
        cells.insert(rng.randint(0, len(cells)), ["finf", rng.pick([1, -1])])
    if rng.chance(0.5):
        cells.insert(rng.randint(0, len(cells)), ["m", "nan"])
    return cells


def gen_int(rng):
    k = rng.randint(1, 3)
    vals = rng.sample(range(-3, 12), k)
    cells = _rep(rng, [["i", v] for v in vals], _counts(rng, k))
    return _insert_missing(rng, cells, p=0.3)   # ints + missing: pandas holds them as float64


def gen_bool(rng):
    if rng.chance(0.5):
        cells = _rep(rng, [["b", True], ["b", False]], _counts(rng, 2))
    else:
        cells = [["b", rng.chance(0.5)] for _ in range(rng.randint(1, 8))]
    return _insert_missing(rng, cells, p=0.5)   # bools + missing: object dtype in pandas


def date_class(s):
    """(format pandas guesses from the string, formats under which it parses) for the date styles the
    generator emits; plain-Python classification, compared with pandas.guess_datetime_format in run()."""
    if re.fullmatch(r"\d{4}-\d\d-\d\d", s):
        return "%Y-%m-%d", ["%Y-%m-%d"]
    if re.fullmatch(r"\d{4}/\d\d/\d\d", s):
        return "%Y/%m/%d", ["%Y/%m/%d"]
    if re.fullmatch(r"\d{4}-\d\d-\d\d \d\d:\d\d:\d\d", s):
        return "%Y-%m-%d %H:%M:%S", ["%Y-%m-%d %H:%M:%S"]
    m = re.fullmatch(r"(\d\d)/(\d\d)/\d{4}", s)
    if not m:
        raise ValueError("unknown date style: " + s)
    a, b = int(m.group(1)), int(m.group(2))
    if a <= 12 and b <= 12:
        return "%m/%d/%Y", ["%m/%d/%Y", "%d/%m/%Y"]       # ambiguous: pandas reads month first
    if a > 12:
        return "%d/%m/%Y", ["%d/%m/%Y"]
    return "%m/%d/%Y", ["%m/%d/%Y"]


def dates_explicit(cells):
    """all date cells are written in ONE of the explicit candidate formats"""
    ds = [date_class(c[1])[1] for c in cells if c[0] == "d"]
    return any(all(f in a for a in ds) for f in REF_TIME_FORMATS)


def gen_datex(rng):
    """LOW-RATE stream for the known finding: date columns in a format pandas must guess (day first, with
    ambiguous and unambiguous cells in different orders) or in mixed explicit formats."""
    def dayfirst(amb):
        d = rng.randint(1, 12) if amb else rng.randint(13, 28)
        return "%02d/%02d/%04d" % (d, rng.randint(1, 12), rng.randint(1971, 2037))
    if rng.chance(0.65):
        n = rng.randint(2, 5)
        mode = rng.pick(["mixed", "mixed", "mixed", "amb", "unamb"])
        strs = [dayfirst(mode == "amb" or (mode == "mixed" and rng.chance(0.5))) for _ in range(n)]
        if mode == "mixed":
            i, j = rng.sample(range(n), 2)
            strs[i], strs[j] = dayfirst(True), dayfirst(False)
    else:
        n = rng.randint(2, 4)
        fmts = rng.sample([0, 1, 2], 2)
        strs = [_date(rng, rng.pick(fmts)) for _ in range(n)]
        strs[0], strs[1] = _date(rng, fmts[0]), _date(rng, fmts[1])
        rng.shuffle(strs)
    cells = [["d", x] for x in strs]
    if dates_explicit(cells):
        return gen_datex(rng)
    return _insert_missing(rng, cells, p=0.2)


def _date(rng, fmt):
    y, m, d = rng.randint(1971, 2037), rng.randint(1, 12), rng.randint(1, 28)
    if fmt == 0:
        return "%04d-%02d-%02d" % (y, m, d)
    if fmt == 1:
        return "%04d/%02d/%02d" % (y, m, d)
    return "%04d-%02d-%02d %02d:%02d:%02d" % (y, m, d, rng.randint(0, 23), rng.randint(0, 59), rng.randint(0, 59))


def gen_date(rng):
    fmt = rng.randint(0, 2)
    if rng.chance(0.4):
        k = rng.randint(1, 2)
        vals = sorted({_date(rng, fmt) for _ in range(k)})
        cells = _rep(rng, [["d", v] for v in vals], _counts(rng, len(vals)))
    else:
        cells = [["d", _date(rng, fmt)] for _ in range(rng.randint(1, 7))]
    return _insert_missing(rng, cells, p=0.3)


def gen_strcat(rng):
    k = rng.randint(1, 3)
    vals = rng.sample(VOCAB, k)
    if rng.chance(0.25):      # repeated strings that contain a delimiter: whole-string repetition wins
        sep = rng.pick(["|", ","])
        vals = [v + sep + rng.pick(VOCAB) for v in vals]
    cells = _rep(rng, [["s", v] for v in vals], _counts(rng, k))
    return _insert_missing(rng, cells, p=0.3)


def _join(rng, toks, sep):
    toks = list(toks)
    rng.shuffle(toks)
    if rng.chance(0.2):
        toks.append(rng.pick(toks))              # duplicate inside a row: counted once
    style = rng.randint(0, 2)
    out = []
    for t in toks:
        if style == 1 and rng.chance(0.5):
            t = " " + t
        if style == 2 and rng.chance(0.5):
            t = t + "  "
        out.append(t)
    return sep.join(out)


def gen_multicat(rng):
    sep = rng.wpick([(5, "|"), (5, ","), (1, ";"), (1, "/")])
    k = rng.randint(2, 4)
    toks = rng.sample(VOCAB, k)
    m = rng.wpick([(1, 2), (2, 3), (6, 4), (6, 5), (2, 6)])
    nrows = m + rng.randint(0, 3)
    rows = [set() for _ in range(nrows)]
    for r in rng.sample(range(nrows), m):
        rows[r].add(toks[0])                     # the rarest token occurs in exactly m rows
    for t in toks[1:]:
        cnt = rng.randint(m, nrows)
        for r in rng.sample(range(nrows), cnt):
            rows[r].add(t)
    for r in rows:
        if not r:
            r.add(rng.pick(toks[1:]))
    cells = [["s", _join(rng, sorted(r), sep)] for r in rows]
    return _insert_missing(rng, cells, p=0.3)


def gen_text(rng):
    n = rng.randint(1, 8)
    cells = []
    for i in range(n):
        words = [rng.pick(VOCAB) for _ in range(rng.randint(2, 5))] + ["w%d" % i]
        rng.shuffle(words)
        s = " ".join(words)
        if rng.chance(0.2):
            s = s.replace(" ", ", ", 1)
        cells.append(["s", s])
    return _insert_missing(rng, cells, p=0.3)


def gen_emb(rng):
    d = rng.wpick([(1, 0), (3, 1), (4, 2), (3, 3)])
    n = rng.randint(1, 5)
    cells = [["l", [_fl(rng, integral=rng.chance(0.3)) for _ in range(d)]] for _ in range(n)]
    return _insert_missing(rng, cells, p=0.4)


def gen_seqnum(rng):
    n = rng.randint(1, 5)
    d = rng.randint(1, 3)
    cells = [["l", [_fl(rng, integral=rng.chance(0.3)) for _ in range(d)]] for _ in range(n)]
    why = rng.pick(["ragged", "int", "nan", "inf", "allint"])
    j = rng.randrange(n)
    if why == "ragged":
        if n == 1:
            cells.append(["l", [_fl(rng) for _ in range(d + 1)]])
        else:
            cells[j] = ["l", [_fl(rng) for _ in range(rng.pick([x for x in range(0, 5) if x != d]))]]
    elif why == "int":
        cells[j][1][rng.randrange(d)] = ["i", rng.randint(-3, 9)]
    elif why == "nan":
        cells[j][1][rng.randrange(d)] = ["nan"]
    elif why == "inf":
        cells[j][1][rng.randrange(d)] = ["inf", rng.pick([1, -1])]
    else:
        cells = [["l", [["i", rng.randint(-3, 9)] for _ in range(d)]] for _ in range(n)]
    return _insert_missing(rng, cells, p=0.4)


def gen_strlist(rng):
    n = rng.randint(1, 5)
    cells = [["l", [["s", rng.pick(VOCAB)] for _ in range(rng.randint(0, 3))]] for _ in range(n)]
    if all(not c[1] for c in cells):
        cells[rng.randrange(n)] = ["l", [["s", rng.pick(VOCAB)]]]
    return _insert_missing(rng, cells, p=0.4)


def gen_allmissing(rng):
    return [_miss(rng) for _ in range(rng.randint(0, 4))]


def gen_mixed(rng):
    """Malformed stream (outside the property: heterogeneous columns and the two numeric/bool + missing
    ambiguities).  Run and counted, never judged by the oracle and not part of the correspondence."""
    k = rng.pick([0, 1, 2, 4, 4])
    if k == 0:      # list and string cells mixed
        cells = gen_emb(rng) + [["s", rng.pick(VOCAB)]]
        rng.shuffle(cells)
    elif k == 1:    # dates and non-dates mixed
        cells = gen_date(rng) + [["s", rng.pick(VOCAB)]]
        rng.shuffle(cells)
    elif k == 2:    # lists with mixed elements
        cells = [["l", [["s", rng.pick(VOCAB)], ["i", 1]]], ["l", [["f", 3, 2]]]]
    else:           # small whole floats with a missing cell (pandas' image of an int column): judged by the
        # "repeated integers" row of the table and part of the correspondence
        vals = [_fl(rng, integral=True) for _ in range(rng.randint(1, 2))]
        vals = [list(x) for x in sorted({tuple(v) for v in vals})]
        cells = _rep(rng, vals, _counts(rng, len(vals))) + [_miss(rng)]
        rng.shuffle(cells)
    return cells


FAMILIES = {
    "float": gen_float, "wholefloat": gen_wholefloat, "floatinf": gen_floatinf, "int": gen_int, "bool": gen_bool, "date": gen_date, "strcat": gen_strcat,
    "multicat": gen_multicat, "text": gen_text, "emb": gen_emb, "seqnum": gen_seqnum,
    "strlist": gen_strlist, "allmissing": gen_allmissing,
}
SERIES_ONLY = {"datex": gen_datex, "mixed": gen_mixed}
FAM_WEIGHTS = [(2, "float"), (1.5, "wholefloat"), (0.5, "floatinf"), (4, "int"), (1, "bool"), (2, "date"), (4, "strcat"), (5, "multicat"),
               (2, "text"), (2, "emb"), (2, "seqnum"), (2, "strlist"), (1, "allmissing")]


def gen_labels(rng, n):
    t = rng.pick(["default", "offset", "perm", "string", "dup", "dup", "multi", "datetime", "float"])
    if t == "default":
        return {"t": t}
    if t == "multi":
        return {"t": t, "v": [[rng.randint(0, 2), i] for i in range(n)]}
    if t == "datetime":
        v = list(range(n))
        rng.shuffle(v)
        return {"t": t, "v": v}
    if t == "float":
        return {"t": t, "v": [i + 0.5 for i in range(n)]}
    if t == "offset":
        o = rng.randint(1, 50)
        return {"t": t, "v": list(range(o, o + n))}
    if t == "perm":
        v = list(range(n))
        rng.shuffle(v)
        return {"t": t, "v": v}
    if t == "string":
        v = ["r%d" % i for i in range(n)]
        rng.shuffle(v)
        return {"t": t, "v": v}
    return {"t": t, "v": [rng.randint(0, max(0, n // 2)) for _ in range(n)]}


def gen_variant(rng, fam, n, perm=None):
    if perm is None:
        perm = list(range(n))
        if rng.chance(0.7):
            rng.shuffle(perm)
    add = []
    if fam in LIST_FAMS + STR_FAMS + ("bool", "int", "datex") and rng.chance(0.6):
        for _ in range(rng.randint(1, 3)):
            add.append([rng.pick([0, rng.randint(0, n)]), rng.pick(["none", "nan"])])
    m = n + len(add)
    return {"perm": perm, "add": add, "labels": gen_labels(rng, m)}


def gen_series_case(rng, tier, fam=None):
    fam = fam or rng.wpick(FAM_WEIGHTS + [(0.7, "mixed"), (1.0, "datex")])
    cells = SERIES_ONLY[fam](rng) if fam in SERIES_ONLY else FAMILIES[fam](rng)
    sd = rng.pick(["object", "str", "string"]) if fam in STR_FAMS + ("datex",) else None
    n = len(cells)
    # the representation pandas holds the column in (non-default backings away from the default 40 % of the time)
    backing = None
    has_m = any(c[0] == "m" for c in cells)
    if fam == "int" and rng.chance(0.4):
        opts = ["Int64"] + ([] if has_m else ["int32", "int8"] + (["uint8"] if all(c[1] >= 0 for c in cells) else []))
        backing = rng.pick(opts)
    elif fam == "float" and rng.chance(0.4):
        backing = rng.pick(["Float64"] + ([] if has_m else ["float32"]))
    elif fam == "wholefloat" and rng.chance(0.3):
        backing = "Float64"
    elif fam == "bool" and rng.chance(0.4):
        backing = "boolean"
    fixed = backing in ("int32", "int8", "uint8", "float32")            # no missing cell can be added
    vs = [gen_variant(rng, "float" if fixed else fam, n) for _ in range(rng.randint(2, 4))]
    # every way of writing a missing cell that the representation admits
    kinds = ["none", "nan", "fnan"]
    if fam in STR_FAMS + LIST_FAMS + ("datex", "bool", "allmissing") or backing in ("Int64", "Float64", "boolean"):
        kinds.append("na")
    if fam == "allmissing":
        kinds = ["none", "nan"]
    for c in cells:
        if c[0] == "m" and rng.chance(0.5):
            c[1] = rng.pick(kinds)
    for v in vs:
        for a in v["add"]:
            if rng.chance(0.5):
                a[1] = rng.pick(kinds)
    # magnitude: whole-number columns keep their decision when every value is multiplied by k (Props/C18.v 2c);
    # powers of two for floats (exact), small factors for ints (no overflow of a narrow backing)
    if fam == "wholefloat" or (fam == "mixed" and {c[0] for c in cells} == {"f", "m"}):
        for v in vs:
            if rng.chance(0.5):
                v["scale"] = rng.pick([2, -1, -2, 4])
    elif fam == "int":
        for v in vs:
            if rng.chance(0.4):
                v["scale"] = 3 if backing in ("int8", "uint8", "int32") else rng.pick([3, -1, 7, 1000003])
    rp = {"backing": backing, "name": rng.pick([None, None, "col", 7]), "call": rng.pick(["pos", "kw"]),
          "alias": rng.pick(["module", "utils"])}
    return {"kind": "series", "family": fam, "sdtype": sd, "cells": cells, "variants": vs, "rep": rp}


def _df_rep(rng, ncols):
    return {"build": rng.pick(["concat", "dict", "assign"]), "call": rng.pick(["pos", "kw"]),
            "alias": rng.pick(["module", "utils"]),
            "labels": [rng.pick(["str", "str", "int", "tuple"]) for _ in range(ncols)]}


def gen_df_case(rng, tier):
    n = rng.randint(1, 9)
    cols = []
    names = rng.sample(VOCAB + ["0", "a b", "x.y", "Col"], rng.randint(1, 6))
    for nm in names:
        fam = rng.wpick(FAM_WEIGHTS + [(3, "allmissing")])
        cells = FAMILIES[fam](rng)
        if fam == "allmissing" or not cells:
            cells = [_miss(rng) for _ in range(n)]
            if fam != "allmissing":
                fam = "allmissing"
        else:
            cells = [cells[i % len(cells)] for i in range(n)]
        sd = rng.pick(["object", "str"]) if fam in STR_FAMS else None
        cols.append({"name": nm, "family": fam, "sdtype": sd, "cells": cells})
    return {"kind": "df", "columns": cols, "labels": gen_labels(rng, n), "rep": _df_rep(rng, len(cols))}


def _strip_missing(cells):
    return [c for c in cells if c[0] != "m"]


def gen_df_blank_case(rng, tier):
    """Frames with rows that are missing in EVERY column.  At least one integer-coded column
    (ints + missing: float64 with NaN in pandas) whose multiplicities straddle the threshold and
    whose missing cells sit only in the fully blank rows; the other columns are string / list /
    float columns that are missing in the same rows (and possibly elsewhere).  Single-column
    frames (integer codes with NaN only) are frequent."""
    k = rng.randint(1, 3)
    vals = rng.sample(range(-3, 12), k)
    code = _rep(rng, [["i", v] for v in vals], _counts(rng, k))
    m = len(code)
    ncols = rng.wpick([(4, 1), (3, 2), (3, 3), (1, 4)])
    names = rng.sample(VOCAB + ["0", "a b", "code"], ncols)
    fams = ["int"] + [rng.pick(["int", "strcat", "multicat", "text", "date", "emb", "seqnum", "strlist", "float",
                                "allmissing"]) for _ in range(ncols - 1)]
    cols = []
    for j, fam in enumerate(fams):
        if j == 0:
            cells = list(code)
        elif fam == "allmissing":
            cells = [_miss(rng) for _ in range(m)]
        else:
            base = _strip_missing(FAMILIES[fam](rng))
            if fam == "float":      # keep a non-integral value so that the family stays unambiguous
                base = base + [_fl(rng)]
            cells = [base[i % len(base)] for i in range(m)]
            if fam in STR_FAMS + LIST_FAMS and rng.chance(0.4):
                cells[rng.randrange(m)] = _miss(rng)       # an extra missing cell outside the blank rows
        cols.append([fam, cells])
    nblank = rng.randint(1, 3)
    for _ in range(nblank):
        pos = rng.pick([0, m, rng.randint(0, m)])
        kind = rng.pick(["none", "nan"])
        for fam, cells in cols:
            cells.insert(min(pos, len(cells)), ["m", kind])
        m += 1
    rng.shuffle(cols)
    out = []
    for nm, (fam, cells) in zip(names, cols):
        sd = rng.pick(["object", "str"]) if fam in STR_FAMS else None
        out.append({"name": nm, "family": fam, "sdtype": sd, "cells": cells})
    return {"kind": "df", "blank_rows": nblank, "columns": out, "labels": gen_labels(rng, m),
            "rep": _df_rep(rng, len(out))}


def exhaustive_small(rng):
    """thorough tier: ALL row permutations of small columns of every family."""
    out = []
    for fam in FAMILIES:
        for _ in range(6):
            for _try in range(50):
                cells = FAMILIES[fam](rng)
                if 2 <= len(cells) <= 5:
                    break
            else:
                continue
            sd = rng.pick(["object", "str"]) if fam in STR_FAMS else None
            n = len(cells)
            vs = [gen_variant(rng, fam, n, perm=list(p)) for p in itertools.permutations(range(n))]
            out.append({"kind": "series", "family": fam, "sdtype": sd, "cells": cells, "variants": vs})
    return out


# ----------------------------------------------------------------- boundary stream
# Boundaries of every dimension of QUANTIFIED OVER, hit DELIBERATELY in every run (name -> what).
BOUNDARIES = [
    # column size
    ("size0", "a column without any cell, under object / str / string"),
    ("size1", "exactly one cell, for every family"),
    ("one_nonmissing", "exactly one non-missing cell between missing ones (int, bool, string, list)"),
    # multiplicities around the threshold (n-1, n, n+1) and ties
    ("int_const_3/4/5/6", "one distinct integer occurring thresh-1, thresh, thresh+1, thresh+2 times"),
    ("int_tie_5_5, int_5_4, int_5_6, int_4_4", "two integers: tie at thresh+1, one exactly on / below the threshold"),
    ("str_const_4/5, str_tie_5_5, str_5_4", "the same for repeated strings, every string dtype"),
    ("wholefloat_<2^53 | 2^62 | 2^63 | 2^64 | 1e19 | -1e19 | -2^63 | 1e300>_{nan_3_3, nan_5_5, 5_5}",
     "whole floats around and beyond the int64 range: with NaN below / above the threshold, without NaN"),
    ("float_inf_nan, float_neg_inf, float_signed_zero_merge_5, float_signed_zero_4",
     "inf in a float column (never whole); -0.0 and 0.0 are ONE value (3 + 2 = thresh+1, 2 + 2 = thresh)"),
    ("float_const_5, float_integral_5, float_one_nonintegral_nan",
     "floats repeated thresh+1 times; integral floats without NaN; exactly one non-integral value plus NaN"),
    # tokens
    ("tok_rows_4, tok_rows_5", "rarest token in exactly thresh / thresh+1 rows"),
    ("tok_dup_in_row_4", "rarest token in thresh rows but written twice in one of them (explode count thresh+1)"),
    ("tok_ws_merge_5", "a token reaches thresh+1 rows only after stripping white space"),
    ("tok_pipe_only, tok_comma_only, tok_both_seps", "exactly one / both separators qualify"),
    ("tok_whole_string_5", "whole strings repeated thresh+1 times AND tokens repeated: categorical wins"),
    ("tok_blank_cell", "a blank string cell among token rows"),
    # lists
    ("emb_len0, emb_len1, emb_single", "lists of length 0 / 1; a single list"),
    ("list_first_longer/shorter, list_last_longer/shorter", "exactly one list off by one element, first vs last row"),
    ("list_one_int_first/last, list_one_nan_last, list_one_inf_first", "exactly one offending element, first vs last"),
    ("strlist_empty_first", "string lists whose first list is empty"),
    # dates
    ("datex_dayfirst_ambiguous_first / unambiguous_first, datex_mixed_iso_separators",
     "the KNOWN FINDING witnesses (day-first dates in two orders, mixed ISO separators): printed under every seed"),
    ("date_single, date_const_5, date_datetime", "one date; a date repeated thresh+1 times (timestamp wins); date+time"),
    # missing cells, permutations, labels
    ("missing_first, missing_last, missing_majority", "missing cells only first / only last / more missing than present"),
    ("perm_reverse, perm_swap_ends", "first and last row exchanged / column reversed"),
    ("labels_all_equal, labels_reversed", "every index label identical; labels = reversed positions"),
    # frames
    ("df_0_columns, df_0_rows, df_1_column", "frame without columns / without rows / with one column"),
    ("df_all_missing, df_first_missing, df_last_missing", "every / the first / the last column all-missing"),
    ("df_same_series_twice", "the same Series object under two column names"),
]


def _bcase(name, fam, cells, rng, sd=None, missing=True):
    """a boundary column with deliberate variants: reversed, ends swapped, all labels equal, labels reversed,
    missing cells first / last / in the majority (where the family admits them)"""
    n = len(cells)
    ident = list(range(n))
    swap = ident[:]
    if n >= 2:
        swap[0], swap[-1] = swap[-1], swap[0]
    vs = [{"perm": ident[::-1], "add": [], "labels": {"t": "default"}},
          {"perm": swap, "add": [], "labels": {"t": "dup", "v": [7] * n}},
          {"perm": ident, "add": [], "labels": {"t": "perm", "v": ident[::-1]}}]
    if missing:
        k = rng.pick(["none", "nan"])
        vs += [{"perm": ident, "add": [[0, k]], "labels": {"t": "default"}},
               {"perm": ident, "add": [[n, k]], "labels": {"t": "default"}},
               {"perm": ident, "add": [[0, k]] * (n + 1), "labels": {"t": "default"}}]
    if fam in STR_FAMS + ("datex",) and sd is None:
        sd = rng.pick(["object", "str", "string"])
    return {"kind": "series", "family": fam, "sdtype": sd, "cells": [list(c) for c in cells], "variants": vs,
            "boundary": name,
            "rep": {"backing": None, "name": None, "call": "pos", "alias": "module"}}


def gen_boundary_cases(rng):
    I = lambda v: ["i", v]
    S_ = lambda v: ["s", v]
    Fl = lambda a, b=1: ["f", a, b]
    L = lambda *e: ["l", [list(x) for x in e]]
    ef = lambda a, b=2: ["f", a, b]
    M = ["m", "none"]
    out = []
    add = lambda *a, **k: out.append(_bcase(*a, rng=rng, **k))
    for sd in ("object", "str", "string"):
        add("size0", "allmissing", [], sd=sd, missing=False)
    add("size0", "allmissing", [], missing=False)
    singles = {"float": [Fl(3, 2)], "int": [I(3)], "bool": [["b", True]], "date": [["d", "2020-01-02"]],
               "strcat": [S_("kabq")], "multicat": [S_("kabq|kecq")], "text": [S_("kabq kecq w0")],
               "emb": [L(ef(3))], "seqnum": [L(I(1))], "strlist": [L(S_("kabq"))], "allmissing": [M]}
    for fam, cells in singles.items():
        add("size1", fam, cells, missing=fam not in ("float", "allmissing"))
    for fam, c in (("int", I(4)), ("bool", ["b", False]), ("strcat", S_("kabq")), ("emb", L(ef(1), ef(5)))):
        add("one_nonmissing", fam, [M, c, ["m", "nan"]])
    for k in (3, 4, 5, 6):
        add(f"int_const_{k}", "int", [I(2)] * k)
    for name, a, b in (("int_tie_5_5", 5, 5), ("int_5_4", 5, 4), ("int_5_6", 5, 6), ("int_4_4", 4, 4)):
        add(name, "int", [I(1)] * a + [I(9)] * b)
    for sd in ("object", "str", "string"):
        add("str_const_4", "strcat", [S_("kabq")] * 4, sd=sd)
        add("str_const_5", "strcat", [S_("kabq")] * 5, sd=sd)
        add("str_tie_5_5", "strcat", [S_("kabq")] * 5 + [S_("kecq")] * 5, sd=sd)
        add("str_5_4", "strcat", [S_("kabq")] * 5 + [S_("kecq")] * 4, sd=sd)
    add("float_const_5", "float", [Fl(5, 2)] * 5, missing=False)
    add("float_integral_5", "float", [Fl(2)] * 5 + [Fl(3)] * 5, missing=False)
    add("float_one_nonintegral_nan", "float", [Fl(2)] * 5 + [Fl(5, 2)] + [["m", "nan"]], missing=False)
    # numeric representation: whole floats around and beyond the int64 range, inf, -0.0
    for m in WHOLE_MAGNITUDES:
        v1, v2 = ["f", int(float(m)), 1], ["f", int(float(m) * 2), 1]
        tag = "wholefloat_%s" % ("2^%d" % (abs(m).bit_length() - 1) if abs(m) & (abs(m) - 1) == 0 else "%.0e" % m)
        tag = ("neg_" if m < 0 else "") + tag.replace("-", "").replace("+", "")
        add(tag + "_nan_3_3", "wholefloat", [v1] * 3 + [v2] * 3 + [["m", "nan"]], missing=False)
        add(tag + "_nan_5_5", "wholefloat", [["m", "nan"]] + [v1] * 5 + [v2] * 5, missing=False)
        add(tag + "_5_5", "wholefloat", [v1] * 5 + [v2] * 5, missing=False)
    e19 = lambda k: ["f", k * 10 ** 19, 1]
    add("wholefloat_cast_witness", "wholefloat", [e19(1), e19(2), e19(1), e19(2), ["m", "nan"], e19(1), e19(2)], missing=False)
    add("float_inf_nan", "floatinf", [Fl(2)] * 5 + [["finf", 1]] * 5 + [["m", "nan"]], missing=False)
    add("float_neg_inf", "floatinf", [Fl(2)] * 5 + [["finf", -1]], missing=False)
    add("float_signed_zero_merge_5", "wholefloat", [["f", 0, 1, "neg"]] * 3 + [Fl(0)] * 2 + [["m", "nan"]], missing=False)
    add("float_signed_zero_4", "wholefloat", [["f", 0, 1, "neg"]] * 2 + [Fl(0)] * 2 + [["m", "nan"]], missing=False)
    # tokens: a, b in `base` rows each; the rarest token x in exactly 4 / 5 rows
    def tok(rows):
        return [S_(r) for r in rows]
    for sep in ("|", ","):
        r4 = ["kabq%skecq" % sep, "kecq%skabq" % sep, "kabq%skecq%skixq" % (sep, sep), "kixq%skabq" % (sep,),
              "kecq%skixq%skabq" % (sep, sep), "kixq %s kecq" % sep, "kabq %s kecq " % sep]
        # kixq: rows 2,3,4,5 -> 4 rows ; kabq: 0,1,2,3,4,6 ; kecq: 0,1,2,4,5,6
        add("tok_rows_4", "multicat", tok(r4))
        add("tok_rows_5", "multicat", tok(r4 + ["kixq"]))
        add("tok_dup_in_row_4", "multicat", tok(r4[:5] + ["kixq %s kecq%skixq" % (sep, sep)] + r4[6:]))
        add("tok_ws_merge_5", "multicat", tok(r4 + [" kixq  "]))
    add("tok_pipe_only", "multicat", tok(["kabq|kecq", "kecq|kabq", "kabq |kecq", "kecq| kabq", "kabq|kecq|kabq"]))
    add("tok_comma_only", "multicat", tok(["kabq,kecq", "kecq,kabq", "kabq ,kecq", "kecq, kabq", "kabq,kecq,kabq"]))
    add("tok_both_seps", "multicat", tok(["kabq", "kabq ", " kabq", "kabq  ", "  kabq"]))
    add("tok_whole_string_5", "multicat", tok(["kabq|kecq"] * 5 + ["kecq|kabq"] * 5))
    add("tok_blank_cell", "multicat", tok(["kabq|kecq", "kecq|kabq", "kabq |kecq", "kecq| kabq", "kabq|kecq|kabq", "  "]))
    # lists
    add("emb_len0", "emb", [L(), L(), L()])
    add("emb_len1", "emb", [L(ef(1)), L(ef(3))])
    add("emb_single", "emb", [L(ef(1), ef(3), ef(5))])
    two = lambda k: L(ef(k), ef(k + 2))
    add("list_first_longer", "seqnum", [L(ef(1), ef(3), ef(5)), two(7), two(11)])
    add("list_first_shorter", "seqnum", [L(ef(1)), two(7), two(11)])
    add("list_last_longer", "seqnum", [two(7), two(11), L(ef(1), ef(3), ef(5))])
    add("list_last_shorter", "seqnum", [two(7), two(11), L(ef(1))])
    add("list_one_int_first", "seqnum", [L(I(1), ef(3)), two(7), two(11)])
    add("list_one_int_last", "seqnum", [two(7), two(11), L(ef(3), I(1))])
    add("list_one_nan_last", "seqnum", [two(7), two(11), L(ef(3), ["nan"])])
    add("list_one_inf_first", "seqnum", [L(["inf", -1], ef(3)), two(7), two(11)])
    add("strlist_empty_first", "strlist", [L(), L(S_("kabq")), L(S_("kecq"), S_("kabq"))])
    # dates
    add("date_single", "date", [["d", "1999/12/31"]])
    add("date_const_5", "date", [["d", "2020-01-02"]] * 5)
    add("date_datetime", "date", [["d", "2020-01-02 03:04:05"], ["d", "1999-12-31 23:59:59"]])
    # the known finding (date formats pandas must guess), deterministically in every run
    D = lambda x: ["d", x]
    add("datex_dayfirst_ambiguous_first", "datex", [D("01/02/2020"), D("05/03/2020"), D("13/02/2020"), D("25/12/2020")])
    add("datex_dayfirst_unambiguous_first", "datex", [D("25/12/2020"), D("13/02/2020"), D("05/03/2020"), D("01/02/2020")])
    add("datex_mixed_iso_separators", "datex", [D("2020-01-02"), D("2020/01/03")])
    # frames
    def col(name, fam, cells, sd=None):
        return {"name": name, "family": fam, "sdtype": sd, "cells": cells}
    def df(name, cols, alias_cols=False):
        n = len(cols[0]["cells"]) if cols else 0
        return {"kind": "df", "columns": cols, "labels": {"t": "default"}, "boundary": name,
                "rep": {"build": rng.pick(["concat", "dict", "assign"]), "call": "pos", "alias": "module",
                        "labels": ["str"] * len(cols), "same_object": alias_cols}}
    ints = [I(1)] * 5
    miss = [["m", "none"]] * 5
    out.append(df("df_0_columns", []))
    out.append(df("df_0_rows", [col("kabq", "allmissing", []), col("kecq", "allmissing", [])]))
    out.append(df("df_1_column", [col("kabq", "int", ints)]))
    out.append(df("df_all_missing", [col("kabq", "allmissing", miss), col("kecq", "allmissing", [["m", "nan"]] * 5)]))
    out.append(df("df_first_missing", [col("kabq", "allmissing", miss), col("kecq", "int", ints)]))
    out.append(df("df_last_missing", [col("kecq", "int", ints), col("kabq", "allmissing", miss)]))
    out.append(df("df_same_series_twice", [col("kabq", "int", ints), col("kecq", "int", ints)], alias_cols=True))
    return out


BOUNDARY_NAMES = sorted({c["boundary"] for c in gen_boundary_cases(C.Rng(0))})


REQUIRED_SEED = 18001800


def deterministic_prefix():
    """Everything sanity() requires, WITHOUT the run's seed (own constant seed, the same in both tiers):
    hand-written boundaries, every family and every numeric backing, frames with blank rows, and a fixed stream
    wide enough to draw every representation / labeling / variant kind / missing kind sanity() asks for."""
    rng = C.Rng(REQUIRED_SEED)
    cases = gen_boundary_cases(rng)
    for fam in FAMILIES:
        cases += [gen_series_case(rng, "quick", fam) for _ in range(5)]
    cases += [gen_series_case(rng, "quick", "datex") for _ in range(4)]
    for fam, b in (("int", "Int64"), ("int", "int32"), ("int", "int8"), ("int", "uint8"), ("float", "Float64"),
                   ("float", "float32"), ("bool", "boolean")):
        got = 0
        for _try in range(2000):
            c = gen_series_case(rng, "quick", fam)
            if c["rep"]["backing"] == b:
                cases.append(c)
                got += 1
                if got == 2:
                    break
    cases += [gen_df_blank_case(rng, "quick") for _ in range(40)]
    cases += [gen_df_case(rng, "quick") for _ in range(15)]
    for c in cases:
        c["det"] = True
    return cases


def generate(rng, tier):
    n = 850 if tier == "quick" else 16000
    cases = deterministic_prefix()
    for _ in range(n):                           # the run's seed drives only this additional random stream
        r = rng.random()
        cases.append(gen_df_case(rng, tier) if r < 0.1 else gen_df_blank_case(rng, tier) if r < 0.2
                     else gen_series_case(rng, tier))
    if tier == "thorough":
        cases += exhaustive_small(rng)
    return cases


# ----------------------------------------------------------------- implementation side
def py_elem(e):
    t = e[0]
    if t == "i":
        return int(e[1])
    if t == "f":
        return e[1] / e[2]
    if t == "nan":
        return float("nan")
    if t == "inf":
        return math.inf * e[1]
    return e[1]


def py_cell(c):
    t = c[0]
    if t == "f":
        return -0.0 if len(c) > 3 else c[1] / c[2]          # ["f", 0, 1, "neg"] is -0.0
    if t == "finf":
        return math.inf * c[1]
    if t == "i":
        return int(c[1])
    if t == "b":
        return bool(c[1])
    if t in ("s", "d"):
        return c[1]
    if t == "l":
        return [py_elem(e) for e in c[1]]
    return {"none": None, "nan": np.nan, "fnan": float("nan"), "na": pd.NA}[c[1]]


def make_index(labels):
    if labels is None or labels["t"] == "default":
        return None
    if labels["t"] == "multi":
        return pd.MultiIndex.from_tuples([tuple(x) for x in labels["v"]]) if labels["v"] else None
    if labels["t"] == "datetime":
        return pd.to_datetime("2020-01-01") + pd.to_timedelta(labels["v"], unit="D")
    return labels["v"]


def variant_cells(cells, v, scaled=True):
    out = [cells[i] for i in v["perm"]]
    for pos, kind in v["add"]:
        out.insert(min(pos, len(out)), ["m", kind])
    k = v.get("scale")
    if k and scaled:                       # every numeric value multiplied by k (whole-number columns only)
        out = [[c[0], c[1] * k] + list(c[2:]) if c[0] in ("f", "i") else c for c in out]
    return out


def build_series(cells, sdtype, labels, name=None, backing=None):
    vals = [py_cell(c) for c in cells]
    idx = make_index(labels)
    kinds = {c[0] for c in cells}
    if backing is not None and kinds - {"m"}:
        if backing in ("Int64", "Float64", "boolean"):
            vals = [None if c[0] == "m" else v for c, v in zip(cells, vals)]
        return pd.Series(vals, index=idx, dtype=backing, name=name)
    if sdtype is not None and kinds <= {"s", "d", "m"}:
        return pd.Series(vals, index=idx, dtype=object if sdtype == "object" else sdtype, name=name)
    if not vals or kinds & {"l"} or kinds == {"m"} and all(c[1] == "none" for c in cells):
        return pd.Series(vals, index=idx, dtype=object, name=name)
    return pd.Series(vals, index=idx, name=name)


def check_date_classes(cells):
    """the generator's date classification against pandas' own guess (modelled primitive)"""
    from pandas.tseries.api import guess_datetime_format
    bad = []
    for c in cells:
        if c[0] == "d" and guess_datetime_format(c[1]) != date_class(c[1])[0]:
            bad.append(c[1])
    return bad


def observe_series(ser, call="pos", alias="module"):
    if alias == "utils":
        from torch_frame.utils import infer_series_stype          # the public re-export
    else:
        from torch_frame.utils.infer_stype import infer_series_stype
    rec = {}
    try:
        nn = ser.dropna()
        rec["len"] = int(len(nn))
        if len(nn):
            rec["preds"] = [bool(ptypes.is_numeric_dtype(nn)), bool(ptypes.is_bool_dtype(nn)),
                            bool(ptypes.is_float_dtype(nn)), bool(ptypes.is_string_dtype(nn))]
        rec["dtype"] = str(ser.dtype)
    except Exception as ex:      # pragma: no cover
        rec["preds_exc"] = C.exc_name(ex)
    try:
        with warnings.catch_warnings():
            warnings.simplefilter("ignore")
            r = infer_series_stype(ser=ser) if call == "kw" else infer_series_stype(ser)
        rec["ok"] = True
        rec["res"] = None if r is None else str(getattr(r, "value", r))
    except Exception as ex:
        rec["ok"] = False
        rec["exc"] = C.exc_name(ex)
    return rec


def run(case):
    import logging
    logging.disable(logging.WARNING)
    if case["kind"] == "series":
        rp = case.get("rep") or {"backing": None, "name": None, "call": "pos", "alias": "module"}
        mk = lambda cells, labels: observe_series(
            build_series(cells, case["sdtype"], labels, name=rp["name"], backing=rp["backing"]),
            call=rp["call"], alias=rp["alias"])
        out = {"base": mk(case["cells"], None), "variants": []}
        bad = check_date_classes(case["cells"])
        if bad:
            out["date_class_mismatch"] = bad
        for v in case["variants"]:
            cells = variant_cells(case["cells"], v)
            out["variants"].append(mk(cells, v["labels"]))
        return out
    rp = case.get("rep") or {"build": "concat", "call": "pos", "alias": "module", "labels": ["str"] * len(case["columns"])}
    if rp["alias"] == "utils":
        from torch_frame.utils import infer_df_stype
    else:
        from torch_frame.utils.infer_stype import infer_df_stype
    # the DataFrame's own column labels: the name, an int, or a tuple (a frame may carry any hashable label)
    def label(j, c):
        k = rp["labels"][j]
        return c["name"] if k == "str" else (1000 + j if k == "int" else (c["name"], j))
    labs = [label(j, c) for j, c in enumerate(case["columns"])]
    sers = [build_series(c["cells"], c["sdtype"], case["labels"], name=c["name"]) for c in case["columns"]]
    if rp.get("same_object") and sers:
        sers = [sers[0]] * len(sers)            # the SAME Series object under every column name
    if rp["build"] == "dict" and sers:
        df = pd.DataFrame({lab: s for lab, s in zip(labs, sers)})
    elif rp["build"] == "assign" and sers:
        df = pd.DataFrame(index=sers[0].index)
        for lab, s in zip(labs, sers):
            df[lab] = s                     # equal index: no realignment
    else:
        df = pd.concat(sers, axis=1) if sers else pd.DataFrame()
        df.columns = pd.Index(labs, tupleize_cols=False) if sers else df.columns
    out = {"cols": [observe_series(df[lab]) for lab in labs]}
    out["col_dtypes_kept"] = [str(df[lab].dtype) == str(s.dtype) for lab, s in zip(labs, sers)]
    try:
        with warnings.catch_warnings():
            warnings.simplefilter("ignore")
            r = infer_df_stype(df=df) if rp["call"] == "kw" else infer_df_stype(df)
        out["ok"] = True
        # a dict: its iteration order is not part of the property -> canonical order = column order of the case
        pos = {c["name"]: i for i, c in enumerate(case["columns"])}
        back = {repr(lab): c["name"] for lab, c in zip(labs, case["columns"])}
        items = [[back.get(repr(k), repr(k)), str(getattr(v, "value", v))] for k, v in r.items()]
        out["items"] = sorted(items, key=lambda it: pos.get(it[0], len(pos)))
        out["n_items"] = len(r)
    except Exception as ex:
        out["ok"] = False
        out["exc"] = C.exc_name(ex)
    return out


# ----------------------------------------------------------------- direct oracle (plain Python decision table)
OUT = "outside-the-property"


def _elem_class(e):
    return {"i": "int", "f": "float", "nan": "nan", "inf": "inf", "s": "str"}[e[0]]


def _min_mult(values):
    cnt = collections.Counter(values)
    return min(cnt.values()) if cnt else 0


def _token_min(strings, sep):
    toks = []
    for s in strings:
        if s.strip() == "":
            continue
        toks += list({p.strip() for p in s.split(sep)})
    return _min_mult(toks)


def ref_infer(cells):
    """The decision table of the property text over the non-missing values."""
    vals = [c for c in cells if c[0] != "m"]
    has_missing = len(vals) != len(cells)
    if not vals:
        return None
    kinds = {c[0] for c in vals}
    if kinds == {"l"}:
        lists = [c[1] for c in vals]
        classes = [[_elem_class(e) for e in l] for l in lists]
        if all(all(k != "str" for k in cl) for cl in classes):
            same_len = len({len(l) for l in lists}) == 1
            finite_floats = all(all(k == "float" for k in cl) for cl in classes)
            return "embedding" if (same_len and finite_floats) else "sequence_numerical"
        if all(all(k == "str" for k in cl) for cl in classes):
            return "multicategorical"
        return OUT
    if kinds == {"b"}:
        return "categorical"
    if kinds <= {"i", "f", "finf"}:
        if "finf" in kinds:
            return "numerical"                          # a float column (inf is not a whole number)
        nums = [Fraction(c[1], c[2]) if c[0] == "f" else Fraction(c[1]) for c in vals]
        if "f" in kinds:
            if any(x.denominator != 1 for x in nums) or not has_missing:
                return "numerical"                      # float columns infer numerical
            # whole floats + NaN: the ONLY way pandas can hold an integer column with missing cells (the very same
            # Series as [1, 2, None]); the row "repeated integers" of the table applies, to the VALUES as they
            # are (Props/C18.v integral_floats_depend_on_nan) -- never to a cast of them
        return "categorical" if _min_mult(nums) > REF_THRESH else "numerical"
    if kinds == {"d"}:
        return "timestamp"
    if kinds == {"s"}:
        strs = [c[1] for c in vals]
        if _min_mult(strs) > REF_THRESH:
            return "categorical"
        if max(_token_min(strs, sep) for sep in REF_SEPS) > REF_THRESH:
            return "multicategorical"
        return "text_embedded"
    return OUT


def _variant_kinds(v, n):
    k = []
    if v["perm"] != list(range(n)):
        k.append("permuted")
    if v["labels"]["t"] != "default":
        k.append("labels-" + v["labels"]["t"])
    if v["add"]:
        k.append("missing-added")
    if v.get("scale"):
        k.append("scaled")
    return k


def oracle(case, obs):
    if "harness_exc" in obs:
        return dict(key="harness-exc", what="harness failed to run the case: " + obs["harness_exc"], tb=obs.get("tb"))
    if case["kind"] == "series":
        fam = case["family"]
        if obs.get("date_class_mismatch"):
            return dict(key="harness-date-class", what="pandas guesses another format than the generator's "
                        "classification for " + str(obs["date_class_mismatch"]))
        exp = ref_infer(case["cells"])
        if exp is OUT:
            return None
        if exp == "timestamp" and not dates_explicit(case["cells"]):
            return oracle_guessed_dates(case, obs)
        b = obs["base"]
        if not b["ok"]:
            return dict(key=f"raised:{fam}", what=f"infer_series_stype raised {b['exc']} on a {fam} column",
                        expected=exp, observed=b)
        if b["res"] != exp:
            return dict(key=f"table:{fam}:{exp}->{b['res']}",
                        what=f"{fam} column: decision table says {exp}, infer_series_stype returned {b['res']}",
                        expected=exp, observed=b["res"])
        n = len(case["cells"])
        for v, o in zip(case["variants"], obs["variants"]):
            kinds = _variant_kinds(v, n)
            if ref_infer(variant_cells(case["cells"], v)) != exp:
                return dict(key="oracle-inconsistent", what="reference table is not invariant itself", expected=exp)
            got = o["res"] if o["ok"] else "raise:" + o["exc"]
            if got != exp:
                return dict(key=f"variant:{fam}",
                            what=f"{fam} column inferred {exp}, but {got} after {' and '.join(kinds) or 'rebuilding'}",
                            expected=exp, observed=got, variant=v)
        return None
    # df
    if not all(obs.get("col_dtypes_kept", [])):
        return dict(key="harness-df-dtype", what="harness: DataFrame assembly changed a column dtype")
    exp_items = []
    per_col = []
    for c, o in zip(case["columns"], obs["cols"]):
        e = ref_infer(c["cells"])
        if e is OUT:
            return None
        if e is not None:
            exp_items.append([c["name"], e])
        if o["ok"] and o["res"] is not None:
            per_col.append([c["name"], o["res"]])
    if not obs["ok"]:
        return dict(key="df:raised", what=f"infer_df_stype raised {obs['exc']}", expected=exp_items, observed=obs)
    if obs["items"] != per_col:
        return dict(key="df:not-per-column",
                    what="infer_df_stype differs from per-column infer_series_stype over the columns that yield a type",
                    expected=per_col, observed=obs["items"])
    if obs["items"] != exp_items:
        return dict(key="df:table", what="infer_df_stype differs from the decision table applied per column",
                    expected=exp_items, observed=obs["items"])
    return None


def oracle_guessed_dates(case, obs):
    """Date columns outside the explicit candidate formats (KNOWN FINDING): every cell is a parseable date, so
    the property says timestamp in every row order.  The code relies on pandas guessing the format from the
    first element.  A deviation is reported under the known key iff it is of exactly that kind: the result is
    what the SAME column gives when its cells are read as plain strings, and two runs with the same order of
    non-missing cells agree.  Anything else is an ordinary violation."""
    fam = case["family"]
    as_strings = [["s", c[1]] if c[0] == "d" else c for c in case["cells"]]
    alt = ref_infer(as_strings)
    runs = [(case["cells"], obs["base"], None)]
    for v, o in zip(case["variants"], obs["variants"]):
        runs.append((variant_cells(case["cells"], v), o, v))
    seen, deviation = {}, None
    for cells, o, v in runs:
        got = o["res"] if o["ok"] else "raise:" + o["exc"]
        order = json.dumps([c for c in cells if c[0] != "m"])
        if order in seen and seen[order] != got:
            return dict(key=f"variant:{fam}", what=f"{fam} column: same row order of the non-missing cells, "
                        f"results {seen[order]} and {got}", expected=seen[order], observed=got, variant=v)
        seen[order] = got
        if got == "timestamp":
            continue
        if got != alt:
            return dict(key=f"table:{fam}:timestamp->{got}",
                        what=f"{fam} column of dates: infer_series_stype returned {got} (neither timestamp nor "
                             f"the string reading {alt})", expected="timestamp", observed=got)
        deviation = deviation or (cells, got)
    if deviation:
        return dict(key=KNOWN_DATE_KEY,
                    what=f"date column in a format pandas must guess / in mixed formats: {deviation[1]} in the row "
                         f"order {[c[1] for c in deviation[0] if c[0] != 'm']}, every cell parses as a date",
                    expected="timestamp in every row order", observed=sorted(set(seen.values())))
    return None


def shrink(case):
    if case["kind"] == "series":
        n = len(case["cells"])
        # fewer variants, then simpler variants
        vs = case["variants"]
        for k in range(len(vs)):
            yield dict(case, variants=vs[:k] + vs[k + 1:])
        for k, v in enumerate(vs):
            for simp in (dict(v, perm=list(range(n))), dict(v, add=[], labels={"t": "default"}),
                         dict(v, add=v["add"][:1])):
                if simp != v:
                    if simp["labels"]["t"] != "default" and len(simp["labels"]["v"]) != n + len(simp["add"]):
                        simp = dict(simp, labels={"t": "default"})
                    yield dict(case, variants=vs[:k] + [simp] + vs[k + 1:])
            if v["labels"]["t"] != "default":
                yield dict(case, variants=vs[:k] + [dict(v, labels={"t": "default"})] + vs[k + 1:])
        # drop a cell (variants lose their meaning: reset to identity + same number of added cells at front)
        for k in range(n):
            cells = case["cells"][:k] + case["cells"][k + 1:]
            nv = []
            for v in vs:
                perm = [i if i < k else i - 1 for i in v["perm"] if i != k]
                add = [[min(p, n - 1), kd] for p, kd in v["add"]]
                lab = v["labels"]
                if lab["t"] != "default":
                    lab = dict(lab, v=lab["v"][:n - 1 + len(add)])
                nv.append({"perm": perm, "add": add, "labels": lab})
            yield dict(case, cells=cells, variants=nv)
    else:
        cols = case["columns"]
        for k in range(len(cols)):
            yield dict(case, columns=cols[:k] + cols[k + 1:])
        if case["labels"]["t"] != "default":
            yield dict(case, labels={"t": "default"})


def _min_mults(cells):
    vals = [json.dumps(c) for c in cells if c[0] != "m"]
    mm = _min_mult(vals)
    strs = [c[1] for c in cells if c[0] == "s"]
    tm = max([_token_min(strs, s) for s in REF_SEPS]) if strs else 0
    return mm, tm


def nontrivial_sig(case, obs):
    if obs is None or "harness_exc" in obs:
        return None
    if case["kind"] == "series" and case["family"] == "mixed":
        return None
    if case["kind"] == "series":
        if all(c[0] == "m" for c in case["cells"]) and not case["cells"]:
            return None
        n = len(case["cells"])
        kinds = sorted({k for v in case["variants"] for k in _variant_kinds(v, n)})
        mm, tm = _min_mults(case["cells"])
        return json.dumps([case["family"], case["sdtype"], n, min(mm, 7), min(tm, 7), obs["base"].get("res"), kinds])
    if not case["columns"]:
        return None
    return json.dumps(["df", [(c["family"], c["sdtype"]) for c in case["columns"]], case["labels"]["t"],
                       obs.get("items")])


def stats(cases, obss):
    d = {"total": 0, "families": {}, "results": {}, "string_dtypes": {}, "labelings": {}, "variant_kinds": {},
         "min_multiplicity": {}, "token_min_multiplicity": {}, "df_cases": 0, "df_skipped_columns": 0,
         "outside_property": 0, "raised": 0, "missing_first": 0}
    for c, o in zip(cases, obss):
        if c is None or o is None or "harness_exc" in o:
            continue
        d["total"] += 1
        if c.get("boundary"):
            d.setdefault("boundaries", {})
            d["boundaries"][c["boundary"]] = d["boundaries"].get(c["boundary"], 0) + 1
        if c["kind"] == "df":
            d["df_cases"] += 1
            rp = c.get("rep")
            if rp:
                for key, val in (("df_build", rp["build"]), ("df_call", rp["call"]), ("df_alias", rp["alias"])):
                    d.setdefault("rep_" + key, {})
                    d["rep_" + key][val] = d["rep_" + key].get(val, 0) + 1
                d.setdefault("rep_df_column_labels", {})
                for k in rp["labels"]:
                    d["rep_df_column_labels"][k] = d["rep_df_column_labels"].get(k, 0) + 1
            nrows = len(c["columns"][0]["cells"]) if c["columns"] else 0
            blank = sum(1 for i in range(nrows) if all(col["cells"][i][0] == "m" for col in c["columns"]))
            if blank and any(any(x[0] != "m" for x in col["cells"]) for col in c["columns"]):
                d["df_with_fully_blank_rows"] = d.get("df_with_fully_blank_rows", 0) + 1
                d["df_single_column_blank"] = d.get("df_single_column_blank", 0) + (len(c["columns"]) == 1)
                for col in c["columns"]:
                    if col["family"] == "int":
                        mm = min(_min_mults(col["cells"])[0], 7)
                        d.setdefault("df_blank_int_min_multiplicity", {})
                        d["df_blank_int_min_multiplicity"][mm] = d["df_blank_int_min_multiplicity"].get(mm, 0) + 1
            d["df_skipped_columns"] += len(c["columns"]) - len(o.get("items") or [])
            d["labelings"][c["labels"]["t"]] = d["labelings"].get(c["labels"]["t"], 0) + 1
            continue
        d["families"][c["family"]] = d["families"].get(c["family"], 0) + 1
        r = str(o["base"].get("res")) if o["base"]["ok"] else "raise"
        d["results"][r] = d["results"].get(r, 0) + 1
        if not o["base"]["ok"]:
            d["raised"] += 1
        if c["sdtype"]:
            d["string_dtypes"][c["sdtype"]] = d["string_dtypes"].get(c["sdtype"], 0) + 1
        rp = c.get("rep")
        if rp:
            for key, val in (("backing", rp["backing"] or "default"), ("series_name", type(rp["name"]).__name__),
                             ("call", rp["call"]), ("alias", rp["alias"])):
                d.setdefault("rep_" + key, {})
                d["rep_" + key][val] = d["rep_" + key].get(val, 0) + 1
        d.setdefault("missing_kinds", {})
        for x in c["cells"] + [["m", a[1]] for v in c["variants"] for a in v["add"]]:
            if x[0] == "m":
                d["missing_kinds"][x[1]] = d["missing_kinds"].get(x[1], 0) + 1
        if ref_infer(c["cells"]) is OUT:
            d["outside_property"] += 1
        kinds_ = {x[0] for x in c["cells"]}
        if kinds_ == {"b", "m"}:
            d["bool_with_missing"] = d.get("bool_with_missing", 0) + 1
        if kinds_ == {"i", "m"}:
            d["int_with_missing"] = d.get("int_with_missing", 0) + 1
        if c["family"] == "datex":
            res = {o["base"].get("res")} | {v.get("res") for v in o["variants"]}
            d["guessed_date_columns"] = d.get("guessed_date_columns", 0) + 1
            if len(res) > 1:
                d["guessed_date_columns_order_dependent"] = d.get("guessed_date_columns_order_dependent", 0) + 1
        mm, tm = _min_mults(c["cells"])
        if c["family"] in ("int", "strcat", "multicat"):
            d["min_multiplicity"][mm] = d["min_multiplicity"].get(mm, 0) + 1
        if c["family"] == "multicat":
            d["token_min_multiplicity"][tm] = d["token_min_multiplicity"].get(tm, 0) + 1
        n = len(c["cells"])
        for v in c["variants"]:
            d["labelings"][v["labels"]["t"]] = d["labelings"].get(v["labels"]["t"], 0) + 1
            for k in _variant_kinds(v, n):
                k = k.split("-")[0]
                d["variant_kinds"][k] = d["variant_kinds"].get(k, 0) + 1
            vc = variant_cells(c["cells"], v)
            if vc and vc[0][0] == "m":
                d["missing_first"] += 1
    return d


def sanity(cases, obss):
    """Fail-closed distribution check: a run that does not cover the decision table, both sides of the
    threshold, the variant kinds and the frame-level cases must not report green."""
    # every coverage requirement is evaluated over the DETERMINISTIC prefix alone (cases flagged det), so it cannot
    # depend on the run's seed; the ratio checks at the end look at the whole run
    det = [(c, o) for c, o in zip(cases, obss) if c is not None and c.get("det")]
    d_all = stats(cases, obss)
    d = stats([c for c, _ in det], [o for _, o in det])
    probs = []
    if d_all["total"] - d["total"] <= 0:
        probs.append("no random stream besides the deterministic prefix")
    if d.get("guessed_date_columns_order_dependent", 0) == 0:
        probs.append("the known date finding is not exercised by the deterministic prefix")
    for b in BOUNDARY_NAMES:
        if d.get("boundaries", {}).get(b, 0) == 0:
            probs.append(f"boundary {b} not hit")
    for fam in list(FAMILIES) + ["datex"]:
        if d["families"].get(fam, 0) == 0:
            probs.append(f"family {fam} never drawn")
    for r in ("numerical", "categorical", "timestamp", "text_embedded", "multicategorical", "embedding",
              "sequence_numerical", "None"):
        if d["results"].get(r, 0) == 0:
            probs.append(f"result {r} never observed")
    for sd in ("object", "str", "string"):
        if d["string_dtypes"].get(sd, 0) == 0:
            probs.append(f"string dtype {sd} never drawn")
    need = {"rep_backing": ("default", "Int64", "int32", "int8", "uint8", "Float64", "float32", "boolean"),
            "rep_series_name": ("NoneType", "str", "int"), "rep_call": ("pos", "kw"), "rep_alias": ("module", "utils"),
            "rep_df_build": ("concat", "dict", "assign"), "rep_df_call": ("pos", "kw"),
            "rep_df_alias": ("module", "utils"), "rep_df_column_labels": ("str", "int", "tuple"),
            "missing_kinds": ("none", "nan", "fnan", "na")}
    for key, vals in need.items():
        for v in vals:
            if d.get(key, {}).get(v, 0) == 0:
                probs.append(f"{key}: {v} never drawn")
    for lab in ("default", "offset", "perm", "string", "dup", "multi", "datetime", "float"):
        if d["labelings"].get(lab, 0) == 0:
            probs.append(f"index labeling {lab} never drawn")
    for k in ("permuted", "labels", "missing", "scaled"):
        if d["variant_kinds"].get(k, 0) == 0:
            probs.append(f"variant kind {k} never drawn")
    for m in (4, 5):
        if d["min_multiplicity"].get(m, 0) == 0:
            probs.append(f"no int/string column whose rarest value occurs {m} times")
        if d["token_min_multiplicity"].get(m, 0) == 0:
            probs.append(f"no token column whose rarest token occurs {m} times")
        if d.get("df_blank_int_min_multiplicity", {}).get(m, 0) == 0:
            probs.append(f"no frame with blank rows and an integer-coded column of min multiplicity {m}")
    if d["missing_first"] == 0:
        probs.append("no variant with a leading missing cell")
    if d.get("bool_with_missing", 0) == 0 or d.get("int_with_missing", 0) == 0:
        probs.append("no bool / int column with a missing cell")
    if d["df_cases"] == 0 or d.get("df_single_column_blank", 0) == 0 or d["df_skipped_columns"] == 0:
        probs.append("frame-level cases degenerate (none / no single-column blank-row frame / no skipped column)")
    d = d_all
    if d["raised"] > 0.05 * max(1, d["total"]):
        probs.append(f"{d['raised']} of {d['total']} columns make inference raise")
    series = max(1, d["total"] - d["df_cases"])
    if d["outside_property"] + d.get("guessed_date_columns", 0) > 0.15 * series:
        probs.append("the unjudged / known-finding streams are no longer low-rate")
    return probs


def extra(tier, rng):
    """Sanity of the generator itself: every family and both sides of the threshold must be drawn."""
    fails = []
    sub = C.Rng(REQUIRED_SEED + 7)               # a property of the generator, not of the run: own constant seed
    cases = [gen_series_case(sub, tier, fam=sub.wpick(FAM_WEIGHTS)) for i in range(400)]
    fams = {c["family"] for c in cases}
    res = collections.Counter(str(ref_infer(c["cells"])) for c in cases)
    need = {"numerical", "categorical", "timestamp", "embedding", "sequence_numerical", "multicategorical",
            "text_embedded", "None"}
    if fams != set(FAMILIES) or not need <= set(res):
        fails.append(dict(key="generator-degenerate", what=f"generator does not cover the table: {sorted(fams)} {dict(res)}",
                          case=None, observed=None))
    mm = collections.Counter(_min_mults(c["cells"])[0] for c in cases if c["family"] in ("int", "strcat"))
    tm = collections.Counter(_min_mults(c["cells"])[1] for c in cases if c["family"] == "multicat")
    if not (mm[4] and mm[5] and tm[4] and tm[5]):
        fails.append(dict(key="generator-degenerate", what=f"threshold not straddled: {dict(mm)} {dict(tm)}",
                          case=None, observed=None))
    return fails, {"generator_self_check": {"families": sorted(fams), "expected_results": dict(res),
                                            "min_mult_hist": dict(mm), "token_min_hist": dict(tm)}}


# ----------------------------------------------------------------- Coq side
def cz_big(n):
    """huge integers (whole doubles up to 1e300) as mantissa * 2^k: Coq parses long decimal literals slowly"""
    if abs(n) < 2 ** 64:
        return C.cz(n)
    k = (abs(n) & -abs(n)).bit_length() - 1
    return f"(Z.shiftl {C.cz(n >> k if n > 0 else -((-n) >> k))} {k}%Z)"


def cq(num, den):
    return f"(Qmake {cz_big(num)} {den}%positive)"


def coq_elem(e):
    t = e[0]
    if t == "i":
        return f"EInt {C.cz(e[1])}"
    if t == "f":
        return f"EFloat {cq(e[1], e[2])}"
    if t == "nan":
        return "ENan"
    if t == "inf":
        return "EInf"
    return f"EStr {C.cstr(e[1])}"


def coq_cell(c):
    t = c[0]
    if t == "f":
        return f"Float {cq(c[1], c[2])}"
    if t == "finf":
        return f"FloatInf {C.cbool(c[1] < 0)}"
    if t == "i":
        return f"Int {C.cz(c[1])}"
    if t == "b":
        return f"Bool {C.cbool(c[1])}"
    if t == "s":
        return f"Str {C.cstr(c[1])}"
    if t == "d":
        g, acc = date_class(c[1])
        return f"DateStr {C.cstr(g)} {C.clist(acc, C.cstr)} {C.cstr(c[1])}"
    if t == "l":
        return f"LList {C.clist(c[1], coq_elem)}"
    return "Missing"


def coq_outcome(o):
    if not o["ok"]:
        return "Raises"
    if o["res"] is None:
        return "(Inferred None)"
    assert o["res"] in STYPES, o["res"]
    return f"(Inferred (Some st_{o['res']}))"


def _in_model_domain(cells):
    return ref_infer(cells) is not OUT


def coq_series_term(cells, o, preds=True):
    cl = C.clist(cells, coq_cell)
    t = f"outcome_eqb (infer_series_stype {cl}) {coq_outcome(o)}"
    kinds = {c[0] for c in cells if c[0] != "m"}
    if kinds and kinds <= {"s", "d"}:
        # the string part of the table with its priorities, at specification level (Props/C18.v 6b, 6c)
        t += f" && outcome_eqb (Inferred (Some (string_column_decision (dropna {cl})))) {coq_outcome(o)}"
    if "preds" in o and preds:
        t += f" && bools_eqb (dtype_preds {cl}) {C.clist(o['preds'], C.cbool)}"
    return t


def coq_term(case, obs):
    if obs is None or "harness_exc" in obs:
        return None
    if case["kind"] == "series":
        if not _in_model_domain(case["cells"]):
            return None
        # the dtype predicates are those of pandas' DEFAULT representation; with a nullable / narrow backing
        # only the outcome is compared
        dp = not (case.get("rep") or {}).get("backing")
        terms = [coq_series_term(case["cells"], obs["base"], dp)]
        for v, o in zip(case["variants"], obs["variants"]):
            terms.append(coq_series_term(variant_cells(case["cells"], v), o, dp))
            if v.get("scale"):     # the model's own scale_cell on the unscaled variant against the scaled run
                un = C.clist(variant_cells(case["cells"], v, scaled=False), coq_cell)
                terms.append(f"outcome_eqb (infer_series_stype (map (scale_cell {C.cz(v['scale'])}) {un})) {coq_outcome(o)}")
        if case.get("boundary") == "wholefloat_cast_witness":
            # the refuted int64-cast variant (Props/C18.v int64_cast_variant_refuted) must DISAGREE with the code
            cl = C.clist(case["cells"], coq_cell)
            terms.append(f"negb (outcome_eqb (infer_after_int64_cast {cl}) {coq_outcome(obs['base'])})")
        return "(" + " && ".join(terms) + ")"
    if any(not _in_model_domain(c["cells"]) for c in case["columns"]):
        return None
    df = C.clist(case["columns"], lambda c: f"({C.cstr(c['name'])}, {C.clist(c['cells'], coq_cell)})")
    if obs["ok"]:
        for _, s in obs["items"]:
            assert s in STYPES, s
        o = "(Some " + C.clist(obs["items"], lambda it: f"({C.cstr(it[0])}, st_{it[1]})") + ")"
    else:
        o = "None"
    return f"df_eqb (infer_df_stype {df}) {o}"
