"""Shared machinery of the /verif checks (see DESIGN.md section 3).

Everything a property module needs: seeded PRNG, Coq-literal printers, the
Coq build / correspondence runner, evidence + replay writers, known-findings
handling and the decision procedure of section 3.4.
"""
from __future__ import annotations

import fcntl
import hashlib
import json
import os
import random
import re
import subprocess
import sys
import time
import traceback

ROOT = os.path.dirname(os.path.dirname(os.path.abspath(__file__)))
COQ = os.path.join(ROOT, "coq")
BUILD = os.path.join(ROOT, "build")
EVID = os.path.join(ROOT, "evidence")
REPLAY = os.path.join(ROOT, "replay")
CORPUS = os.path.join(ROOT, "corpus")
KNOWN = os.path.join(ROOT, "known_findings.txt")
REPO = os.environ.get("VERIF_REPO", "/repo")
NCPU = int(os.environ.get("VERIF_NCPU", os.cpu_count() or 4))

for d in (BUILD, EVID, REPLAY):
    os.makedirs(d, exist_ok=True)


# --------------------------------------------------------------------------
# PRNG: one state per run, every random choice derives from it.
class Rng(random.Random):
    def chance(self, p: float) -> bool:
        return self.random() < p

    def pick(self, seq):
        return seq[self.randrange(len(seq))]

    def wpick(self, pairs):
        """pairs: [(weight, value)]"""
        tot = sum(w for w, _ in pairs)
        x = self.random() * tot
        for w, v in pairs:
            x -= w
            if x <= 0:
                return v
        return pairs[-1][1]


# --------------------------------------------------------------------------
# Coq literal printers
def cz(n: int) -> str:
    return f"({n})%Z" if n < 0 else f"{n}%Z"


def cnat(n: int) -> str:
    assert 0 <= n < 5000, n
    return f"{n}%nat"


def cbool(b: bool) -> str:
    return "true" if b else "false"


def clist(xs, f=str) -> str:
    return "[" + "; ".join(f(x) for x in xs) + "]"


def copt(x, f=str) -> str:
    return "None" if x is None else f"(Some {f(x)})"


def cstr(s: str) -> str:
    # Coq string literal of ASCII text (callers pass only ASCII)
    return '"' + s.replace('"', '""') + '"%string'


# --------------------------------------------------------------------------
class Lock:
    """Exclusive while the Coq tree is (re)built or a generated file is written, shared while compiled files are
    only read (evaluation of case files): checks may run in parallel, and a rebuild triggered by one of them never
    overlaps an evaluation by another ("inconsistent assumptions over PF.Gen.Tables")."""
    def __init__(self, name="coq.lock", shared=False):
        self.path = os.path.join(BUILD, name)
        self.shared = shared

    def __enter__(self):
        self.f = open(self.path, "a")
        fcntl.flock(self.f, fcntl.LOCK_SH if self.shared else fcntl.LOCK_EX)
        return self

    def __exit__(self, *a):
        fcntl.flock(self.f, fcntl.LOCK_UN)
        self.f.close()


def sh(cmd, timeout=1800, cwd=None, env=None):
    e = dict(os.environ)
    if env:
        e.update(env)
    try:
        p = subprocess.run(cmd, shell=isinstance(cmd, str), cwd=cwd, env=e,
                           stdout=subprocess.PIPE, stderr=subprocess.STDOUT,
                           timeout=timeout, text=True)
        return p.returncode, p.stdout
    except subprocess.TimeoutExpired as ex:
        out = ex.stdout or ""
        if isinstance(out, bytes):
            out = out.decode("utf8", "replace")
        return 124, out + "\nTIMEOUT"


FORBIDDEN = re.compile(
    r"\b(Admitted|admit|Axiom|Axioms|Parameter|Parameters|Conjecture|"
    r"Admit Obligations|bypass_check|Unset Guard Checking|"
    r"Unset Positivity Checking|Unset Universe Checking)\b")


def scan_forbidden():
    """grep for declarations that would add to the trusted base."""
    bad = []
    for dp, _, fns in os.walk(COQ):
        for fn in fns:
            if not fn.endswith(".v"):
                continue
            p = os.path.join(dp, fn)
            txt = open(p).read()
            txt = re.sub(r"\(\*.*?\*\)", "", txt, flags=re.S)
            for m in FORBIDDEN.finditer(txt):
                bad.append(f"{os.path.relpath(p, COQ)}: {m.group(0)}")
            # Variable / Hypothesis outside a section
            depth = 0
            for line in txt.splitlines():
                s = line.strip()
                if re.match(r"(Section|Module)\s+\w+", s) and not s.startswith("Module Type"):
                    if s.startswith("Section"):
                        depth += 1
                if re.match(r"End\s+\w+\s*\.", s) and depth > 0:
                    depth -= 1
                if depth == 0 and re.match(r"(Variable|Variables|Hypothesis|Hypotheses|Context)\b", s):
                    bad.append(f"{os.path.relpath(p, COQ)}: {s[:40]} outside a section")
    return bad


def gen_tables():
    """Tie 1: regenerate coq/Gen/Tables.v from the live Python objects."""
    out = os.path.join(COQ, "Gen", "Tables.v")
    rc, txt = sh([sys.executable, os.path.join(ROOT, "harness", "gen_tables.py")],
                 env={"PYTHONPATH": REPO, "PYTHONHASHSEED": "0"}, timeout=300)
    if rc != 0:
        return False, txt
    body = txt[txt.index("(* BEGIN TABLES *)"):]
    old = open(out).read() if os.path.exists(out) else None
    if old != body:
        with Lock():
            tmp = out + f".tmp{os.getpid()}"
            with open(tmp, "w") as f:
                f.write(body)
            os.replace(tmp, out)
    return True, ""


def write_coqproject():
    """_CoqProject lists every .v file under coq/ (coqdep orders them)."""
    files = []
    for dp, dn, fns in os.walk(COQ):
        dn.sort()
        for fn in sorted(fns):
            if fn.endswith(".v"):
                files.append(os.path.relpath(os.path.join(dp, fn), COQ))
    body = "-Q . PF\n" + "\n".join(sorted(files)) + "\n"
    p = os.path.join(COQ, "_CoqProject")
    if not os.path.exists(p) or open(p).read() != body:
        with open(p, "w") as f:
            f.write(body)
        return True
    return False


def coq_make(targets=None, timeout=2400):
    """Full .vo build (incremental) of the given targets under coq/."""
    with Lock():
        changed = write_coqproject()
        if changed or not os.path.exists(os.path.join(COQ, "Makefile")):
            rc, out = sh("coq_makefile -f _CoqProject -o Makefile", cwd=COQ)
            if rc != 0:
                return False, out
        tg = " ".join(targets) if targets else ""
        rc, out = sh(f"timeout {timeout} make -j{NCPU} {tg}", cwd=COQ, timeout=timeout + 30)
        return rc == 0, out


def coqc_file(path, timeout=600):
    return sh(["timeout", str(timeout), "coqc", "-Q", COQ, "PF", path], timeout=timeout + 10,
              cwd=os.path.dirname(path))


def check_props(prop: str):
    """Compile Props/<prop>.v on its own to capture the theorem list and the
    Print Assumptions output.  Returns dict(ok, theorems, assumptions, log)."""
    path = os.path.join(COQ, "Props", f"{prop}.v")
    src = open(path).read()
    src_nc = re.sub(r"\(\*.*?\*\)", "", src, flags=re.S)
    thms = re.findall(r"^\s*(?:Theorem|Lemma|Corollary|Example|Fact)\s+([A-Za-z0-9_']+)", src_nc, flags=re.M)
    ok, log = coq_make([f"Props/{prop}.vo"])
    res = dict(ok=ok, theorems=thms, assumptions={}, log=log[-4000:] if not ok else "")
    if not ok:
        return res
    # re-run coqc on the props file alone to read Print Assumptions output
    tmp = os.path.join(BUILD, f"props_{prop}_{os.getpid()}")
    os.makedirs(tmp, exist_ok=True)
    tp = os.path.join(tmp, f"{prop}_pa.v")
    with open(tp, "w") as f:
        f.write(src)
    with Lock(shared=True):
        rc, out = coqc_file(tp)
    if rc != 0:
        res["ok"] = False
        res["log"] = out[-4000:]
        return res
    closed = len(re.findall(r"Closed under the global context", out))
    axioms = sorted(set(re.findall(r"^([A-Za-z_][A-Za-z0-9_.']*)\s*:", out, flags=re.M)) - {"Axioms"})
    res["assumptions"] = dict(closed=closed, listed=axioms,
                              print_assumptions_cmds=len(re.findall(r"Print Assumptions", src_nc)))
    for fn in os.listdir(tmp):
        os.remove(os.path.join(tmp, fn))
    os.rmdir(tmp)
    return res


def run_coq_cases(prop: str, header: str, terms: list, shard=400, timeout=900):
    """Tie 2.  `terms` is a list of (case_id, coq_term_of_type_bool).  Each shard
    file evaluates all its terms with vm_compute and prints the ids whose model
    observation differs.  Returns (ok, failing_ids, log)."""
    if not terms:
        return True, [], ""
    d = os.path.join(BUILD, f"cases_{prop}_{os.getpid()}")
    os.makedirs(d, exist_ok=True)
    files = []
    for k in range(0, len(terms), shard):
        chunk = terms[k:k + shard]
        name = f"cases_{prop}_{k // shard}"
        p = os.path.join(d, name + ".v")
        with open(p, "w") as f:
            f.write(header + "\n")
            f.write("Require Import Coq.Lists.List Coq.ZArith.ZArith Coq.Strings.String Coq.Bool.Bool.\nImport ListNotations.\nOpen Scope bool_scope.\n")
            f.write("Definition verif_cases : list (Z * bool) :=\n  [")
            f.write(";\n   ".join(f"({cid}%Z, {t})" for cid, t in chunk))
            f.write("].\n")
            f.write("Definition verif_bad := map fst (filter (fun p => negb (snd p)) verif_cases).\n")
            f.write("Eval vm_compute in (List.length verif_cases, verif_bad).\n")
        files.append(p)
    procs = []
    failing, logs, ok = [], [], True
    # run in parallel
    from concurrent.futures import ThreadPoolExecutor
    with Lock(shared=True), ThreadPoolExecutor(max_workers=NCPU) as ex:
        results = list(ex.map(lambda p: coqc_file(p, timeout), files))
    for p, (rc, out) in zip(files, results):
        if rc != 0:
            ok = False
            logs.append(f"{os.path.basename(p)}: rc={rc}\n{out[-3000:]}")
            continue
        flat = " ".join(out.split())
        m = re.search(r"=\s*\((\d+)%?n?a?t?,\s*(\[.*?\]|nil)\s*\)\s*:", flat)
        if not m:
            ok = False
            logs.append(f"{os.path.basename(p)}: unparsable output\n{out[-2000:]}")
            continue
        ids = re.findall(r"\d+", m.group(2))
        failing.extend(int(x) for x in ids)
    if ok and not os.environ.get("VERIF_KEEP"):
        for fn in os.listdir(d):
            os.remove(os.path.join(d, fn))
        os.rmdir(d)
    return ok, failing, "\n".join(logs)


# --------------------------------------------------------------------------
def load_known(prop):
    keys = {}
    if os.path.exists(KNOWN):
        for line in open(KNOWN):
            line = line.strip()
            m = re.match(r"finding:\s+property=(\S+)\s+key=(\S+)\s+(.*)", line)
            if m and m.group(1) == prop:
                keys[m.group(2)] = m.group(3)
    return keys


def write_replay(prop, payload):
    s = json.dumps(payload, sort_keys=True, default=str)
    h = hashlib.sha1(s.encode()).hexdigest()[:12]
    p = os.path.join(REPLAY, f"{prop}-{h}.json")
    with open(p, "w") as f:
        json.dump(payload, f, indent=1, sort_keys=True, default=str)
    return p


def write_evidence(prop, ev):
    p = os.path.join(EVID, f"{prop}.json")
    tmp = p + f".tmp{os.getpid()}"
    with open(tmp, "w") as f:
        json.dump(ev, f, indent=1, default=str)
    os.replace(tmp, p)


def load_corpus(prop):
    d = os.path.join(CORPUS, prop)
    out = []
    if os.path.isdir(d):
        for fn in sorted(os.listdir(d)):
            if fn.endswith(".json"):
                out.append(json.load(open(os.path.join(d, fn))))
    return out


def exc_name(ex):
    return type(ex).__name__


def fmt_exc():
    return traceback.format_exc()[-1500:]
