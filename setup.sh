#!/bin/bash
# MANIFEST.setup_cmd: regenerate the tables from /repo and build the whole Coq development (full .vo build).
set -e
cd "$(dirname "$0")"
mkdir -p build evidence replay coq/Gen
export PYTHONPATH="${VERIF_REPO:-/repo}" PYTHONHASHSEED=0 PYTHONDONTWRITEBYTECODE=1
/venv/bin/python -W ignore - <<'PY'
import sys
sys.path.insert(0, ".")
from harness import common as C
ok, log = C.gen_tables()
assert ok, log
C.write_coqproject()
PY
cd coq
coq_makefile -f _CoqProject -o Makefile > /dev/null
timeout 3000 make -j16
