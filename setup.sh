#!/bin/bash
# MANIFEST.setup_cmd: regenerate the tables from /repo and build the whole Coq development (full .vo build).
set -e
cd "$(dirname "$0")"
mkdir -p build evidence replay coq/Gen
PYTHONPATH="${VERIF_REPO:-/repo}" PYTHONHASHSEED=0 /venv/bin/python -W ignore harness/gen_tables.py 2>/dev/null | sed -n '/BEGIN TABLES/,$p' > build/Tables.v.new
if ! cmp -s build/Tables.v.new coq/Gen/Tables.v; then cp build/Tables.v.new coq/Gen/Tables.v; fi
cd coq
coq_makefile -f _CoqProject -o Makefile > /dev/null
timeout 3000 make -j16
