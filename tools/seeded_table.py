#!/usr/bin/env python3
"""seeded_table.py <k> <k> ... : markdown rows (change | what | needs | result) from seeded/*/meta.json"""
import glob, json, os, sys
ROOT = os.path.dirname(os.path.dirname(os.path.abspath(__file__)))
ks = sys.argv[1:]
def cl(s, n): return (s or '').replace('|', '/').replace('\n', ' ')[:n]
for d in sorted(glob.glob(os.path.join(ROOT, 'seeded', 'C*_*'))):
    name = os.path.basename(d)
    if name.split('_')[1] not in ks: continue
    m = json.load(open(os.path.join(d, 'meta.json')))
    print(f"| {name} | {cl(m.get('summary'), 170)} | {cl(m.get('needs_to_manifest'), 130)} | {cl(m.get('verif_result', 'PENDING'), 170)} |")
