import sys, json, collections
import os; sys.path.insert(0, os.path.dirname(os.path.dirname(os.path.abspath(__file__))))
from harness import common as C
import importlib
mod = importlib.import_module('harness.'+sys.argv[1])
rng = C.Rng(int(sys.argv[3]) if len(sys.argv)>3 else 1)
cases = mod.generate(rng, sys.argv[2] if len(sys.argv)>2 else 'quick')
keys = collections.Counter(); ex = {}
import time; t=time.time()
obss=[]
for c in cases:
    try: o = mod.run(c)
    except Exception as e: o = {"harness_exc": type(e).__name__, "tb": C.fmt_exc()}
    obss.append(o)
    f = mod.oracle(c,o)
    if f:
        keys[f['key']]+=1
        if f['key'] not in ex or len(json.dumps(c))<len(json.dumps(ex[f['key']][0])): ex[f['key']]=(c,f)
print(len(cases), "cases", round(time.time()-t,1),"s")
for k,v in keys.most_common(): 
    print(v,k); print("   ", json.dumps(ex[k][0])[:600]); print("   ", ex[k][1]['what'][:300]); 
    if 'tb' in ex[k][1]: print(ex[k][1]['tb'])
if hasattr(mod,'stats'): print(json.dumps(mod.stats(cases,obss))[:1500])
print("distinct", len({mod.nontrivial_sig(c,o) for c,o in zip(cases,obss)}-{None}))
