import json,sys
pid=sys.argv[1]
for l in open('/verif/properties.jsonl'):
    p=json.loads(l)
    if p['id']==pid: break
print(f"""You are testing a verification effort from the outside. You get ONLY the text of one semantic property of the Python library pytorch-frame (pyg-team/pytorch-frame) and your own scratch git worktree of the repository. Do not look at /verif or anything outside your worktree and the installed Python packages.

Setup: create your worktree with `git -C /repo worktree add /tmp/mut_{pid} HEAD` and work ONLY inside /tmp/mut_{pid} (never edit /repo itself, never commit anywhere, and NEVER use `git stash` — the stash is shared between all worktrees of /repo; toggle your change with `git apply` / `git apply -R` of your saved patch file). Run code with `cd /tmp/mut_{pid} && PYTHONPATH=/tmp/mut_{pid} PYTHONHASHSEED=0 OMP_NUM_THREADS=2 /venv/bin/python ...` (python 3.12, torch CPU, pandas 3, numpy 2; no network; xgboost/catboost/lightgbm/sklearn are NOT installed).

The property ({pid}: {p['title']}):
STATEMENT: {p['statement']}
QUANTIFIED OVER: {p['quantifier']['text']}
CODE IT IS ANCHORED IN: {', '.join(p['anchors']['files'])}

Task: produce TWO different, realistic changes (bugs a developer could plausibly introduce: an off-by-one, a wrong axis, a label-vs-position slip, a dropped normalisation, a stale cache, a swapped argument, a too-eager shortcut ...) to the library source under /tmp/mut_{pid}/torch_frame that each BREAK the property above while the code still imports and the existing test suite still passes. Prefer changes that need something specific to manifest (an unusual but legal input, a multi-step sequence of operations, a particular size relation, two cooperating sites that each look fine alone) over ones that any ordinary use would expose at once. The two changes must be independent (different functions or different mechanisms).

For EACH change k in {{1,2}}:
 1. Start from a clean worktree (`git -C /tmp/mut_{pid} checkout -- .`), make the change, save it as /tmp/mut_{pid}_out/{pid}_{{k}}/patch.diff (`git -C /tmp/mut_{pid} diff > ...`).
 2. Write a demonstration /tmp/mut_{pid}_out/{pid}_{{k}}/demo.py: a small standalone program using only the public behaviour described by the property, which exits 0 on the unchanged code and exits 1 (printing what went wrong) with the change applied. Run it both ways and record the outputs.
 3. Confirm the existing test suite still passes with the change: run `cd /tmp/mut_{pid} && PYTHONPATH=/tmp/mut_{pid} /venv/bin/python -m pytest -q -p no:cacheprovider --color=no --timeout=900 test/data test/utils test/transforms test/nn test/test_stype.py 2>&1 | grep -E "^(FAILED|ERROR)|passed|failed" | sort` WITH and WITHOUT the change and compare the sets of failing tests: the change must not make any test fail that passes without it (some tests fail regardless because optional packages are missing — ignore those). If it newly breaks a test, pick a different change.
 4. Write /tmp/mut_{pid}_out/{pid}_{{k}}/meta.json: {{"property": "{pid}", "summary": "<one sentence what was changed>", "needs_to_manifest": "<what specific input/sequence exposes it>", "files": [...], "ran": ["<commands you ran and their outcome>"]}}.
When done: `git -C /tmp/mut_{pid} checkout -- .` then `git -C /repo worktree remove --force /tmp/mut_{pid}`. Final message: for each change, one paragraph (what, why it breaks the property, what exposes it) and the paths of the files written.""")
