#!/usr/bin/env python3
"""Prompt for a later round of independently seeded changes:
   mutant_prompt_round.py <Cxx> <round> <first_k> "<flavour sentence>"
The agent gets the property text, the summaries of the changes already produced
for it (so that its own are of a different kind) and a scratch worktree; nothing
from /verif."""
import glob
import json
import os
import sys

pid, rnd, k0, flavour = sys.argv[1], sys.argv[2], int(sys.argv[3]), sys.argv[4]
ROOT = os.path.dirname(os.path.dirname(os.path.abspath(__file__)))
for l in open(os.path.join(ROOT, 'properties.jsonl')):
    p = json.loads(l)
    if p['id'] == pid:
        break
prev = []
for d in sorted(glob.glob(os.path.join(ROOT, 'seeded', pid + '_*'))):
    try:
        prev.append('- ' + json.load(open(os.path.join(d, 'meta.json')))['summary'][:420])
    except Exception:
        pass
wt = f"/tmp/mut{rnd}_{pid}"
out = f"/tmp/mut{rnd}_{pid}_out"
print(f"""You are testing a verification effort from the outside. You get ONLY the text of one semantic property of the Python library pytorch-frame (pyg-team/pytorch-frame) and your own scratch git worktree of the repository. Do not look at /verif or anything outside your worktree and the installed Python packages.

Setup: create your worktree with `git -C /repo worktree add {wt} HEAD` and work ONLY inside {wt} (never edit /repo itself, never commit anywhere, and NEVER use `git stash` — the stash is shared between all worktrees of /repo; toggle your change with `git apply` / `git apply -R` of your saved patch file). Run code with `cd {wt} && PYTHONPATH={wt} PYTHONHASHSEED=0 OMP_NUM_THREADS=2 /venv/bin/python ...` (python 3.12, torch CPU, pandas 3, numpy 2; no network; xgboost/catboost/lightgbm/sklearn are NOT installed).

The property ({pid}: {p['title']}):
STATEMENT: {p['statement']}
QUANTIFIED OVER: {p['quantifier']['text']}
CODE IT IS ANCHORED IN: {', '.join(p['anchors']['files'])}

Task: produce TWO different, realistic changes (bugs a developer could plausibly introduce) to the library source under {wt}/torch_frame that each BREAK the property above while the code still imports and the existing test suite still passes. The two changes must be independent (different functions or different mechanisms).

{len(prev)} changes were already produced by others for this property; yours must be of a DIFFERENT kind (different function or different mechanism, not a variant). {flavour} Already produced:
{chr(10).join(prev)}

For EACH change k in {{1,2}} (your output directories are numbered k+{k0 - 1}, i.e. {pid}_{k0} and {pid}_{k0 + 1}):
 1. Start from a clean worktree (`git -C {wt} checkout -- .`), make the change, save it as {out}/{pid}_{{k+{k0 - 1}}}/patch.diff (`git -C {wt} diff > ...`).
 2. Write a demonstration {out}/{pid}_{{k+{k0 - 1}}}/demo.py: a small standalone program using only the public behaviour described by the property, which exits 0 on the unchanged code and exits 1 (printing what went wrong) with the change applied. Run it both ways and record the outputs.
 3. Confirm the existing test suite still passes with the change: run `cd {wt} && PYTHONPATH={wt} /venv/bin/python -m pytest -q -p no:cacheprovider --color=no --timeout=900 --continue-on-collection-errors test 2>&1 | grep -E "^(FAILED|ERROR)|passed|failed" | sort` WITH and WITHOUT the change and compare the sets of failing tests: the change must not make any test fail that passes without it (some tests fail regardless because optional packages are missing — ignore those). If it newly breaks a test, pick a different change.
 4. Write {out}/{pid}_{{k+{k0 - 1}}}/meta.json: {{"property": "{pid}", "summary": "<one sentence what was changed>", "needs_to_manifest": "<what specific input/sequence exposes it>", "files": [...], "ran": ["<commands you ran and their outcome>"]}}.
When done: `git -C {wt} checkout -- .` then `git -C /repo worktree remove --force {wt}`. Final message: for each change, one paragraph (what, why it breaks the property, what exposes it) and the paths of the files written.""")
