#!/bin/bash
# usage: tools/process_mutant.sh <name e.g. C05_3> <srcdir>  : confirm in scratch worktree, then run the check against it
N=$1; SRC=$2; P=${N%_*}
/verif/tools/confirm_mutant.sh $SRC $N
echo "--- check $P vs $N"
OMP_NUM_THREADS=4 /verif/tools/try_mutant.sh $P /verif/seeded/$N/patch.diff 2>&1 | grep -v "KNOWN-FINDING\|it/s" | tail -4 | cut -c1-260
