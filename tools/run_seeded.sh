#!/bin/bash
# Regression test of the checks themselves: every seeded change must be reported as a VIOLATION by its property's check.
# Prints, per change, caught/MISSED and the number of failing cases (oracle failures / correspondence mismatches):
# a change caught by only one or two random cases is a fragile catch and gets its trigger added to the boundary stream.
# usage: tools/run_seeded.sh [parallelism=5]
cd "$(dirname "$0")/.."
J=${1:-5}
ls -d seeded/C??_* | xargs -P $J -I{} bash -c 'n=$(basename {}); p=${n%_*}; if grep -q '"obsolete"' seeded/$n/meta.json; then echo "$n obsolete"; exit 0; fi; out=$(OMP_NUM_THREADS=2 VERIF_NCPU=3 tools/try_mutant.sh $p /verif/seeded/$n/patch.diff 2>&1); st=$(echo "$out" | grep -E "^\[$p\]" | tail -1 | sed -E "s/.*corr=([0-9]+)\/([0-9]+) bad oracle_fail=([0-9]+) known=([0-9]+).*/corr_bad=\2 oracle_fail=\3 known=\4/"); if echo "$out" | grep -q "VIOLATION property=$p"; then echo "$n caught $st"; else echo "$n MISSED: $(echo "$out" | tail -1)"; fi' | sort
