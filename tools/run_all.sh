#!/bin/bash
# Runs every claimed quick (or $1=thorough) check on the current tree and prints one line each.
cd "$(dirname "$0")/.."
TIER=${1:-quick}
for id in C01 C02 C03 C04 C05 C06 C07 C08 C09 C10 C11 C12 C13 C14 C15 C16 C17 C18 C19 C20; do
  ./check $id --tier $TIER 2>&1 | grep -E "^\[C|VIOLATION" | tail -3
done
