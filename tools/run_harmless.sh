#!/bin/bash
# Runs each property's check against the harmless rewrites collected under seeded_harmless/<id>_h<k>/ : none may raise an alarm.
cd "$(dirname "$0")/.."
J=${1:-5}
ls -d seeded_harmless/C??_h* | xargs -P $J -I{} bash -c 'n=$(basename {}); p=${n%_*}; if grep -q '"obsolete"' seeded_harmless/$n/meta.json; then echo "$n obsolete"; exit 0; fi; out=$(OMP_NUM_THREADS=2 VERIF_NCPU=3 tools/try_mutant.sh $p /verif/seeded_harmless/$n/patch.diff 2>&1); if echo "$out" | grep -q "VIOLATION"; then echo "$n FALSE-ALARM: $(echo "$out" | grep -B1 VIOLATION | head -3 | tr "\n" " " | cut -c1-300)"; elif echo "$out" | grep -q "^\[$p\] ok"; then echo "$n quiet"; else echo "$n ???: $(echo "$out" | tail -2 | tr "\n" " " | cut -c1-200)"; fi' | sort
