#!/usr/bin/env python3
import json, sys, os
name, res = sys.argv[1], sys.argv[2]
p = os.path.join(os.path.dirname(os.path.dirname(os.path.abspath(__file__))), "seeded", name, "meta.json")
m = json.load(open(p))
m["verif_result"] = res
m["confirmed_by_integrator"] = open(os.path.join(os.path.dirname(p), "confirm.txt")).read().split("\n")[0] if os.path.exists(os.path.join(os.path.dirname(p), "confirm.txt")) else "see DESIGN.md"
json.dump(m, open(p, "w"), indent=1)
