#!/usr/bin/env python3
"""Prompt for a round of HARMLESS rewrites: harmless_prompt_round.py <Cxx> <round> <first_k> "<flavour>" """
import glob, json, os, sys
pid, rnd, k0, flavour = sys.argv[1], sys.argv[2], int(sys.argv[3]), sys.argv[4]
ROOT = os.path.dirname(os.path.dirname(os.path.abspath(__file__)))
for l in open(os.path.join(ROOT, 'properties.jsonl')):
    p = json.loads(l)
    if p['id'] == pid:
        break
prev = []
for d in sorted(glob.glob(os.path.join(ROOT, 'seeded_harmless', pid + '_h*'))):
    try:
        prev.append('- ' + json.load(open(os.path.join(d, 'meta.json')))['summary'][:300])
    except Exception:
        pass
wt = f"/tmp/ref{rnd}_{pid}"; out = f"/tmp/ref{rnd}_{pid}_out"
print(f"""You are testing a verification effort from the outside. You get ONLY the text of one semantic property of the Python library pytorch-frame (pyg-team/pytorch-frame) and your own scratch git worktree of the repository. Do not look at /verif or anything outside your worktree and the installed Python packages.

Setup: create your worktree with `git -C /repo worktree add {wt} HEAD` and work ONLY inside {wt} (never edit /repo itself, never commit anywhere, and NEVER use `git stash` — toggle your change with `git apply` / `git apply -R` of your saved patch file). Run code with `cd {wt} && PYTHONPATH={wt} PYTHONHASHSEED=0 OMP_NUM_THREADS=2 /venv/bin/python ...` (python 3.12, torch CPU, pandas 3, numpy 2; no network; xgboost/catboost/lightgbm/sklearn are NOT installed).

The property ({pid}: {p['title']}):
STATEMENT: {p['statement']}
QUANTIFIED OVER: {p['quantifier']['text']}
CODE IT IS ANCHORED IN: {', '.join(p['anchors']['files'])}

Task: produce TWO different HARMLESS rewrites of the code this property is anchored in: refactorings a maintainer could plausibly merge which change HOW the code works but leave the property true for every input in its quantifier (and keep all public behaviour the property talks about). Make them substantial enough to upset a brittle checker. {flavour} Do NOT change any public observable the property mentions (values, order, shapes, names, dtypes, raise/no-raise, which rows/cells, non-modification of inputs where the property promises it) and do not change behaviour outside the quantifier in a way a reasonable user would call a regression. Rewrites already produced by others for this property (yours must be different):
{chr(10).join(prev) if prev else '- (none)'}

For EACH rewrite k in {{1,2}} (your output directories are numbered k+{k0 - 1}, i.e. {pid}_h{k0} and {pid}_h{k0 + 1}):
 1. Start from a clean worktree (`git -C {wt} checkout -- .`), make the change, save it as {out}/{pid}_h{{k+{k0 - 1}}}/patch.diff (`git -C {wt} diff > ...`).
 2. Write {out}/{pid}_h{{k+{k0 - 1}}}/demo.py: a program that exercises the property on a range of inputs (including edge cases in the quantifier, multi-step sequences and reuse of objects) and exits 0 when the property holds; it must exit 0 BOTH on the unchanged code and with your rewrite applied. Run it both ways.
 3. Confirm the existing test suite is unchanged: run `cd {wt} && PYTHONPATH={wt} /venv/bin/python -m pytest -q -p no:cacheprovider --color=no --timeout=900 --continue-on-collection-errors test 2>&1 | grep -E "^(FAILED|ERROR)|passed|failed" | sort` WITH and WITHOUT the rewrite; the sets of failing tests must be identical (some tests fail regardless because optional packages are missing).
 4. Write {out}/{pid}_h{{k+{k0 - 1}}}/meta.json: {{"property": "{pid}", "summary": "<what was rewritten>", "why_harmless": "<why the property and public behaviour are unchanged>", "files": [...]}}.
When done: `git -C {wt} checkout -- .` then `git -C /repo worktree remove --force {wt}`. Final message: one paragraph per rewrite and the paths written.""")
