#!/bin/bash
# usage: tools/confirm_mutant.sh <out_dir containing patch.diff demo.py meta.json> <name e.g. C05_1>
# Confirms in a scratch worktree: demo exits 0 without the patch, non-zero with it; baseline tests unchanged.
SRC=$1; NAME=$2
WT=/tmp/wt_confirm_$NAME
git -C /repo worktree add -q --detach $WT HEAD || exit 2
run() { (cd $WT && PYTHONPATH=$WT PYTHONHASHSEED=0 OMP_NUM_THREADS=2 timeout 900 /venv/bin/python -W ignore "$@"); }
run $SRC/demo.py > /tmp/confirm_$NAME.clean.out 2>&1; RC_CLEAN=$?
if ! git -C $WT apply $SRC/patch.diff; then echo "$NAME: PATCH-DOES-NOT-APPLY"; git -C /repo worktree remove --force $WT; exit 1; fi
run $SRC/demo.py > /tmp/confirm_$NAME.mut.out 2>&1; RC_MUT=$?
(cd $WT && PYTHONPATH=$WT OMP_NUM_THREADS=4 timeout 1500 /venv/bin/python -m pytest -q -p no:cacheprovider --color=no --timeout=900 --continue-on-collection-errors -rfE test 2>&1 | grep -E "^(FAILED|ERROR)" | sed 's/ - .*//' | sort > /tmp/confirm_$NAME.tests)
git -C /repo worktree remove --force $WT
NEWFAIL=$(comm -13 /verif/tools/baseline_failing.txt /tmp/confirm_$NAME.tests | wc -l)
echo "$NAME: demo_clean_rc=$RC_CLEAN demo_mutant_rc=$RC_MUT new_failing_tests=$NEWFAIL"
mkdir -p /verif/seeded/$NAME && cp $SRC/patch.diff $SRC/demo.py $SRC/meta.json /verif/seeded/$NAME/
echo "demo_clean_rc=$RC_CLEAN demo_mutant_rc=$RC_MUT new_failing_tests=$NEWFAIL" > /verif/seeded/$NAME/confirm.txt
comm -13 /verif/tools/baseline_failing.txt /tmp/confirm_$NAME.tests >> /verif/seeded/$NAME/confirm.txt
