#!/usr/bin/env python3
"""Regenerates /verif/MANIFEST.json from the table below (run after adding a check)."""
import json
import os

ROOT = os.path.dirname(os.path.dirname(os.path.abspath(__file__)))

# property -> (technique, level text, level note, design ref)
CLAIMED = {
    "C05": (
        "Coq refinement proof (ragged kernels refine nested-list selection) + vm_compute correspondence against /repo",
        "Theorems in coq/Props/C05.v: for every container, every index expression and every finite program of "
        "selections the model of the kernels returns exactly the nested-list selection and a well-formed container; "
        "the hand-written model is tied to /repo on every run by running generated programs on both and comparing "
        "every cell, shape, and raise/no-raise observation; a direct nested-list oracle searches for the failing input.",
        "Trusted: Coq kernel + vm_compute, the hand-written model of multi_*tensor.py (checked observationally "
        "each run), modelled torch indexing primitives, harness generators/printers. Aliasing and device placement "
        "are not modelled.",
        "DESIGN.md section 6 C05"),
}

PENDING_REASON = "check not built yet in this round (design in DESIGN.md section 6); not claimed until it runs green"


def main():
    props = [json.loads(l)["id"] for l in open(os.path.join(ROOT, "properties.jsonl"))]
    checks = []
    for p in props:
        if p not in CLAIMED:
            continue
        tech, text, note, ref = CLAIMED[p]
        checks.append(dict(
            property_id=p,
            quick_cmd=f"./check {p} --tier quick",
            thorough_cmd=f"./check {p} --tier thorough",
            evidence_file=f"/verif/evidence/{p}.json",
            replay_cmd_template=f"./check {p} --replay {{path}}",
            engine="coq-correspondence",
            level_claimed=dict(category="proof", text=text, design_ref=ref),
            level_note=note,
            technique=tech,
        ))
    man = dict(
        version=1,
        setup_cmd="./setup.sh",
        hooks=dict(
            guard="PYTORCH_FRAME_VERIF",
            enable="no source hooks are needed: checks import /repo's working tree directly (PYTHONPATH=/repo)",
            baseline_off_cmd="cd /repo && /venv/bin/python -m pytest -ra -q -p no:cacheprovider --timeout=900 "
                             "--continue-on-collection-errors",
            source_commits=[],
            add_only=True,
        ),
        engines=[dict(
            name="coq-correspondence", path="/verif/check",
            serves_properties=[c["property_id"] for c in checks],
            kind_free_text="Coq 8.16.1 development (coq/) with theorems per property; generated tables from the live "
                           "Python objects; per-run differential correspondence model-vs-/repo evaluated by vm_compute; "
                           "direct property oracle for the violation search")],
        checks=checks,
        notes="See DESIGN.md.  known_findings.txt lists repaired defects (fix: commits in /repo) and known findings.",
        not_applicable=[dict(property_id=p, reason=PENDING_REASON) for p in props if p not in CLAIMED],
    )
    with open(os.path.join(ROOT, "MANIFEST.json"), "w") as f:
        json.dump(man, f, indent=1)
    print("claimed:", [c["property_id"] for c in checks])


if __name__ == "__main__":
    main()
