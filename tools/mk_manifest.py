#!/usr/bin/env python3
"""Regenerates /verif/MANIFEST.json from the table below (run after adding a check)."""
import json
import os

ROOT = os.path.dirname(os.path.dirname(os.path.abspath(__file__)))

# property -> (technique, level text, level note, design ref)
CLAIMED = {k: (v['technique'], v['text'], v['note'], v['ref'])
           for k, v in json.load(open(os.path.join(ROOT, 'tools', 'claims.json'))).items()}

PENDING_REASON = "check not built yet in this round (design in DESIGN.md section 6); not claimed until it runs green"


def main():
    props = [json.loads(l)["id"] for l in open(os.path.join(ROOT, "properties.jsonl"))]
    checks = []
    for p in props:
        if p not in CLAIMED:
            continue
        tech, text, note, ref = CLAIMED[p]
        checks.append(dict(
            property_id=p,
            quick_cmd=f"./check {p} --tier quick",
            thorough_cmd=f"./check {p} --tier thorough",
            evidence_file=f"/verif/evidence/{p}.json",
            replay_cmd_template=f"./check {p} --replay {{path}}",
            engine="coq-correspondence",
            level_claimed=dict(category="proof", text=text, design_ref=ref),
            level_note=note,
            technique=tech,
        ))
    man = dict(
        version=1,
        setup_cmd="./setup.sh",
        hooks=dict(
            guard="PYTORCH_FRAME_VERIF",
            enable="no source hooks are needed: checks import /repo's working tree directly (PYTHONPATH=/repo)",
            baseline_off_cmd="cd /repo && /venv/bin/python -m pytest -ra -q -p no:cacheprovider --timeout=900 "
                             "--continue-on-collection-errors",
            source_commits=[],
            add_only=True,
        ),
        engines=[dict(
            name="coq-correspondence", path="/verif/check",
            serves_properties=[c["property_id"] for c in checks],
            kind_free_text="Coq 8.16.1 development (coq/) with theorems per property; generated tables from the live "
                           "Python objects; per-run differential correspondence model-vs-/repo evaluated by vm_compute; "
                           "direct property oracle for the violation search")],
        checks=checks,
        notes="See DESIGN.md.  known_findings.txt lists repaired defects (fix: commits in /repo) and known findings.",
        not_applicable=[dict(property_id=p, reason=PENDING_REASON) for p in props if p not in CLAIMED],
    )
    with open(os.path.join(ROOT, "MANIFEST.json"), "w") as f:
        json.dump(man, f, indent=1)
    print("claimed:", [c["property_id"] for c in checks])


if __name__ == "__main__":
    main()
