#!/bin/bash
# usage: tools/process_harmless.sh <name e.g. C05_h5> <srcdir> : confirm (demo passes without and with the rewrite, same failing
# tests) in a scratch worktree, keep it under seeded_harmless/, then run the property's check against it (must stay quiet).
N=$1; SRC=$2; P=${N%_h*}
WT=/tmp/wt_hconfirm_$N
git -C /repo worktree add -q --detach $WT HEAD || exit 2
run() { (cd $WT && PYTHONPATH=$WT PYTHONHASHSEED=0 OMP_NUM_THREADS=2 timeout 1200 /venv/bin/python -W ignore "$@"); }
run $SRC/demo.py > /tmp/hconfirm_$N.clean.out 2>&1; RC_CLEAN=$?
if ! git -C $WT apply $SRC/patch.diff; then echo "$N: PATCH-DOES-NOT-APPLY"; git -C /repo worktree remove --force $WT; exit 1; fi
run $SRC/demo.py > /tmp/hconfirm_$N.mut.out 2>&1; RC_MUT=$?
(cd $WT && PYTHONPATH=$WT OMP_NUM_THREADS=4 timeout 1500 /venv/bin/python -m pytest -q -p no:cacheprovider --color=no --timeout=900 --continue-on-collection-errors -rfE test 2>&1 | grep -E "^(FAILED|ERROR)" | sed 's/ - .*//' | sort > /tmp/hconfirm_$N.tests)
git -C /repo worktree remove --force $WT
NEWFAIL=$(comm -13 /verif/tools/baseline_failing.txt /tmp/hconfirm_$N.tests | wc -l)
echo "$N: demo_clean_rc=$RC_CLEAN demo_rewrite_rc=$RC_MUT new_failing_tests=$NEWFAIL"
mkdir -p /verif/seeded_harmless/$N && cp $SRC/patch.diff $SRC/demo.py $SRC/meta.json /verif/seeded_harmless/$N/
echo "demo_clean_rc=$RC_CLEAN demo_rewrite_rc=$RC_MUT new_failing_tests=$NEWFAIL" > /verif/seeded_harmless/$N/confirm.txt
echo "--- check $P vs $N"
OMP_NUM_THREADS=4 /verif/tools/try_mutant.sh $P /verif/seeded_harmless/$N/patch.diff 2>&1 | grep -v "KNOWN-FINDING\|it/s" | tail -5 | cut -c1-400
