#!/bin/bash
# usage: tools/try_mutant.sh <Cxx> <patch.diff> [check ids...]   -- applies the patch to /repo, runs the checks, reverts.
# (sub-agents never touch /repo; only the integrator runs this)
P=$1; D=$2; shift 2
IDS=${@:-$P}
cd /repo || exit 2
if [ -n "$(git status --porcelain)" ]; then echo "/repo not clean"; exit 2; fi
git apply "$D" || { echo "patch does not apply"; exit 2; }
for id in $IDS; do
  cp /verif/evidence/$id.json /verif/build/evidence_$id.keep 2>/dev/null
  (cd /verif && ./check $id 2>&1 | grep -E "VIOLATION|KNOWN|^\[|^  " | head -8)
  # the evidence of a run against a mutated tree is not evidence about /repo: restore the clean-tree file
  cp /verif/build/evidence_$id.keep /verif/evidence/$id.json 2>/dev/null
done
git -C /repo checkout -- .
# regenerate tables from the clean tree
(cd /verif && PYTHONPATH=/repo /venv/bin/python -W ignore -c "
import sys; sys.path.insert(0,'.')
from harness import common as C; C.gen_tables()" 2>/dev/null)
git -C /repo status --porcelain
