#!/bin/bash
# usage: tools/try_mutant.sh <Cxx> <patch.diff> [check ids...]
# Runs the check(s) against the patch in ISOLATION: a scratch worktree of /repo with the patch applied and a
# scratch copy of the framework (so /repo, /verif/coq/Gen/Tables.v and /verif/evidence are never touched).
P=$1; D=$(readlink -f "$2"); shift 2
IDS=${@:-$P}
WT=/tmp/wt_try_$$; VC=/tmp/verif_try_$$
git -C /repo worktree add -q --detach $WT HEAD || exit 2
if ! git -C $WT apply "$D" 2>/dev/null; then
  # the patch may have been made against an earlier HEAD: try a 3-way merge
  if ! git -C $WT apply -3 "$D" >/dev/null 2>&1; then echo "patch does not apply"; git -C /repo worktree remove --force $WT; exit 2; fi
fi
rsync -a --exclude .git --exclude 'replay/*.json' /verif/ $VC/
for id in $IDS; do
  (cd $VC && VERIF_REPO=$WT ./check $id > check_$id.out 2>&1; grep -E "VIOLATION|KNOWN|^  " check_$id.out | head -7; grep -E "^\[" check_$id.out | tail -1)
done
mkdir -p /verif/build/mutant_replays && cp $VC/replay/*.json /verif/build/mutant_replays/ 2>/dev/null
rm -rf $VC
git -C /repo worktree remove --force $WT
