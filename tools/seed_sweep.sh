#!/bin/bash
# usage: tools/seed_sweep.sh "<seeds>" [ids...]   — runs quick checks under other seeds in an isolated
# copy of the framework (evidence/ of /verif is never touched); any alarm on the unchanged tree is either a
# genuine defect or a false alarm of the machinery and must be analysed.
SEEDS=$1; shift
IDS=${@:-C01 C02 C03 C04 C05 C06 C07 C08 C09 C10 C11 C12 C13 C14 C15 C16 C17 C18 C19 C20}
VC=/tmp/pfsweep_$$_$RANDOM
rsync -a --exclude .git --exclude 'replay/*.json' /verif/ $VC/
for s in $SEEDS; do for id in $IDS; do
  (cd $VC && VERIF_SEED=$s ./check $id 2>&1 | grep -E "VIOLATION|^\[C|^  " | head -6 | sed "s/^/seed=$s /")
done; done
mkdir -p /verif/build/sweep_replays && cp $VC/replay/*.json /verif/build/sweep_replays/ 2>/dev/null
rm -rf $VC
