#!/usr/bin/env python3
"""Validates MANIFEST.json and every evidence file against the schemas (run with python3-vt)."""
import json, glob, sys
import jsonschema
ok = True
jsonschema.validate(json.load(open('MANIFEST.json')), json.load(open('/root/.vp/MANIFEST.schema.json')))
es = json.load(open('/root/.vp/EVIDENCE.schema.json'))
for p in sorted(glob.glob('evidence/C*.json')):
    e = json.load(open(p))
    try:
        jsonschema.validate(e, es)
    except Exception as ex:
        ok = False; print(p, 'INVALID', str(ex)[:100])
    c = e['coverage']
    if c['obligations'] != c['discharged'] or e.get('violations'):
        ok = False; print(p, 'obligations', c['obligations'], 'discharged', c['discharged'], 'violations', e.get('violations'))
print('all valid' if ok else 'PROBLEMS')
sys.exit(0 if ok else 1)
