"""tools/try_corr.py <cxx> [tier] : run generator + implementation + Coq correspondence only, print mismatching cases."""
import sys, os, json
sys.path.insert(0, os.path.dirname(os.path.dirname(os.path.abspath(__file__))))
from harness import common as C
import importlib
mod = importlib.import_module('harness.' + sys.argv[1])
seed = int(os.environ.get("VERIF_SEED", "20260930"))
rng = C.Rng(seed * 1000003 + sum(map(ord, mod.PROP)))
cases = list(mod.generate(rng, sys.argv[2] if len(sys.argv) > 2 else 'quick'))
terms, obss = [], []
for i, c in enumerate(cases):
    try:
        o = mod.run(c)
    except Exception as e:
        o = {"harness_exc": type(e).__name__, "tb": C.fmt_exc()}
    obss.append(o)
    t = mod.coq_term(c, o)
    if t is not None:
        terms.append((i, t))
ok, bad, log = C.run_coq_cases(mod.PROP + "x", mod.HEADER, terms, shard=getattr(mod, "SHARD", 400))
print("ok", ok, "bad", bad, log[:3000])
for i in bad[:5]:
    print(json.dumps(cases[i])[:1500])
    print(json.dumps(obss[i])[:1500])
    print(dict(terms)[i][:3000])
