(* Nested-list tensors over an ABSTRACT scalar structure (DESIGN.md section 3.3, "Tie 3").
   Definitions only; lemmas live in Proofs/LayersProofs.v.

     vec  = list R                 [channels]
     mat  = list (list R)          [batch, channels]  or one row  [columns, channels]
     t3   = list (list (list R))   [batch, columns, channels]

   The scalar structure is a record of operations.  The theorems of Props/C14.v and Props/C15.v
   quantify over EVERY such record (subject to the few laws each theorem names: commutativity /
   associativity of addition for the permutation theorems, 0 neutral / absorbing for the causality
   theorem), with the non-linearities `ofn f` completely uninterpreted.  The executable
   correspondence instantiates the same definitions with the provenance scalars `prov` below
   (a scalar is the set of input positions it was computed from).

   What this does NOT model: IEEE round-off (float addition is not associative), kernel
   determinism, overflow / NaN.  Those are observed by harness/c14.py, harness/c15.py. *)
From Coq Require Import List Arith Bool ZArith Permutation.
From PF Require Import Lib.Chunks.
Import ListNotations.

(* names of the pointwise functions the layers use; all uninterpreted in the theorems *)
Inductive fn : Type :=
| FExp | FRelu | FGelu | FTanh | FSelu | FPrelu | FSigmoid
| FScale        (* multiplication by a configuration constant: d_head**-0.5, 1/sqrt(d), sqrt(0.5) *)
| FGammaMinus   (* x |-> gamma - x  (TabNet prior update) *)
| FNeg          (* x |-> -x *)
| FRsqrtEps.    (* x |-> 1 / sqrt(x + eps)  (batch norm) *)

Record Ops (R : Type) : Type := mkOps {
  o0 : R;
  o1 : R;
  oadd : R -> R -> R;
  omul : R -> R -> R;
  odiv : R -> R -> R;
  ofn : fn -> R -> R;
  onegbig : R          (* the additive -1e5 of the ExcelFormer attention mask *)
}.
Arguments o0 {R}. Arguments o1 {R}. Arguments oadd {R}. Arguments omul {R}. Arguments odiv {R}.
Arguments ofn {R}. Arguments onegbig {R}.

(* elementwise binary operation on equally long lists (torch: a + b, a * b on equal shapes) *)
Definition zipw {A B C : Type} (f : A -> B -> C) (a : list A) (b : list B) : list C :=
  map (fun p => f (fst p) (snd p)) (combine a b).

(* ceil(a / b) *)
Definition cdiv (a b : nat) : nat := (a + b - 1) / b.

(* torch.chunk(x, n, dim=0): pieces of ceil(len / n) elements (possibly fewer than n pieces) *)
Definition torch_chunk {A : Type} (n : nat) (l : list A) : list (list A) := chunks (cdiv (length l) n) l.

(* x[:, perm] of the property statement (a re-ordering of the columns); spec-side operation *)
Definition take_cols {A : Type} (p : list nat) (row : list A) : list A :=
  flat_map (fun i => match nth_error row i with Some v => [v] | None => [] end) p.

(* p is a permutation of 0 .. n-1 *)
Definition is_perm (p : list nat) (n : nat) : Prop := Permutation p (seq 0 n).

(* x[idx] along the batch axis; IndexError = None *)
Fixpoint select {A : Type} (idx : list nat) (X : list A) : option (list A) :=
  match idx with
  | [] => Some []
  | i :: r => match nth_error X i, select r X with
              | Some x, Some xs => Some (x :: xs)
              | _, _ => None
              end
  end.

(* all-or-nothing: the batch computation raises iff it raises for some row *)
Fixpoint opt_all {A : Type} (l : list (option A)) : option (list A) :=
  match l with
  | [] => Some []
  | None :: _ => None
  | Some x :: r => match opt_all r with Some xs => Some (x :: xs) | None => None end
  end.

(* t.shape[1:] == (n, c) for every element of the batch axis *)
Definition shape2_ok {A : Type} (n c : nat) (m : list (list A)) : bool :=
  (length m =? n) && forallb (fun v => length v =? c) m.
Definition shape3_ok {A : Type} (n c : nat) (t : list (list (list A))) : bool :=
  forallb (shape2_ok n c) t.

(* nn.Sequential *)
Definition sequential {T : Type} (blocks : list (T -> T)) (x : T) : T := fold_left (fun x F => F x) blocks x.

Section TensorOps.
  Context {R : Type} (O : Ops R).

  Definition vadd : list R -> list R -> list R := zipw (oadd O).
  Definition vmul : list R -> list R -> list R := zipw (omul O).
  Definition vsum (v : list R) : R := fold_right (oadd O) (o0 O) v.
  Definition dot (a b : list R) : R := vsum (vmul a b).
  Definition vscale (s : R) (v : list R) : list R := map (omul O s) v.
  Definition vzeros (n : nat) : list R := repeat (o0 O) n.
  Definition vfn (f : fn) (v : list R) : list R := map (ofn O f) v.

  (* sum of a list of vectors of dimension n  ( t.sum(dim=axis) of a matrix ) *)
  Definition vecsum (n : nat) (vs : list (list R)) : list R := fold_right vadd (vzeros n) vs.

  (* sum_k w[k] * V[k]   (one output row of einsum 'ijk,ikl->ijl') *)
  Definition lincomb (n : nat) (ws : list R) (vs : list (list R)) : list R := vecsum n (zipw vscale ws vs).

  (* 1 + 1 + ... + 1 *)
  Definition onat (n : nat) : R := vsum (repeat (o1 O) n).

  (* torch.mean(m, dim=0) of a [k, n] matrix *)
  Definition vecmean (n : nat) (vs : list (list R)) : list R :=
    map (fun s => odiv O s (onat (length vs))) (vecsum n vs).

  (* softmax along a vector: exp(x_i) / sum_j exp(x_j).  (torch subtracts the maximum first, which is
     the same function in exact arithmetic.) *)
  Definition softmax (v : list R) : list R :=
    let e := map (ofn O FExp) v in
    let s := vsum e in
    map (fun x => odiv O x s) e.

  (* transpose of a [k, n] matrix into [n, k]; n is the static size of the inner axis *)
  Definition transpose {A : Type} (n : nat) (m : list (list A)) : list (list A) :=
    fold_right (zipw cons) (repeat [] n) m.

  (* x.reshape(cols, H, d).transpose(0, 1) of one row [cols, H*d]:  out[h][c][k] = x[c][h*d + k] *)
  Definition heads_split (H d : nat) (row : list (list R)) : list (list (list R)) :=
    map (fun h => map (fun v => firstn d (skipn (h * d) v)) row) (seq 0 H).

  (* x.reshape(H, cols, d).transpose(0, 1).reshape(cols, H*d):  out[c] = x[0][c] ++ x[1][c] ++ ... *)
  Fixpoint heads_merge (heads : list (list (list R))) : list (list R) :=
    match heads with
    | [] => []
    | [h] => h
    | h :: t => zipw (@app R) h (heads_merge t)
    end.
End TensorOps.

(* ------------------------------------------------------------------ *)
(* Instance 1: integers (used only to show the algebraic hypotheses are satisfiable) *)
Definition z_ops : Ops Z :=
  mkOps Z 0%Z 1%Z Z.add Z.mul Z.div (fun _ x => x) (-100000)%Z.

(* Instance 2: integers with a bottom element standing for "-1e5 added": None is absorbing for +,
   exp None = 0.  Shows H_mask_kills together with the 0-laws is satisfiable. *)
Definition ez_add (a b : option Z) : option Z :=
  match a, b with Some x, Some y => Some (x + y)%Z | _, _ => None end.
Definition ez_mul (a b : option Z) : option Z :=
  match a, b with
  | Some 0%Z, _ => Some 0%Z
  | Some x, Some y => Some (x * y)%Z
  | _, _ => None
  end.
Definition ez_div (a b : option Z) : option Z :=
  match a, b with
  | Some 0%Z, _ => Some 0%Z
  | Some x, Some y => Some (x / y)%Z
  | _, _ => None
  end.
Definition ez_fn (f : fn) (a : option Z) : option Z :=
  match f, a with
  | FExp, None => Some 0%Z
  | FExp, Some x => Some (x * x + 1)%Z
  | _, a => a
  end.
Definition ez_ops : Ops (option Z) := mkOps _ (Some 0%Z) (Some 1%Z) ez_add ez_mul ez_div ez_fn None.

(* Instance 2b: plain integers where "exp" underflows: exp x = 0 for x <= -50000.  The additive mask
   -100000 then kills every score s with |s| <= 40000 -- and does NOT kill a score of 200000: the
   boundedness premise of the causality theorem is necessary, exactly as for IEEE floats. *)
Definition zb_fn (f : fn) (x : Z) : Z :=
  match f with
  | FExp => if (x <=? -50000)%Z then 0%Z else (x * x + 1)%Z
  | _ => x
  end.
Definition zb_ops : Ops Z := mkOps Z 0%Z 1%Z Z.add Z.mul Z.div zb_fn (-100000)%Z.
Definition zb_bounded (s : Z) : Prop := (Z.abs s <= 40000)%Z.

(* ------------------------------------------------------------------ *)
(* Instance 3: provenance.  A scalar is
     PZero       exactly zero (neutral for +, absorbing for * and /),
     PNegBig     "a score with the -1e5 mask added" (absorbing for +, exp gives PZero: H_mask_kills),
     PVal s      a value computed from the input positions in s. *)
Inductive prov : Type := PZero | PNegBig | PVal (s : list N).   (* ids are binary numbers: cheap comparison *)

(* set union on duplicate-free lists, boolean comparisons only (cheap under vm_compute): cost |b| * |result| *)
Fixpoint add_all (xs acc : list N) : list N :=
  match xs with
  | [] => acc
  | x :: r => add_all r (if existsb (N.eqb x) acc then acc else x :: acc)
  end.
Definition punion (a b : list N) : list N := add_all b a.

Definition padd (a b : prov) : prov :=
  match a, b with
  | PNegBig, _ | _, PNegBig => PNegBig
  | PZero, x | x, PZero => x
  | PVal s, PVal t => PVal (punion s t)
  end.
Definition pmul (a b : prov) : prov :=
  match a, b with
  | PZero, _ | _, PZero => PZero
  | PNegBig, _ | _, PNegBig => PNegBig
  | PVal s, PVal t => PVal (punion s t)
  end.
Definition pdiv (a b : prov) : prov :=
  match a, b with
  | PZero, _ => PZero
  | PNegBig, _ => PNegBig
  | PVal s, PVal t => PVal (punion s t)
  | PVal s, _ => PVal s
  end.
Definition pfn (f : fn) (a : prov) : prov :=
  match f, a with
  | FExp, PNegBig => PZero
  | FExp, PZero => PVal []
  | FScale, PZero => PZero
  | FRelu, PZero => PZero
  | _, PZero => PVal []
  | _, x => x
  end.
Definition prov_ops : Ops prov := mkOps _ PZero (PVal []) padd pmul pdiv pfn PNegBig.

(* the input positions a scalar / vector / matrix depends on *)
Definition pdeps (a : prov) : list N := match a with PVal s => s | _ => [] end.
Definition vdeps (v : list prov) : list N := fold_left (fun acc x => add_all (pdeps x) acc) v [].
Definition mdeps (m : list (list prov)) : list N := fold_left (fun acc v => add_all (vdeps v) acc) m [].
Definition tdeps (t : list (list (list prov))) : list N := fold_left (fun acc m => add_all (mdeps m) acc) t [].
Definition membN (x : N) (s : list N) : bool := existsb (N.eqb x) s.
Definition memb (x : nat) (s : list N) : bool := membN (N.of_nat x) s.
(* the id of cell (r, c): off + r * stride + c, computed in binary *)
Definition cell_id (off stride r c : nat) : N := (N.of_nat off + N.of_nat r * N.of_nat stride + N.of_nat c)%N.

(* a torch block that mixes all entries of the vector it acts on (nn.Linear, LayerNorm, an MLP):
   every one of the n outputs depends on every input of the vector *)
Definition dense (n : nat) (v : list prov) : list prov := repeat (PVal (vdeps v)) n.
(* a block acting on a whole row matrix [tokens, channels] mixing everything (nn.TransformerEncoder,
   GroupNorm per sample): same shape, every output depends on every input of the row *)
Definition dense_mat (m : list (list prov)) : list (list prov) :=
  let d := PVal (mdeps m) in map (fun v => map (fun _ => d) v) m.

Definition bmat_eqb (a b : list (list bool)) : bool :=
  (length a =? length b) &&
  forallb (fun p => (length (fst p) =? length (snd p)) &&
                    forallb (fun q => Bool.eqb (fst q) (snd q)) (combine (fst p) (snd p))) (combine a b).
Definition bvec_eqb (a b : list bool) : bool :=
  (length a =? length b) && forallb (fun q => Bool.eqb (fst q) (snd q)) (combine a b).
