(* Python index semantics: int normalisation, slice.indices (step > 0),
   range, and the reference "same selection on a plain list" (the spec side
   of C05/C07/C09).  Validated against CPython by the C05 oracle on every run. *)
From Coq Require Import ZArith List Bool Lia.
From PF Require Import Lib.ListX.
Import ListNotations.
Local Open Scope Z_scope.

Inductive index :=
| IInt (i : Z)
| ISlice (a b s : option Z)
| IList (l : list Z)
| IRange (a b s : Z)
| ITensor (l : list Z)
| IMask (m : list bool).

(* l[i] : negative wraps once, IndexError outside [-n, n) *)
Definition norm_index (n : nat) (i : Z) : option nat :=
  let i' := if i <? 0 then i + Z.of_nat n else i in
  if (i' <? 0) || (Z.of_nat n <=? i') then None else Some (Z.to_nat i').

(* one bound of slice.indices(n) for a positive step *)
Definition clamp_bound (n : nat) (dflt : nat) (o : option Z) : nat :=
  match o with
  | None => dflt
  | Some v =>
      let v' := if v <? 0 then v + Z.of_nat n else v in
      Z.to_nat (Z.max 0 (Z.min v' (Z.of_nat n)))
  end.

(* slice(a, b, s).indices(n) for s > 0 (None = 1); ValueError for s <= 0 is the
   caller's business *)
Definition slice_indices (n : nat) (a b : option Z) : nat * nat :=
  (clamp_bound n 0 a, clamp_bound n n b).

(* a, a+s, a+2s, ... < b   for s > 0 *)
Definition count_up (a b s : nat) : nat := if (a <? b)%nat then ((b - a + s - 1) / s)%nat else 0%nat.
Definition range_up (a b s : nat) : list nat := map (fun k => (a + k * s)%nat) (seq 0 (count_up a b s)).

(* list(range(a, b, s)), s <> 0 *)
Definition py_range (a b s : Z) : option (list Z) :=
  if s =? 0 then None
  else if 0 <? s then
    let cnt := if a <? b then (b - a + s - 1) / s else 0 in
    Some (map (fun k => a + Z.of_nat k * s) (seq 0 (Z.to_nat cnt)))
  else
    let cnt := if b <? a then (a - b + (- s) - 1) / (- s) else 0 in
    Some (map (fun k => a + Z.of_nat k * s) (seq 0 (Z.to_nat cnt))).

(* Reference semantics: the positions an index expression picks from a list of
   length n; None where the property demands a raise. *)
Definition py_positions (n : nat) (ix : index) : option (list nat) :=
  match ix with
  | IInt i => option_map (fun k => [k]) (norm_index n i)
  | ISlice a b s =>
      let st := match s with None => 1 | Some v => v end in
      if st <=? 0 then None
      else let '(lo, hi) := slice_indices n a b in Some (range_up lo hi (Z.to_nat st))
  | IList l | ITensor l => mapM (norm_index n) l
  | IRange a b s => obind (py_range a b s) (mapM (norm_index n))
  | IMask m => if (length m =? n)%nat then Some (nonzero m) else None
  end.

Definition py_select {X} (ix : index) (l : list X) : option (list X) :=
  obind (py_positions (length l) ix) (tgather l).
