(* Proleptic Gregorian calendar on Z (Howard Hinnant's days_from_civil /
   civil_from_days), weekday with Monday = 0 (pandas `dayofweek`), and the
   time-of-day split of a count of seconds.  This is the modelled primitive
   standing for pandas' `.dt.year/.month/.day/.dayofweek/.hour/.minute/.second`
   on a datetime64 series; harness/c01.py validates it against pandas on
   1700-2200 every run.  Definitions only; facts are in Proofs/CalendarFacts.v. *)
From Coq Require Import ZArith.
Open Scope Z_scope.

Definition days_per_era : Z := 146097.
Definition epoch_shift : Z := 719468.      (* days from 0000-03-01 to 1970-01-01 *)

(* --- inside one 400-year era: doe in [0, 146097), yoe in [0, 400) -------- *)
Definition yoe_of_doe (doe : Z) : Z := (doe - doe / 1460 + doe / 36524 - doe / 146096) / 365.
Definition doy_of_doe (doe : Z) : Z := let yoe := yoe_of_doe doe in doe - (365 * yoe + yoe / 4 - yoe / 100).
Definition mp_of_doy (doy : Z) : Z := (5 * doy + 2) / 153.
Definition day_of_doe (doe : Z) : Z := let doy := doy_of_doe doe in doy - (153 * mp_of_doy doy + 2) / 5 + 1.
Definition month_of_doe (doe : Z) : Z := let mp := mp_of_doy (doy_of_doe doe) in if mp <? 10 then mp + 3 else mp - 9.

Definition doe_of (yoe m d : Z) : Z :=
  let doy := (153 * (if 2 <? m then m - 3 else m + 9) + 2) / 5 + d - 1 in
  yoe * 365 + yoe / 4 - yoe / 100 + doy.

(* --- civil_from_days ------------------------------------------------------ *)
Definition civil_of_days (z : Z) : Z * Z * Z :=
  let z' := z + epoch_shift in
  let era := z' / days_per_era in               (* floor division *)
  let doe := z' mod days_per_era in
  let m := month_of_doe doe in
  let y := yoe_of_doe doe + era * 400 in
  ((if m <=? 2 then y + 1 else y), m, day_of_doe doe).

(* --- days_from_civil ------------------------------------------------------ *)
Definition days_of_civil (ymd : Z * Z * Z) : Z :=
  let '(y0, m, d) := ymd in
  let y := if m <=? 2 then y0 - 1 else y0 in
  let era := y / 400 in
  let yoe := y mod 400 in
  era * days_per_era + doe_of yoe m d - epoch_shift.

(* 1970-01-01 (day 0) is a Thursday = 3 with Monday = 0 *)
Definition weekday_of_days (z : Z) : Z := (z + 3) mod 7.

Definition year_of_days (z : Z) : Z := fst (fst (civil_of_days z)).
Definition month_of_days (z : Z) : Z := snd (fst (civil_of_days z)).
Definition day_of_days (z : Z) : Z := snd (civil_of_days z).

(* --- seconds since the epoch -> (days, hour, minute, second) ------------- *)
Definition secs_per_day : Z := 86400.
Definition days_of_secs (s : Z) : Z := s / secs_per_day.
Definition hour_of_secs (s : Z) : Z := (s mod secs_per_day) / 3600.
Definition minute_of_secs (s : Z) : Z := ((s mod secs_per_day) mod 3600) / 60.
Definition second_of_secs (s : Z) : Z := (s mod secs_per_day) mod 60.
