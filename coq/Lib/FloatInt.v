(* IEEE binary64 <-> integers, as Python does it (used by C09: `round(f * len)`
   for fractional slices and `int(length * ratio)` in generate_random_split).

   Doubles are Coq's primitive floats (same IEEE-754 binary64, round to nearest
   even).  The exact value of a double is read through `FloatOps.Prim2SF`
   (sign, integer mantissa m, exponent e : value = +/- m * 2^e), which is built
   from the kernel primitives frshiftexp / normfr_mantissa.  Everything after
   that point is plain Z arithmetic, so the rounding functions below have exact
   specifications (Proofs/FloatIntFacts.v) that do not need any float axiom.

   Definitions only.  Import PrimFloat / Uint63 / FloatOps, not the Floats
   umbrella (which would pull in FloatAxioms). *)
From Coq Require Import ZArith Bool PrimFloat Uint63 FloatOps SpecFloat.
Local Open Scope Z_scope.

(* The double +/- m * 2^e for 0 <= m < 2^53 and an exponent in range; this is
   how the harness ships a Python float (math.frexp) without any decimal text. *)
Definition mk_float (neg : bool) (m e : Z) : float :=
  let f := Z.ldexp (PrimFloat.of_uint63 (Uint63.of_Z m)) e in
  if neg then PrimFloat.opp f else f.

(* float(n) for a Python int 0 <= n < 2^53 (exact) *)
Definition float_of_nat (n : nat) : float := PrimFloat.of_uint63 (Uint63.of_Z (Z.of_nat n)).

(* int(x) on the exact value: truncation toward zero; OverflowError / ValueError
   for inf / nan *)
Definition sf_trunc (x : spec_float) : option Z :=
  match x with
  | S754_zero _ => Some 0
  | S754_finite s m e =>
      let a := if 0 <=? e then Z.pos m * 2 ^ e else Z.pos m / 2 ^ (- e) in
      Some (if s then - a else a)
  | S754_infinity _ | S754_nan => None
  end.

(* round(x) (one argument) on the exact value: nearest integer, ties to even *)
Definition sf_round_half_even (x : spec_float) : option Z :=
  match x with
  | S754_zero _ => Some 0
  | S754_finite s m e =>
      let a :=
        if 0 <=? e then Z.pos m * 2 ^ e
        else
          let d := 2 ^ (- e) in
          let q := Z.pos m / d in
          let r2 := 2 * (Z.pos m mod d) in
          if r2 <? d then q
          else if d <? r2 then q + 1
          else if Z.even q then q else q + 1 in
      Some (if s then - a else a)
  | S754_infinity _ | S754_nan => None
  end.

Definition py_int (f : float) : option Z := sf_trunc (Prim2SF f).
Definition py_round (f : float) : option Z := sf_round_half_even (Prim2SF f).
