(* Exact rational statistics: the definitions numpy's mean / std / quantile
   (method 'linear') stand for, over Q.  Definitions first, then the order
   lemmas (min <= q25 <= q50 <= q75 <= max, q0 = min, q100 = max) and the
   elementary facts about mean and population variance. *)
From Coq Require Import List Arith ZArith QArith Qabs Lia Lqa Permutation Sorting.Sorted.
Import ListNotations.
Open Scope Q_scope.

(* ------------------------------------------------------------ definitions *)
Definition qsum (l : list Q) : Q := fold_right Qplus 0 l.
Definition qlen (l : list Q) : Q := inject_Z (Z.of_nat (length l)).

(* np.mean *)
Definition qmean (l : list Q) : Q := qsum l / qlen l.

(* np.std(ddof = 0) squared: the population variance *)
Definition qsqdev (m : Q) (l : list Q) : list Q := map (fun x => (x - m) * (x - m)) l.
Definition qvar (l : list Q) : Q := qsum (qsqdev (qmean l) l) / qlen l.

(* sorting (np.quantile partitions the array; any sort gives the same order statistics) *)
Fixpoint qinsert (x : Q) (l : list Q) : list Q :=
  match l with
  | [] => [x]
  | y :: r => if Qle_bool x y then x :: l else y :: qinsert x r
  end.
Definition qsort (l : list Q) : list Q := fold_right qinsert [] l.

Definition qfrac (r den : nat) : Q := inject_Z (Z.of_nat r) / inject_Z (Z.of_nat den).

(* linear interpolation between order statistics at the virtual index k/den:
   lo = floor(k/den), t = frac(k/den), s[lo] + (s[lo+1] - s[lo]) * t.
   At the last order statistic (t = 0) there is no s[lo+1]; numpy clips lo+1 to n-1. *)
Definition interp (s : list Q) (d : Q) (den k : nat) : Q :=
  let lo := (k / den)%nat in
  let a := nth lo s d in
  let b := nth (S lo) s a in
  a + (b - a) * qfrac (k mod den) den.

(* np.quantile(x, num/den, method='linear') on the sorted array: virtual index (n-1)*num/den *)
Definition quantile_sorted (s : list Q) (num den : nat) : Q :=
  interp s 0 den ((length s - 1) * num).
Definition quantile (l : list Q) (num den : nat) : Q := quantile_sorted (qsort l) num den.

(* q = [0, 0.25, 0.5, 0.75, 1] *)
Definition five_quantiles (l : list Q) : list Q := map (fun k => quantile l k 4) [0; 1; 2; 3; 4]%nat.

Definition qmin_list (l : list Q) (d : Q) : Q := nth 0 (qsort l) d.
Definition qmax_list (l : list Q) (d : Q) : Q := nth (length l - 1) (qsort l) d.

(* ------------------------------------------------------------------ sorting *)
Lemma qinsert_perm x l : Permutation (qinsert x l) (x :: l).
Proof.
  induction l as [|y r IH]; simpl; [reflexivity|].
  destruct (Qle_bool x y); [reflexivity|].
  rewrite IH. apply perm_swap.
Qed.

Lemma qsort_perm l : Permutation (qsort l) l.
Proof.
  induction l as [|x r IH]; simpl; [reflexivity|].
  rewrite qinsert_perm. now constructor.
Qed.

Lemma qsort_length l : length (qsort l) = length l.
Proof. apply Permutation_length, qsort_perm. Qed.

Lemma qinsert_sorted x l : StronglySorted Qle l -> StronglySorted Qle (qinsert x l).
Proof.
  induction 1 as [|y r Hs IH Hall]; simpl.
  - constructor; constructor.
  - destruct (Qle_bool x y) eqn:E.
    + apply Qle_bool_iff in E. constructor.
      * now constructor.
      * constructor; [exact E|]. eapply Forall_impl; [|exact Hall].
        intros z Hz. eapply Qle_trans; eauto.
    + assert (Hyx : y <= x).
      { destruct (Qlt_le_dec y x) as [H|H]; [now apply Qlt_le_weak|].
        apply Qle_bool_iff in H. congruence. }
      constructor; [exact IH|].
      eapply Permutation_Forall; [symmetry; apply qinsert_perm|].
      constructor; assumption.
Qed.

Lemma qsort_sorted l : StronglySorted Qle (qsort l).
Proof.
  induction l as [|x r IH]; simpl; [constructor|]. now apply qinsert_sorted.
Qed.

Definition sorted_nth (s : list Q) : Prop :=
  forall i j d, (i <= j)%nat -> (j < length s)%nat -> nth i s d <= nth j s d.

Lemma strongly_sorted_nth s : StronglySorted Qle s -> sorted_nth s.
Proof.
  induction 1 as [|x r Hs IH Hall]; intros i j d Hij Hj; simpl in Hj; [lia|].
  destruct j as [|j].
  - assert (i = 0)%nat by lia. subst. apply Qle_refl.
  - destruct i as [|i]; simpl.
    + rewrite Forall_forall in Hall. apply Hall, nth_In. lia.
    + apply IH; lia.
Qed.

Lemma qsort_sorted_nth l : sorted_nth (qsort l).
Proof. apply strongly_sorted_nth, qsort_sorted. Qed.

(* ------------------------------------------------------------ interpolation *)
Lemma qfrac_nonneg r den : 0 <= qfrac r den.
Proof.
  unfold qfrac. destruct den as [|den].
  - simpl. unfold Qdiv, Qinv. simpl. rewrite Qmult_0_r. apply Qle_refl.
  - apply Qle_shift_div_l.
    + change 0 with (inject_Z 0). rewrite <- Zlt_Qlt. lia.
    + rewrite Qmult_0_l. change 0 with (inject_Z 0). rewrite <- Zle_Qle. lia.
Qed.

Lemma qfrac_0 den : qfrac 0 den == 0.
Proof. unfold qfrac. simpl. unfold Qdiv. apply Qmult_0_l. Qed.

Lemma qfrac_le r r' den : (0 < den)%nat -> (r <= r')%nat -> qfrac r den <= qfrac r' den.
Proof.
  intros Hd Hr. unfold qfrac, Qdiv. apply Qmult_le_compat_r.
  - rewrite <- Zle_Qle. lia.
  - apply Qinv_le_0_compat. change 0 with (inject_Z 0). rewrite <- Zle_Qle. lia.
Qed.

Lemma qfrac_lt_1 r den : (r < den)%nat -> qfrac r den <= 1.
Proof.
  intros H. unfold qfrac. apply Qle_shift_div_r.
  - change 0 with (inject_Z 0). rewrite <- Zlt_Qlt. lia.
  - rewrite Qmult_1_l. rewrite <- Zle_Qle. lia.
Qed.

Lemma interp_at_node s d den j : (0 < den)%nat -> interp s d den (j * den) == nth j s d.
Proof.
  intros Hd. unfold interp. rewrite Nat.div_mul by lia. rewrite Nat.mod_mul by lia.
  rewrite qfrac_0. ring.
Qed.

Lemma interp_step s d den k :
  sorted_nth s -> (0 < den)%nat -> (S k <= (length s - 1) * den)%nat ->
  interp s d den k <= interp s d den (S k).
Proof.
  intros Hs Hd Hk. unfold interp.
  pose proof (Nat.div_mod_eq k den) as Ek.
  pose proof (Nat.mod_upper_bound k den ltac:(lia)) as Hr.
  set (lo := (k / den)%nat) in *. set (r := (k mod den)%nat) in *.
  assert (Hlo : (lo < length s - 1)%nat).
  { destruct (Nat.lt_ge_cases lo (length s - 1)) as [H|H]; [exact H|].
    exfalso. assert (den * (length s - 1) <= den * lo)%nat by (apply Nat.mul_le_mono_l; lia). lia. }
  assert (Hab : nth lo s d <= nth (S lo) s d) by (apply Hs; lia).
  assert (Eb : nth (S lo) s (nth lo s d) = nth (S lo) s d) by (apply nth_indep; lia).
  destruct (Nat.eq_dec (S r) den) as [E|NE].
  - (* crosses to the next node *)
    assert (Hq : (S k / den = S lo)%nat).
    { symmetry. apply (Nat.div_unique (S k) den (S lo) 0); lia. }
    assert (Hm : (S k mod den = 0)%nat).
    { symmetry. apply (Nat.mod_unique (S k) den (S lo) 0); lia. }
    rewrite Hq, Hm, qfrac_0, Eb.
    pose proof (qfrac_lt_1 r den ltac:(lia)) as H1.
    pose proof (qfrac_nonneg r den) as H0.
    set (t := qfrac r den) in *. set (a := nth lo s d) in *. set (b := nth (S lo) s d) in *.
    nra.
  - assert (Hq : (S k / den = lo)%nat).
    { symmetry. apply (Nat.div_unique (S k) den lo (S r)); lia. }
    assert (Hm : (S k mod den = S r)%nat).
    { symmetry. apply (Nat.mod_unique (S k) den lo (S r)); lia. }
    rewrite Hq, Hm, Eb.
    pose proof (qfrac_le r (S r) den Hd ltac:(lia)) as H1.
    set (t := qfrac r den) in *. set (t' := qfrac (S r) den) in *.
    set (a := nth lo s d) in *. set (b := nth (S lo) s d) in *.
    nra.
Qed.

Lemma interp_mono s d den k1 k2 :
  sorted_nth s -> (0 < den)%nat -> (k1 <= k2)%nat -> (k2 <= (length s - 1) * den)%nat ->
  interp s d den k1 <= interp s d den k2.
Proof.
  intros Hs Hd H12 H2. induction H12 as [|k2 H12 IH].
  - apply Qle_refl.
  - eapply Qle_trans; [apply IH; lia|]. apply interp_step; assumption.
Qed.

(* --------------------------------------------------------- quantile lemmas *)
Lemma quantile_sorted_default s num den d :
  s <> [] -> (0 < den)%nat -> (num <= den)%nat ->
  quantile_sorted s num den == interp s d den ((length s - 1) * num).
Proof.
  intros Hne Hd Hn. unfold quantile_sorted, interp.
  assert (Hlo : ((length s - 1) * num / den <= length s - 1)%nat).
  { apply Nat.div_le_upper_bound; [lia|]. nia. }
  assert (Hl : (0 < length s)%nat) by (destruct s; simpl; [congruence|lia]).
  rewrite (nth_indep s 0 d) by lia. reflexivity.
Qed.

Lemma quantile_sorted_mono s a b den :
  sorted_nth s -> s <> [] -> (0 < den)%nat -> (a <= b)%nat -> (b <= den)%nat ->
  quantile_sorted s a den <= quantile_sorted s b den.
Proof.
  intros Hs Hne Hd Hab Hb. unfold quantile_sorted. apply interp_mono; try assumption.
  - apply Nat.mul_le_mono_l. exact Hab.
  - apply Nat.mul_le_mono_l. exact Hb.
Qed.

Lemma quantile_sorted_0 s den : (0 < den)%nat -> quantile_sorted s 0 den == nth 0 s 0.
Proof.
  intros Hd. unfold quantile_sorted. rewrite Nat.mul_0_r.
  change 0%nat with (0 * den)%nat at 1. now apply interp_at_node.
Qed.

Lemma quantile_sorted_full s den : (0 < den)%nat -> quantile_sorted s den den == nth (length s - 1) s 0.
Proof. intros Hd. unfold quantile_sorted. now apply interp_at_node. Qed.

(* the order statistics bound every element *)
Lemma sorted_min_max s x :
  sorted_nth s -> In x s -> nth 0 s 0 <= x /\ x <= nth (length s - 1) s 0.
Proof.
  intros Hs Hin. destruct (In_nth s x 0 Hin) as [i [Hi Ei]]. rewrite <- Ei.
  split; apply Hs; lia.
Qed.

Theorem quantile_order l :
  l <> [] ->
  quantile l 0 4 <= quantile l 1 4 /\ quantile l 1 4 <= quantile l 2 4 /\
  quantile l 2 4 <= quantile l 3 4 /\ quantile l 3 4 <= quantile l 4 4.
Proof.
  intros Hne. unfold quantile.
  assert (Hs : qsort l <> []).
  { intros E. apply Hne. apply Permutation_nil. rewrite <- E. apply qsort_perm. }
  repeat split; apply quantile_sorted_mono; try assumption; try lia; apply qsort_sorted_nth.
Qed.

Theorem quantile_0_is_min l :
  l <> [] -> quantile l 0 4 == qmin_list l 0 /\ forall x, In x l -> qmin_list l 0 <= x.
Proof.
  intros _. split.
  - unfold quantile, qmin_list. apply quantile_sorted_0. lia.
  - intros x Hx. unfold qmin_list.
    apply (sorted_min_max (qsort l) x (qsort_sorted_nth l)).
    eapply Permutation_in; [symmetry; apply qsort_perm|exact Hx].
Qed.

Theorem quantile_100_is_max l :
  l <> [] -> quantile l 4 4 == qmax_list l 0 /\ forall x, In x l -> x <= qmax_list l 0.
Proof.
  intros _. split.
  - unfold quantile, qmax_list. rewrite <- (qsort_length l). apply quantile_sorted_full. lia.
  - intros x Hx. unfold qmax_list. rewrite <- (qsort_length l).
    apply (sorted_min_max (qsort l) x (qsort_sorted_nth l)).
    eapply Permutation_in; [symmetry; apply qsort_perm|exact Hx].
Qed.

Lemma qmin_in l : l <> [] -> In (qmin_list l 0) l.
Proof.
  intros Hne. unfold qmin_list. eapply Permutation_in; [apply qsort_perm|].
  apply nth_In. rewrite qsort_length. destruct l; simpl; [congruence|lia].
Qed.

Lemma qmax_in l : l <> [] -> In (qmax_list l 0) l.
Proof.
  intros Hne. unfold qmax_list. eapply Permutation_in; [apply qsort_perm|].
  apply nth_In. rewrite qsort_length. destruct l; simpl; [congruence|lia].
Qed.

(* the median for odd n is the middle order statistic, for even n the mean of the two middle ones *)
Lemma quantile_median_odd s k : length s = S (2 * k) -> quantile_sorted s 2 4 == nth k s 0.
Proof.
  intros Hl. unfold quantile_sorted. rewrite Hl.
  replace ((S (2 * k) - 1) * 2)%nat with (k * 4)%nat by lia.
  apply interp_at_node. lia.
Qed.

Lemma quantile_median_even s k :
  length s = (2 * S k)%nat -> quantile_sorted s 2 4 == (nth k s 0 + nth (S k) s 0) / 2.
Proof.
  intros Hl. unfold quantile_sorted, interp. rewrite Hl.
  replace ((2 * S k - 1) * 2)%nat with (2 + k * 4)%nat by lia.
  rewrite Nat.div_add by lia. rewrite Nat.mod_add by lia.
  change (2 / 4)%nat with 0%nat. change (2 mod 4)%nat with 2%nat. simpl (0 + k)%nat.
  rewrite (nth_indep s (nth k s 0) 0) by lia.
  unfold qfrac. simpl. field.
Qed.

(* ------------------------------------------------------- mean and variance *)
Lemma qlen_pos l : l <> [] -> 0 < qlen l.
Proof.
  intros H. unfold qlen. change 0 with (inject_Z 0). rewrite <- Zlt_Qlt.
  destruct l; [congruence|simpl; lia].
Qed.

Theorem qmean_def l : l <> [] -> qmean l * qlen l == qsum l.
Proof.
  intros H. unfold qmean. field. intros E. pose proof (qlen_pos l H) as P. rewrite E in P.
  apply (Qlt_irrefl 0 P).
Qed.

Theorem qvar_def l : l <> [] -> qvar l * qlen l == qsum (qsqdev (qmean l) l).
Proof.
  intros H. unfold qvar. field. intros E. pose proof (qlen_pos l H) as P. rewrite E in P.
  apply (Qlt_irrefl 0 P).
Qed.

Lemma qsum_perm l l' : Permutation l l' -> qsum l == qsum l'.
Proof.
  induction 1; simpl.
  - reflexivity.
  - now rewrite IHPermutation.
  - ring.
  - etransitivity; eauto.
Qed.

Lemma qsum_bounds a b l :
  (forall x, In x l -> a <= x /\ x <= b) -> a * qlen l <= qsum l /\ qsum l <= b * qlen l.
Proof.
  induction l as [|x r IH]; intros H.
  - unfold qlen; simpl. rewrite !Qmult_0_r. split; apply Qle_refl.
  - destruct IH as [I1 I2]; [intros y Hy; apply H; now right|].
    destruct (H x (or_introl eq_refl)) as [H1 H2].
    assert (E : qlen (x :: r) == 1 + qlen r).
    { unfold qlen. simpl length. rewrite Nat2Z.inj_succ. unfold Z.succ. rewrite inject_Z_plus. ring. }
    simpl qsum. rewrite E. split; nra.
Qed.

Theorem qmean_bounds a b l :
  l <> [] -> (forall x, In x l -> a <= x /\ x <= b) -> a <= qmean l /\ qmean l <= b.
Proof.
  intros Hne H. destruct (qsum_bounds a b l H) as [H1 H2]. pose proof (qlen_pos l Hne) as P.
  unfold qmean. split.
  - apply Qle_shift_div_l; assumption.
  - apply Qle_shift_div_r; assumption.
Qed.

Lemma qsum_nonneg l : (forall x, In x l -> 0 <= x) -> 0 <= qsum l.
Proof.
  induction l as [|x r IH]; intros H; [apply Qle_refl|].
  assert (0 <= x) by (apply H; now left). assert (0 <= qsum r) by (apply IH; intros; apply H; now right).
  change (0 <= x + qsum r). lra.
Qed.

Theorem qvar_nonneg l : 0 <= qvar l.
Proof.
  unfold qvar. destruct l as [|x r].
  - simpl. unfold Qdiv. rewrite Qmult_0_l. apply Qle_refl.
  - apply Qle_shift_div_l; [apply qlen_pos; congruence|]. rewrite Qmult_0_l.
    apply qsum_nonneg. intros y Hy. unfold qsqdev in Hy. apply in_map_iff in Hy.
    destruct Hy as [z [<- _]]. generalize (z - qmean (x :: r)). intros u. nra.
Qed.

Lemma qsum_const c l : (forall x, In x l -> x == c) -> qsum l == c * qlen l.
Proof.
  induction l as [|x r IH]; intros H.
  - unfold qlen; simpl. ring.
  - assert (E : qlen (x :: r) == 1 + qlen r).
    { unfold qlen. simpl length. rewrite Nat2Z.inj_succ. unfold Z.succ. rewrite inject_Z_plus. ring. }
    simpl qsum. rewrite E, IH, (H x) by (try (now left); intros; apply H; now right). ring.
Qed.

(* a constant column has variance zero *)
Theorem qvar_const c l : l <> [] -> (forall x, In x l -> x == c) -> qmean l == c /\ qvar l == 0.
Proof.
  intros Hne H. pose proof (qlen_pos l Hne) as P.
  assert (Em : qmean l == c).
  { unfold qmean. rewrite (qsum_const c l H). field. intros E. rewrite E in P. apply (Qlt_irrefl 0 P). }
  split; [exact Em|]. unfold qvar.
  rewrite (qsum_const 0 (qsqdev (qmean l) l)).
  - unfold Qdiv. rewrite Qmult_0_l. apply Qmult_0_l.
  - intros y Hy. unfold qsqdev in Hy. apply in_map_iff in Hy. destruct Hy as [z [<- Hz]].
    rewrite Em, (H z Hz). ring.
Qed.
