(* The proleptic Gregorian calendar as everybody states it: leap years, month
   lengths, "the day after".  Used only to characterise Lib/Calendar.v
   (Proofs/CalendarGregorian.v).  Definitions only. *)
From Coq Require Import ZArith Bool.
Open Scope Z_scope.

Definition is_leap (y : Z) : bool := (y mod 4 =? 0) && (negb (y mod 100 =? 0) || (y mod 400 =? 0)).

Definition days_in_month (y m : Z) : Z :=
  if m =? 2 then (if is_leap y then 29 else 28)
  else if (m =? 4) || (m =? 6) || (m =? 9) || (m =? 11) then 30 else 31.

Definition next_date (ymd : Z * Z * Z) : Z * Z * Z :=
  let '(y, m, d) := ymd in
  if d <? days_in_month y m then (y, m, d + 1)
  else if m <? 12 then (y, m + 1, 1)
  else (y + 1, 1, 1).

Definition valid_date (ymd : Z * Z * Z) : Prop :=
  let '(y, m, d) := ymd in 1 <= m <= 12 /\ 1 <= d <= days_in_month y m.
