(* List primitives standing for torch / Python sequence operations.
   Definitions only (plus nothing else): lemmas live in Proofs/ListXFacts.v. *)
From Coq Require Import List Arith Bool.
Import ListNotations.

Section ListX.
  Context {A : Type}.

  (* t[i] for an in-range, already non-negative index; IndexError otherwise *)
  Definition tget (l : list A) (i : nat) : option A := nth_error l i.

  Fixpoint mapM {B C : Type} (f : B -> option C) (l : list B) : option (list C) :=
    match l with
    | [] => Some []
    | x :: r =>
        match f x, mapM f r with
        | Some y, Some ys => Some (y :: ys)
        | _, _ => None
        end
    end.

  (* t[idx] for an index tensor of non-negative entries *)
  Definition tgather (l : list A) (idx : list nat) : option (list A) := mapM (tget l) idx.

  (* t[a:b] for non-negative a b: clamps, never raises *)
  Definition tslice (l : list A) (a b : nat) : list A := firstn (b - a) (skipn a l).

  (* t[-1] *)
  Definition last_error (l : list A) : option A :=
    match l with [] => None | x :: r => Some (last r x) end.

  (* x.repeat_interleave(counts) *)
  Fixpoint repeat_interleave (xs : list A) (counts : list nat) : list A :=
    match xs, counts with
    | x :: xr, c :: cr => repeat x c ++ repeat_interleave xr cr
    | _, _ => []
    end.

  (* t.reshape(r, c) : RuntimeError unless r*c = numel *)
  Fixpoint chunk_rows (r c : nat) (l : list A) : list (list A) :=
    match r with
    | 0 => []
    | S r' => firstn c l :: chunk_rows r' c (skipn c l)
    end.
  Definition reshape (r c : nat) (l : list A) : option (list (list A)) :=
    if length l =? r * c then Some (chunk_rows r c l) else None.

  (* boolean mask -> positions (index.nonzero().flatten()) *)
  Fixpoint nonzero_from (k : nat) (m : list bool) : list nat :=
    match m with
    | [] => []
    | b :: r => if b then k :: nonzero_from (S k) r else nonzero_from (S k) r
    end.
  Definition nonzero (m : list bool) : list nat := nonzero_from 0 m.
End ListX.

(* torch.cumsum *)
Fixpoint cumsum_from (acc : nat) (l : list nat) : list nat :=
  match l with
  | [] => []
  | x :: r => (acc + x) :: cumsum_from (acc + x) r
  end.
Definition cumsum (l : list nat) : list nat := cumsum_from 0 l.
Definition sum (l : list nat) : nat := fold_right Nat.add 0 l.

(* elementwise a - b (tensor subtraction of equal-length tensors) *)
Definition sub2 (a b : list nat) : list nat := map (fun p => fst p - snd p) (combine a b).
Definition add2 (a b : list nat) : list nat := map (fun p => fst p + snd p) (combine a b).

(* _batched_arange(count) of multi_tensor.py, as written:
     ptr = [0] ++ cumsum(count)
     batch = arange(len(count)).repeat_interleave(count)
     arange = arange(len(batch)) - ptr[batch]                               *)
Definition batched_arange (count : list nat) : list nat * list nat :=
  let ptr := 0 :: cumsum count in
  let batch := repeat_interleave (seq 0 (length count)) count in
  let ar := map (fun p => fst p - nth (snd p) ptr 0) (combine (seq 0 (length batch)) batch) in
  (batch, ar).

(* x[batch] + arange, the gather pattern every ragged kernel uses;
   x[batch] is in range by construction of batch when |x| = |count| *)
Definition batch_index (x : list nat) (ba : list nat * list nat) : option (list nat) :=
  match tgather x (fst ba) with
  | Some xb => Some (add2 xb (snd ba))
  | None => None
  end.

Definition obind {A B} (o : option A) (f : A -> option B) : option B :=
  match o with Some a => f a | None => None end.
Notation "x <- e ;; f" := (obind e (fun x => f)) (at level 61, e at next level, right associativity).
