(* Consecutive chunks of at most k elements: torch BatchSampler /
   `range(0, n, batch_size)` loops / tensor.chunk.  Definitions only. *)
From Coq Require Import List Arith.
Import ListNotations.

Section Chunks.
  Context {A : Type}.

  (* fuel = length l suffices since k >= 1 removes at least one element per step *)
  Fixpoint chunks_fuel (fuel k : nat) (l : list A) : list (list A) :=
    match fuel with
    | 0 => []
    | S f =>
        match l with
        | [] => []
        | _ => firstn k l :: chunks_fuel f k (skipn k l)
        end
    end.

  (* [l[i:i+k] for i in range(0, len(l), k)]  for k >= 1; k = 0 is rejected by the callers *)
  Definition chunks (k : nat) (l : list A) : list (list A) := chunks_fuel (length l) k l.

  (* BatchSampler(drop_last=True): keep only the chunks of full size *)
  Definition drop_short (k : nat) (cs : list (list A)) : list (list A) :=
    filter (fun c => length c =? k) cs.
End Chunks.
