(** IEEE-754 facts behind "an entry is taken UNCHANGED from the row itself or
    its partner" (C19) and behind every other place where the library selects
    between two float tensors with a 0/1 mask:

        out = mask * x + (1 - mask) * y          (torch: [mask * x + ~mask * y])

    In IEEE arithmetic (round to nearest even, any precision) this is exact for
    all FINITE x, y: multiplication by 1.0 is the identity, multiplication by
    0.0 gives a signed zero, and adding a signed zero to a non-zero number
    returns that number.  The only thing not preserved is the SIGN OF A ZERO
    entry (-0.0 + 0.0 = +0.0), which is stated, not hidden.

    The "one multiplication less" rewrite  x + (1 - mask) * (y - x)  is NOT
    exact: [rewritten_select_refuted] exhibits binary32 values on which it
    returns 0.0 where the partner entry is 1.0.

    Flocq's [BinarySingleNaN] formalisation (computable operations + the
    correctness theorems linking them to rounding of reals).  Importing Flocq
    brings the standard library's real-number axioms and classical logic into
    [Print Assumptions]; they are named in the trusted base (DESIGN.md 4). *)

From Coq Require Import ZArith Reals Bool Lia.
From Flocq Require Import Core BinarySingleNaN.

Section Select.

Variable prec emax : Z.
Context (prec_gt_0_ : Prec_gt_0 prec).
Context (prec_lt_emax_ : Prec_lt_emax prec emax).

Notation bf := (binary_float prec emax).
Notation one := (@Bone prec emax prec_gt_0_ prec_lt_emax_).
Notation mul := (@Bmult prec emax prec_gt_0_ prec_lt_emax_ mode_NE).
Notation add := (@Bplus prec emax prec_gt_0_ prec_lt_emax_ mode_NE).
Notation sub := (@Bminus prec emax prec_gt_0_ prec_lt_emax_ mode_NE).

Definition fzero : bf := B754_zero false.          (* float(False) *)

(** what torch computes for an entry whose mask bit is [b] *)
Definition mask_select (b : bool) (x y : bf) : bf :=
  if b then add (mul one x) (mul fzero y)
  else add (mul fzero x) (mul one y).

(** the rewritten form (seeded change C19_8) *)
Definition rewritten_select (b : bool) (x y : bf) : bf :=
  if b then add x (mul fzero (sub y x))
  else add x (mul one (sub y x)).

Lemma mul_one_l (x : bf) : is_finite x = true -> mul one x = x.
Proof.
  intros Fx.
  generalize (Bmult_correct prec emax prec_gt_0_ prec_lt_emax_ mode_NE one x).
  rewrite Bone_correct, Rmult_1_l.
  rewrite round_generic; [| apply valid_rnd_N | apply generic_format_B2R].
  rewrite (Rlt_bool_true _ _ (abs_B2R_lt_emax prec emax x)).
  intros (HR & HF & HS).
  rewrite is_finite_Bone, Fx in HF. simpl in HF.
  apply B2R_Bsign_inj; auto.
  rewrite HS.
  - rewrite Bsign_Bone. now destruct (Bsign x).
  - destruct (mul one x); simpl in *; congruence.
Qed.

Lemma mul_zero_l (y : bf) : is_finite y = true -> mul fzero y = B754_zero (Bsign y).
Proof. destruct y as [s|s| |s m e H]; simpl; intros F; try discriminate; destruct s; reflexivity. Qed.

Lemma add_zero_r_strict (x : bf) (s : bool) :
  is_finite_strict x = true -> add x (B754_zero s) = x.
Proof. destruct x; simpl; intros F; try discriminate; reflexivity. Qed.

Lemma add_zero_l_strict (y : bf) (s : bool) :
  is_finite_strict y = true -> add (B754_zero s) y = y.
Proof. destruct y; simpl; intros F; try discriminate; reflexivity. Qed.

Lemma add_zero_zero (s t : bool) :
  exists u, add (B754_zero s) (B754_zero t) = B754_zero u.
Proof. simpl. destruct (eqb s t); eauto. Qed.

Lemma finite_cases (x : bf) :
  is_finite x = true -> is_finite_strict x = true \/ exists s, x = B754_zero s.
Proof. destruct x; simpl; intros F; try discriminate; eauto. Qed.

(** Main theorem: for finite operands the masked formula returns EXACTLY the
    selected operand; if the selected operand is a zero the result is a zero
    (possibly of the other sign). *)
Theorem mask_select_exact (b : bool) (x y : bf) :
  is_finite x = true -> is_finite y = true ->
  let w := if b then x else y in
  let z := mask_select b x y in
  (is_finite_strict w = true -> z = w) /\
  (forall s, w = B754_zero s -> exists u, z = B754_zero u) /\
  B2R z = B2R w /\ is_finite z = true.
Proof.
  intros Fx Fy w z. subst w z. unfold mask_select.
  destruct b.
  - rewrite (mul_one_l x Fx), (mul_zero_l y Fy).
    destruct (finite_cases x Fx) as [Sx | [s ->]].
    + rewrite (add_zero_r_strict x _ Sx). repeat split; auto.
      intros s E; rewrite E in Sx; discriminate.
    + destruct (add_zero_zero s (Bsign y)) as [u Hu]. rewrite Hu.
      repeat split; eauto. intros F; discriminate.
  - rewrite (mul_one_l y Fy), (mul_zero_l x Fx).
    destruct (finite_cases y Fy) as [Sy | [s ->]].
    + rewrite (add_zero_l_strict y _ Sy). repeat split; auto.
      intros s E; rewrite E in Sy; discriminate.
    + destruct (add_zero_zero (Bsign x) s) as [u Hu]. rewrite Hu.
      repeat split; eauto. intros F; discriminate.
Qed.

(** the value never depends on the operand that is NOT selected *)
Corollary mask_select_ignores_other (b : bool) (x y x' y' : bf) :
  is_finite x = true -> is_finite y = true -> is_finite x' = true -> is_finite y' = true ->
  (if b then x = x' else y = y') ->
  B2R (mask_select b x y) = B2R (mask_select b x' y').
Proof.
  intros Fx Fy Fx' Fy' E.
  destruct (mask_select_exact b x y Fx Fy) as (_ & _ & H1 & _).
  destruct (mask_select_exact b x' y' Fx' Fy') as (_ & _ & H2 & _).
  rewrite H1, H2. destruct b; now rewrite E.
Qed.

End Select.

(** binary32 instance (torch.float32) *)
Definition prec32 := 24%Z.
Definition emax32 := 128%Z.
#[global] Instance Hprec32 : Prec_gt_0 prec32. Proof. unfold Prec_gt_0, prec32; lia. Qed.
#[global] Instance Hemax32 : Prec_lt_emax prec32 emax32. Proof. unfold Prec_lt_emax, prec32, emax32; lia. Qed.
Definition b32 := binary_float prec32 emax32.

Definition f32 (s : bool) (m : positive) (e : Z)
  (H : SpecFloat.bounded prec32 emax32 m e = true) : b32 := B754_finite s m e H.

(** 1e8 = 12500000 * 2^3 and 1.0 = 8388608 * 2^-23, both exact in binary32 *)
Definition f32_1e8 : b32 := f32 false 12500000 3 eq_refl.
Definition f32_1 : b32 := f32 false 8388608 (-23) eq_refl.

(** own = 1e8, partner = 1.0, mask bit False (take the partner): the rewritten
    formula returns +0.0, the library's formula returns 1.0. *)
Theorem rewritten_select_refuted :
  exists x y : b32,
    is_finite x = true /\ is_finite y = true /\
    B2SF (rewritten_select prec32 emax32 Hprec32 Hemax32 false x y) = SpecFloat.S754_zero false /\
    B2SF (mask_select prec32 emax32 Hprec32 Hemax32 false x y) = B2SF y.
Proof.
  exists f32_1e8, f32_1. repeat split; vm_compute; reflexivity.
Qed.

(** executable form for the correspondence: operands given as (sign, mantissa,
    exponent) triples of finite binary32 numbers; [None] when not representable *)
Definition mk32 (s : bool) (m : Z) (e : Z) : option b32 :=
  match m with
  | Z0 => Some (B754_zero s)
  | Zpos p =>
      match SpecFloat.bounded prec32 emax32 p e as b
            return SpecFloat.bounded prec32 emax32 p e = b -> option b32 with
      | true => fun H => Some (B754_finite s p e H)
      | false => fun _ => None
      end eq_refl
  | Zneg _ => None
  end.

Definition sf_triple (x : b32) : option (bool * Z * Z) :=
  match x with
  | B754_zero s => Some (s, 0%Z, 0%Z)
  | B754_finite s m e _ => Some (s, Zpos m, e)
  | _ => None
  end.

(** [select32 b x y] on triples; the harness compares it with torch's output bits *)
Definition select32 (b : bool) (x y : bool * Z * Z) : option (bool * Z * Z) :=
  let '(sx, mx, ex) := x in
  let '(sy, my, ey) := y in
  match mk32 sx mx ex, mk32 sy my ey with
  | Some fx, Some fy => sf_triple (mask_select prec32 emax32 Hprec32 Hemax32 b fx fy)
  | _, _ => None
  end.
