(* Documentation of two repaired defects (DESIGN.md section 7, D2 and D3): the
   pre-fix code as a model, and a computed witness on which the property fails.
   The current code is modelled in Model/Mapper.v; nothing else depends on this file
   except the two `_refuted` statements quoted in Props/C02.v. *)
From Coq Require Import ZArith List Bool Arith.
From PF Require Import Lib.ListX Model.Ragged Model.Mapper Model.MapperSpec.
Import ListNotations.
Local Open Scope nat_scope.

(* D2 (fixed by f4ba596): MultiCategoricalTensorMapper.forward kept the caller's
   labels -- `original_index = ser.index`, and the per-row counts were
   `ser.index.value_counts().reindex(original_index, fill_value=0)`, i.e. keyed by label *)
Definition multicategorical_forward_legacy (cats : list pval) (sep : option str) (s : @series nat mc_cell)
  : option (mnt Z) :=
  let original_index := map fst s in
  sets <- ser_apply_opt (fun row => split_by_sep row sep) s ;;
  let exploded := explode sets in
  let merged := merge_left exploded (multicat_index cats) in
  let kept := filter (fun r => match r with (_, Some _, Some _) => true | _ => false end) merged in
  let values := flat_map (fun r => match snd r with Some k => [k] | None => [] end) kept in
  let counts := label_counts (map (fun r => fst (fst r)) kept) original_index in
  let offset := cumsum (0 :: counts) in
  mk_mnt Z (length original_index) 1 values offset.

(* the frame df.iloc[[1, 1]]: two rows carrying the same label *)
Definition dup_series : @series nat mc_cell := [(1, MCList [VStr [97%Z]]); (1, MCList [VStr [97%Z]])].

Lemma multicat_dup_labels_refuted :
  (* the current pipeline encodes the two cells *)
  multicategorical_encode [VStr [97%Z]] None dup_series = Some [[SInt 0]; [SInt 0]] /\
  (* the label-keyed one counted both rows under label 1 twice: offsets [0;2;4] for 2 values -> the container's
     constructor raises *)
  multicategorical_forward_legacy [VStr [97%Z]] None dup_series = None.
Proof. split; vm_compute; reflexivity. Qed.

(* D3 (fixed by 154b7d1): StatType.EMB_DIM was len(ser[0]) -- a LABEL lookup *)
Definition ser_loc {C} (s : @series nat C) (label : nat) : option C :=
  option_map snd (find (fun p => fst p =? label) s).
Definition emb_dim_legacy (s : @series nat (list num)) : option nat := option_map (@length num) (ser_loc s 0).
Definition emb_dim_positional (s : @series nat (list num)) : option nat := option_map (@length num) (hd_error (map snd s)).

Lemma emb_dim_label_refuted :
  let s := [(100, [NFin 1; NFin 2]); (101, [NFin 3; NFin 4])] in        (* an offset index: no label 0 *)
  emb_dim_positional s = Some 2 /\ emb_dim_legacy s = None.           (* KeyError *)
Proof. split; reflexivity. Qed.
