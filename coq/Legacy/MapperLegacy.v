(* The pre-fix, label-KEYED variants of two pieces of the code (DESIGN.md
   section 7, D2 and D3), written with the same keyed pandas primitives as the
   current model (Model/Mapper.v, Section Keyed), and computed witnesses on
   which they break the property.  They show that relabelling invariance is
   not a consequence of the framework: it fails for these definitions and holds
   for the current ones.  Quoted in Props/C02.v. *)
From Coq Require Import ZArith List Bool Arith.
From PF Require Import Lib.ListX Model.Ragged Model.Mapper Model.MapperSpec.
Import ListNotations.
Local Open Scope nat_scope.

(* D2 (fixed by f4ba596): MultiCategoricalTensorMapper.forward kept the caller's
   labels -- `original_index = ser.index`, and the per-row counts were
   `ser.index.value_counts().reindex(original_index, fill_value=0)`, keyed by the CALLER's labels *)
Definition multicategorical_forward_legacy {L} (leqb : L -> L -> bool) (cats : list pval) (sep : option str)
  (s : @series L mc_cell) : option (mnt Z) :=
  let original_index := map fst s in
  sets <- ser_apply_opt (fun row => split_by_sep row sep) s ;;
  let exploded := explode sets in
  let merged := merge_left exploded (multicat_index cats) in
  let kept := filter (fun r => match r with (_, Some _, Some _) => true | _ => false end) merged in
  let values := flat_map (fun r => match snd r with Some k => [k] | None => [] end) kept in
  let counts := label_counts leqb (map (fun r => fst (fst r)) kept) original_index in
  let offset := cumsum (0 :: counts) in
  mk_mnt Z (length original_index) 1 values offset.

(* the frame df.iloc[[1, 1]]: two rows carrying the same label; and the same cells under labels 0, 1 *)
Definition dup_series : @series nat mc_cell := [(1, MCList [VStr [97%Z]]); (1, MCList [VStr [97%Z]])].
Definition range_series : @series nat mc_cell := [(0, MCList [VStr [97%Z]]); (1, MCList [VStr [97%Z]])].

Lemma multicat_dup_labels_refuted :
  (* the current pipeline encodes the two cells *)
  multicategorical_encode true [VStr [97%Z]] None dup_series = Some [[SInt 0]; [SInt 0]] /\
  (* the label-keyed one counted both rows under label 1 twice: offsets [0;2;4] for 2 values -> the container's
     constructor raises *)
  multicategorical_forward_legacy Nat.eqb [VStr [97%Z]] None dup_series = None.
Proof. split; vm_compute; reflexivity. Qed.

(* same cells, different labels, different result: the legacy pipeline is NOT relabelling invariant *)
Lemma multicat_legacy_not_relabel_invariant :
  ser_values dup_series = ser_values range_series /\
  multicategorical_forward_legacy Nat.eqb [VStr [97%Z]] None dup_series
    <> multicategorical_forward_legacy Nat.eqb [VStr [97%Z]] None range_series.
Proof. split; [reflexivity | vm_compute; discriminate]. Qed.

(* D3 (fixed by 154b7d1): StatType.EMB_DIM was len(ser[0]) -- a LABEL lookup *)
Definition emb_dim_legacy {L} (leqb : L -> L -> bool) (zero : L) (s : @series L (list num)) : option nat :=
  option_map (@length num) (ser_loc leqb s zero).
Definition emb_dim_positional {L} (s : @series L (list num)) : option nat := option_map (@length num) (hd_error (map snd s)).

Lemma emb_dim_label_refuted :
  let s := [(100, [NFin 1; NFin 2]); (101, [NFin 3; NFin 4])] in        (* an offset index: no label 0 *)
  emb_dim_positional s = Some 2 /\ emb_dim_legacy Nat.eqb 0 s = None.  (* KeyError *)
Proof. split; reflexivity. Qed.
