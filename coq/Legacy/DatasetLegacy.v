(* Documentation of defect D6 (repaired in /repo by commit 965832b): the pre-fix
   `Dataset.get_split`

       indices = self.df.index[self.df[self.split_col] == SPLIT_TO_NUM[split]].tolist()
       return self[indices]

   fed the index LABELS of the matching rows back into __getitem__, which reads
   them as POSITIONS (or, for string labels, as column names).  Model of that
   code and a concrete witness that it returns rows of another split. *)
From Coq Require Import ZArith List Bool String Permutation.
From PF Require Import Lib.ListX Lib.PySlice Lib.FloatInt Gen.Tables Model.Dataset.
Import ListNotations.
Local Open Scope Z_scope.

Definition label_int (l : lbl) : option Z := match l with LInt z => Some z | LStr _ => None end.
Definition label_str (l : lbl) : option string := match l with LStr s => Some s | LInt _ => None end.

Definition get_split_legacy (d : ds) (name : string) : option ds :=
  match split_col d with
  | None => None
  | Some sc =>
      if mem_str name ["train"; "val"; "test"]%string then
        if mem_str sc (df_cols d) then
          k <- assoc_str name split_to_num ;;
          let labels := map label (filter (fun r => split r =? k) (df d)) in
          (* self[labels] *)
          match labels with
          | LStr _ :: _ => cols <- mapM label_str labels ;; col_select d cols
          | _ => ints <- mapM label_int labels ;; index_select d (DIdx (IList ints))
          end
        else None
      else None
  end.

(* a materialized dataset with the given index labels and split values; row i has id i *)
Definition dataset_of (labels : list lbl) (splits : list Z) : ds :=
  let rows := map (fun p => mkRow (fst (snd p)) (fst p) (snd (snd p)))
                  (combine (seq 0 (List.length labels)) (combine labels splits)) in
  mkDs rows ["rid"; "s"]%string ["rid"]%string None (Some "s"%string) true (Some (map rid rows)).

(* Even on the default RangeIndex: after a shuffle, the legacy 'train' subset
   contains a row whose split value is not 0 (train/val leakage).
   Witness: 3 rows, labels 0,1,2, splits 0,1,2, shuffle [1,2,0], "train".
   Proof by computation on the witness. *)
Lemma get_split_legacy_wrong_rows :
  exists (labels : list lbl) (splits : list Z) (perm : list nat) (name : string) (k : Z),
    let d0 := dataset_of labels splits in
    labels = map (fun i => LInt (Z.of_nat i)) (seq 0 (List.length labels)) /\
    Permutation perm (seq 0 (len d0)) /\
    In (name, k) [("train", 0); ("val", 1); ("test", 2)]%string /\
    exists d1 d2,
      step d0 (OShuffle perm) = Some d1 /\
      get_split_legacy d1 name = Some d2 /\
      existsb (fun r => negb (split r =? k)) (df d2) = true /\
      (* while the repaired get_split returns exactly the rows of that split *)
      option_map df (get_split d1 name) = Some (filter (fun r => split r =? k) (df d1)).
Proof.
  exists [LInt 0; LInt 1; LInt 2], [0; 1; 2], [1; 2; 0]%nat, "train"%string, 0.
  cbv zeta. split; [reflexivity|]. split.
  - vm_compute. apply Permutation_sym. apply (Permutation_cons_app [1; 2]%nat []%nat 0%nat). simpl.
    apply Permutation_refl.
  - split; [left; reflexivity|]. eexists. eexists.
    split; [vm_compute; reflexivity|]. split; [vm_compute; reflexivity|]. split; vm_compute; reflexivity.
Qed.

(* string labels: the list of labels is taken for a column selection, which the
   materialization gate rejects *)
Lemma get_split_legacy_string_labels_raise :
  get_split_legacy (dataset_of [LStr "a"; LStr "b"]%string [0; 1]) "train" = None /\
  option_map (fun d => map rid (df d)) (get_split (dataset_of [LStr "a"; LStr "b"]%string [0; 1]) "train") = Some [0%nat].
Proof. split; vm_compute; reflexivity. Qed.

(* offset labels: IndexError *)
Lemma get_split_legacy_offset_labels_raise :
  get_split_legacy (dataset_of [LInt 10; LInt 11] [1; 0]) "train" = None /\
  option_map (fun d => map rid (df d)) (get_split (dataset_of [LInt 10; LInt 11] [1; 0]) "train") = Some [1%nat].
Proof. split; vm_compute; reflexivity. Qed.
