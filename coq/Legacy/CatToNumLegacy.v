(* Pre-fix CatToNumTransform._forward (before /repo commit a72a63a), kept as documentation of the defect found at
   design time (DESIGN.md section 7, known_findings.txt "fixed: property=C17").  The old code sized the output by
   the labels of the frame BEING TRANSFORMED:

       if not torch.is_floating_point(tf.y) and tf.y.max() > 1:
           transformed_tensor = zeros(num_rows, num_cols * (self.num_classes - 1))
       else:
           transformed_tensor = zeros_like(tf.feat_dict[categorical])            # num_cols wide

   and then wrote blocks of (num_classes - 1) columns into it, so a frame without y (TypeError) or with labels
   inside {0, 1} after a multiclass fit (RuntimeError, shape mismatch) could not be transformed.
   Witnesses are closed terms evaluated with vm_compute. *)
From Coq Require Import String.
From Coq Require Import List ZArith QArith Bool Arith.
From PF Require Import Lib.ListX Model.CatToNum.
Import ListNotations.
Open Scope Q_scope.

Definition _forward_legacy (t : transform) (tf : tframe) : option tframe :=
  match tf_cat tf with
  | None => Some tf
  | Some cb =>
      st <- t_state t ;;
      tensor <- replace_nans (b_cols cb) ;;
      (* the branch on the transformed frame's own labels *)
      wide <- match tf_y tf with
              | None => None                                     (* is_floating_point(None): TypeError *)
              | Some (YFloat _) => Some false
              | Some (YInt ys) => m <- zmax ys ;; Some (1 <? m)%Z
              end ;;
      let ncols := length (b_cols cb) in
      let width := if (wide : bool) then (ncols * (f_classes st - 1))%nat else ncols in
      gen <- encode_cols (f_stats st) (f_size st) (f_prior st) (b_names cb) tensor ;;
      (* transformed_tensor[:, start:end] = <num_classes - 1 columns>: shape mismatch unless everything fits *)
      if negb (length gen =? width)%nat then None else
      let nb := match tf_num tf with
                | Some nb => mkblock (b_names nb ++ f_new_columns st) (b_cols nb ++ gen)
                | None => mkblock (f_new_columns st) gen
                end in
      Some (mkframe (Some nb) None (tf_y tf))
  end.

Definition call_legacy (t : transform) (tf : tframe) : option tframe :=
  if negb (t_is_fitted t) then None else out <- _forward_legacy t tf ;; validate out.

Definition is_some {A} (o : option A) : bool := match o with Some _ => true | None => false end.

(* a three-class training frame with one categorical column *)
Definition w_train : tframe :=
  mkframe None (Some (mkblock ["c"%string] [[0; 0; 1; (-1)]%Z])) (Some (YInt [0; 1; 2; 1]%Z)).
Definition w_stats : col_stats := [("c"%string, [2; 1]%Z)].
Definition w_fitted : transform :=
  match fit fresh w_train w_stats with Some t => t | None => fresh end.
(* two rows of it, to be transformed *)
Definition w_batch : tframe := mkframe None (Some (mkblock ["c"%string] [[1; (-1)]%Z])) None.

Lemma w_fitted_is_fitted : t_is_fitted w_fitted = true.
Proof. vm_compute. reflexivity. Qed.

(* same rows, three label contents: all classes / only classes {0,1} / no labels *)
Lemma forward_depends_on_y_refuted :
  is_some (call_legacy w_fitted (set_y w_batch (Some (YInt [2; 0]%Z)))) = true /\
  call_legacy w_fitted (set_y w_batch (Some (YInt [1; 0]%Z))) = None /\
  call_legacy w_fitted (set_y w_batch None) = None.
Proof. vm_compute. repeat split; reflexivity. Qed.

(* the statement of Props/C17.v forward_label_independent is FALSE of the old code *)
Lemma legacy_label_independence_refuted :
  exists t tf y',
    call_legacy t (set_y tf y') <>
    match call_legacy t (set_y tf None) with
    | Some o => if y_ok (num_rows o) y' then Some (set_y o y') else None
    | None => None
    end.
Proof.
  exists w_fitted, w_batch, (Some (YInt [2; 0]%Z)).
  destruct forward_depends_on_y_refuted as (H1 & _ & H3). rewrite H3.
  intros E. rewrite E in H1. discriminate.
Qed.

(* the repaired model on the same witnesses: all three succeed *)
Lemma repaired_on_witness :
  is_some (call w_fitted (set_y w_batch (Some (YInt [2; 0]%Z)))) = true /\
  is_some (call w_fitted (set_y w_batch (Some (YInt [1; 0]%Z)))) = true /\
  is_some (call w_fitted (set_y w_batch None)) = true.
Proof. vm_compute. repeat split; reflexivity. Qed.

Print Assumptions forward_depends_on_y_refuted.
Print Assumptions legacy_label_independence_refuted.
