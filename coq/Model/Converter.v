(* Implementation-level model of DataFrameToTensorFrameConverter (__init__,
   _get_mapper, __call__, _merge_feat) and of Dataset.task_type / num_classes /
   _update_col_stats in torch_frame/data/dataset.py.  Python dicts are
   association lists in insertion order; a feature tensor of a stype is the
   list of its columns (torch.stack(xs, dim=1) / cat(xs, dim=1) put the
   per-column outputs side by side; `feat_rows` reads it row by row the way
   tf.feat_dict[stype][i, j] does).  The stype tables (all_stype order, parent,
   storage flags) come from Gen/Tables.v, regenerated from /repo on every run.
   A raise is None.  Definitions only; lemmas are in Proofs/ConverterProofs.v. *)
From Coq Require Import ZArith List Bool Arith.
From PF Require Import Gen.Tables Lib.ListX Model.Ragged Model.Mapper.
Import ListNotations.
Local Open Scope nat_scope.

Definition name := str.

(* ------------------------------------------------------------------------- *)
(* A DataFrame column together with what the converter knows about it: its
   stype (col_to_stype), the category list of its statistics (col_stats), its
   separator (col_to_sep).  Black boxes (see Model/Mapper.v): a timestamp cell
   is the result of pd.to_datetime; a text/image-embedded cell is the row the
   user's embedder returned for it; a tokenized cell is the tokenizer's output
   dictionary for it. *)
Inductive rawcol :=
| RNum (cells : list (option num))
| RCat (cats : list pval) (cells : list (option pval))
| RMulti (dtype_ok : bool) (cats : list pval) (sep : option str) (cells : list mc_cell)   (* dtype_ok: object / string dtype *)
| RSeq (cells : list seq_cell)
| RTime (cells : list (option Z))
| REmb (cells : list (list num))
| RTextEmb (rows : list (list num))
| RImageEmb (rows : list (list num))
| RTok (outs : list (list (str * list Z))).

Definition rawcol_stype (c : rawcol) : stype :=
  match c with
  | RNum _ => st_numerical
  | RCat _ _ => st_categorical
  | RMulti _ _ _ _ => st_multicategorical
  | RSeq _ => st_sequence_numerical
  | RTime _ => st_timestamp
  | REmb _ => st_embedding
  | RTextEmb _ => st_text_embedded
  | RImageEmb _ => st_image_embedded
  | RTok _ => st_text_tokenized
  end.

Definition rawcol_len (c : rawcol) : nat :=
  match c with
  | RNum l => length l | RCat _ l => length l | RMulti _ _ _ l => length l | RSeq l => length l
  | RTime l => length l | REmb l => length l | RTextEmb l => length l | RImageEmb l => length l
  | RTok l => length l
  end.

(* a DataFrame: one index shared by all columns; columns in col_to_stype order *)
Record frame (L : Type) := MkFrame { f_index : list L; f_cols : list (name * rawcol) }.
Arguments MkFrame {L}. Arguments f_index {L}. Arguments f_cols {L}.

Fixpoint assoc {V} (k : str) (d : list (str * V)) : option V :=
  match d with
  | [] => None
  | (k', v) :: r => if str_eqb k k' then Some v else assoc k r
  end.

(* ------------------------------------------------------------------------- *)
(* The output of one mapper: a tensor / one-column container (its cells), or
   for text_tokenized a dict of one-column containers *)
Inductive encoded := ECol (cells : list ecell) | EDict (d : list (str * list ecell)).

(* TextTokenizationTensorMapper.forward, list-of-dicts output: keys of the
   first output; feat_dict[key] = MultiNestedTensor.from_tensor_mat([[out[key]] for out in outputs]) *)
Definition tokenized_forward {L} (s : @series L (list (str * list Z))) : option (list (str * list ecell)) :=
  match ser_values s with
  | [] => None                                                         (* tokenized_outputs[0]: IndexError *)
  | o0 :: _ =>
      mapM (fun key =>
              ids <- mapM (assoc key) (ser_values s) ;;                 (* tensor_dict[key]: KeyError *)
              t <- mnt_from_mat Z (map (fun x => [x]) ids) ;;
              c <- mnt_column t ;;
              Some (key, map (map SInt) c))
           (map fst o0)
  end.

(* self._get_mapper(col).forward(df[col]); leqb is the equality of index labels *)
Definition encode_col {L} (leqb : L -> L -> bool) (index : list L) (c : rawcol) : option encoded :=
  match c with
  | RNum cells => Some (ECol (numerical_encode (combine index cells)))
  | RCat cats cells => Some (ECol (categorical_encode cats (combine index cells)))
  | RMulti dt cats sep cells => option_map ECol (multicategorical_encode dt cats sep (combine index cells))
  | RSeq cells => option_map ECol (sequence_encode leqb (combine index cells))
  | RTime cells => Some (ECol (timestamp_encode (combine index cells)))
  | REmb cells => option_map ECol (embedding_encode (combine index cells))
  | RTextEmb rows => option_map ECol (embedded_encode (combine index rows))
  | RImageEmb rows => option_map ECol (embedded_encode (combine index rows))
  | RTok outs => option_map EDict (tokenized_forward (combine index outs))
  end.

(* ------------------------------------------------------------------------- *)
(* dict[stype, V] in insertion order *)
Definition sdict (V : Type) := list (stype * V).

Fixpoint sd_get {V} (d : sdict V) (k : stype) : option V :=
  match d with
  | [] => None
  | (k', v) :: r => if stype_eqb k k' then Some v else sd_get r k
  end.
Definition sd_mem {V} (d : sdict V) (k : stype) : bool := match sd_get d k with Some _ => true | None => false end.
(* d[k] = v : overwrite in place, or append *)
Fixpoint sd_set {V} (d : sdict V) (k : stype) (v : V) : sdict V :=
  match d with
  | [] => [(k, v)]
  | (k', v') :: r => if stype_eqb k k' then (k', v) :: r else (k', v') :: sd_set r k v
  end.
(* d.pop(k) *)
Definition sd_pop {V} (d : sdict V) (k : stype) : sdict V := filter (fun e => negb (stype_eqb k (fst e))) d.

(* ------------------------------------------------------------------------- *)
(* list.sort() on column names: lexicographic order of code points *)
Fixpoint str_leb (a b : str) : bool :=
  match a, b with
  | [], _ => true
  | _ :: _, [] => false
  | x :: a', y :: b' => if (x <? y)%Z then true else if (y <? x)%Z then false else str_leb a' b'
  end.
Fixpoint insert_name (x : name) (l : list name) : list name :=
  match l with
  | [] => [x]
  | y :: r => if str_leb x y then x :: l else y :: insert_name x r
  end.
Definition sort_names (l : list name) : list name := fold_right insert_name [] l.

(* ------------------------------------------------------------------------- *)
(* DataFrameToTensorFrameConverter.__init__: the canonical col_names_dict.
     for col, stype in col_to_stype.items():
         if col != target_col: _col_names_dict[stype].append(col)   (created on first use)
     for stype in _col_names_dict: _col_names_dict[stype].sort()                      *)
Definition is_target (target : option name) (col : name) : bool :=
  match target with Some t => str_eqb col t | None => false end.

Definition names_step (target : option name) (d : sdict (list name)) (c : name * stype) : sdict (list name) :=
  if is_target target (fst c) then d
  else match sd_get d (snd c) with
       | None => sd_set d (snd c) [fst c]
       | Some l => sd_set d (snd c) (l ++ [fst c])
       end.

Definition col_names_dict_init (col_to_stype : list (name * stype)) (target : option name) : sdict (list name) :=
  let grouped := fold_left (names_step target) col_to_stype [] in
  map (fun e => (fst e, sort_names (snd e))) grouped.

Definition col_to_stype_of (cols : list (name * rawcol)) : list (name * stype) :=
  map (fun c => (fst c, rawcol_stype (snd c))) cols.

(* ------------------------------------------------------------------------- *)
(* feature data of one stype: the list of its columns; for text_tokenized a dict of those *)
Inductive feat := FCols (cols : list (list ecell)) | FDict (d : list (str * list (list ecell))).

Definition as_col (x : encoded) : option (list ecell) := match x with ECol c => Some c | EDict _ => None end.
Definition as_dict (x : encoded) : option (list (str * list ecell)) := match x with EDict d => Some d | ECol _ => None end.

(* the four branches of __call__ that turn xs_dict[stype] into feat_dict[stype] *)
Definition assemble (st : stype) (xs : list encoded) : option feat :=
  if use_multi_nested st then option_map FCols (mapM as_col xs)                  (* MultiNestedTensor.cat(xs, dim=1) *)
  else if use_dict_nested st then
    match xs with
    | [] => None
    | x0 :: _ =>
        d0 <- as_dict x0 ;;                                                      (* for key in xs[0].keys() *)
        option_map FDict
          (mapM (fun key => cols <- mapM (fun x => d <- as_dict x ;; assoc key d) xs ;; Some (key, cols)) (map fst d0))
    end
  else if use_multi_embedding st then option_map FCols (mapM as_col xs)          (* MultiEmbeddingTensor.cat(xs, dim=1) *)
  else option_map FCols (mapM as_col xs).                                        (* torch.stack(xs, dim=1) *)

Record tensor_frame := MkTF { tf_feats : sdict feat; tf_names : sdict (list name); tf_y : option encoded }.

Definition feat_columns (f : feat) : list (list (list ecell)) :=
  match f with FCols c => [c] | FDict d => map snd d end.
Definition feat_num_cols (f : feat) : list nat := map (@length _) (feat_columns f).
Definition feat_col_lens (f : feat) : list nat := flat_map (map (@length _)) (feat_columns f).

(* TensorFrame.num_rows: rows of the first feature tensor, 0 for an empty frame *)
Definition tf_num_rows (feats : sdict feat) : nat :=
  match feats with
  | [] => 0
  | (_, f) :: _ => match feat_col_lens f with [] => 0 | n :: _ => n end
  end.

Definition encoded_len (e : encoded) : list nat :=
  match e with ECol c => [length c] | EDict d => map (fun kv => length (snd kv)) d end.

(* TensorFrame.__init__ / validate(): same keys, as many columns as names, no
   empty stype, every tensor and y have num_rows rows *)
Definition tf_validate (t : tensor_frame) : option tensor_frame :=
  let n := tf_num_rows (tf_feats t) in
  if forallb (fun p => stype_eqb (fst (fst p)) (fst (snd p))) (combine (tf_feats t) (tf_names t))
     && (length (tf_feats t) =? length (tf_names t))
     && forallb (fun p => forallb (fun c => c =? length (snd (snd p))) (feat_num_cols (snd (fst p)))
                          && negb (length (snd (snd p)) =? 0)
                          && forallb (fun r => r =? n) (feat_col_lens (snd (fst p))))
                (combine (tf_feats t) (tf_names t))
     && match tf_y t with None => true | Some y => forallb (fun r => r =? n) (encoded_len y) end
  then Some t else None.

(* torch_frame.cat([parent_feat, child_feat], dim=1): same container type *)
Definition feat_cat (a b : feat) : option feat :=
  match a, b with
  | FCols x, FCols y => Some (FCols (x ++ y))
  | FDict x, FDict y =>
      option_map FDict (mapM (fun kv => c <- assoc (fst kv) y ;; Some (fst kv, snd kv ++ c)) x)
  | _, _ => None                                                                  (* RuntimeError *)
  end.

(* one iteration of the loop of _merge_feat for a child stype present in the frame *)
Definition merge_step (st : stype) (t : tensor_frame) : option tensor_frame :=
  let p := stype_parent st in
  if stype_eqb p st then Some t
  else
    child_feat <- sd_get (tf_feats t) st ;;
    child_names <- sd_get (tf_names t) st ;;
    merged <- match sd_get (tf_feats t) p with                                    (* if stype.parent in tf.stypes *)
              | Some parent_feat => feat_cat parent_feat child_feat
              | None => Some child_feat
              end ;;
    let feats := sd_set (tf_feats t) p merged in
    let names := sd_set (tf_names t) p
                   (match sd_get (tf_names t) p with Some l => l | None => [] end ++ child_names) in
    Some (MkTF (sd_pop feats st) (sd_pop names st) (tf_y t)).

(* tf.stypes: canonical (enum) order of the stypes present; evaluated once by the for loop *)
Definition tf_stypes (t : tensor_frame) : list stype := filter (sd_mem (tf_feats t)) all_stype.

Definition merge_feat (t : tensor_frame) : option tensor_frame :=
  fold_left (fun acc st => t' <- acc ;; merge_step st t') (tf_stypes t) (Some t).

(* df[col] for a frame with unique column names *)
Fixpoint get_col (cols : list (name * rawcol)) (nm : name) : option rawcol :=
  match cols with
  | [] => None
  | (n, c) :: r => if str_eqb nm n then Some c else get_col r nm
  end.

(* DataFrameToTensorFrameConverter.__call__(df) for a converter whose _col_names_dict currently is `names`;
   `enc c` stands for self._get_mapper(col).forward(df[col]) on the column c = df[col] *)
Definition convert_from (enc : rawcol -> option encoded) (target : option name) (cols : list (name * rawcol))
  (names : sdict (list name)) : option tensor_frame :=
  xs_dict <- mapM (fun e =>
                     xs <- mapM (fun col => c <- get_col cols col ;; enc c) (snd e) ;;
                     Some (fst e, xs)) names ;;
  feat_dict <- mapM (fun e => f <- assemble (fst e) (snd e) ;; Some (fst e, f)) xs_dict ;;
  y <- match target with
       | None => Some None
       | Some t => match get_col cols t with                                       (* target_col in df *)
                   | None => Some None
                   | Some c => option_map Some (enc c)
                   end
       end ;;
  t <- tf_validate (MkTF feat_dict names y) ;;
  merge_feat t.

(* the first call: the dict is the one __init__ computed *)
Definition convert_with (enc : rawcol -> option encoded) (target : option name) (cols : list (name * rawcol))
  : option tensor_frame :=
  convert_from enc target cols (col_names_dict_init (col_to_stype_of cols) target).

(* The converter is an OBJECT: the TensorFrame it returns shares the converter's _col_names_dict, and _merge_feat
   rewrites that dict in place.  A call therefore also produces the converter's next state: the merged dict. *)
Definition converter_call (enc : rawcol -> option encoded) (target : option name) (cols : list (name * rawcol))
  (state : sdict (list name)) : option (tensor_frame * sdict (list name)) :=
  t <- convert_from enc target cols state ;; Some (t, tf_names t).

(* k successive calls on the same frame, starting from `state`: the frames returned, in order *)
Fixpoint converter_calls (enc : rawcol -> option encoded) (target : option name) (cols : list (name * rawcol))
  (k : nat) (state : sdict (list name)) : option (list tensor_frame) :=
  match k with
  | O => Some []
  | S k' =>
      r <- converter_call enc target cols state ;;
      rest <- converter_calls enc target cols k' (snd r) ;;
      Some (fst r :: rest)
  end.

Definition convert {L} (leqb : L -> L -> bool) (target : option name) (df : frame L) : option tensor_frame :=
  convert_with (encode_col leqb (f_index df)) target (f_cols df).

(* ------------------------------------------------------------------------- *)
(* reading the frame the way a user does: tf.feat_dict[stype][i, j] *)
Definition rows_of (n : nat) (cols : list (list ecell)) : list (list ecell) :=
  map (fun i => map (fun c => nth i c []) cols) (seq 0 n).

(* ------------------------------------------------------------------------- *)
(* Dataset.num_classes: len(col_stats[target][COUNT][0]), assert > 1;
   Dataset.task_type *)
Definition num_classes (target : rawcol) : option nat :=
  match target with
  | RCat cats _ => if 1 <? length cats then Some (length cats) else None          (* assert num_classes > 1 *)
  | _ => None                                                                      (* ValueError: no COUNT statistic *)
  end.

Definition task_type_of (target : rawcol) : option task_type :=
  match rawcol_stype target with
  | st_categorical =>
      n <- num_classes target ;;
      Some (if n =? 2 then task_BINARY_CLASSIFICATION else task_MULTICLASS_CLASSIFICATION)
  | st_numerical => Some task_REGRESSION
  | _ => None                                                                      (* ValueError *)
  end.

(* Dataset._update_col_stats: EMB_DIM of the i-th name of the merged embedding
   group is offset[i+1] - offset[i], the width of that column *)
Definition column_width (col : list ecell) : nat := match col with [] => 0 | c :: _ => length c end.
Definition update_emb_dims (t : tensor_frame) : list (name * nat) :=
  match sd_get (tf_feats t) st_embedding, sd_get (tf_names t) st_embedding with
  | Some (FCols cols), Some names => combine names (map column_width cols)
  | _, _ => []
  end.
