(* Histories as a tree (C09): operations are applied to ANY earlier dataset, not
   only to the latest one.  The store is the list of all datasets created so
   far (None = the operation raised).  Every operation appends its result; the
   only operation that updates an existing entry is `materialize`, which in the
   Python mutates its receiver and returns it.  Also: the observations the
   correspondence compares with the implementation.  Definitions only. *)
From Coq Require Import ZArith List Bool String.
From Coq Require Import PrimFloat.
From PF Require Import Lib.ListX Lib.PySlice Model.Dataset Model.Split.
Import ListNotations.

Inductive tstep :=
| TOp (p : nat) (o : op)     (* store[p].op(...) *)
| TReadTF (p : nat)          (* store[p].tensor_frame *)
| TReadStats (p : nat).      (* store[p].col_stats *)

(* what a user can see of a dataset: per df row (index label, row id, split value
   if the frame still has the split column), the TensorFrame's row ids (None =
   `.tensor_frame` raises), df.columns, the col_to_stype keys, is_materialized *)
Inductive obs :=
| OErr
| ONode (rows : list (lbl * nat * option Z)) (t : option (list nat)) (dfc sc : list string) (mat : bool)
| OTF (t : list nat)
| OOk.

Definition has_split_col (d : ds) : bool :=
  match split_col d with Some sc => mem_str sc (df_cols d) | None => false end.

Definition observe (d : ds) : obs :=
  ONode (map (fun r => (label r, rid r, if has_split_col d then Some (split r) else None)) (df d))
        (tensor_frame d) (df_cols d) (stype_cols d) (materialized d).

Fixpoint set_nth {A} (l : list A) (k : nat) (x : A) : list A :=
  match l, k with
  | [], _ => []
  | _ :: r, O => x :: r
  | y :: r, S k' => y :: set_nth r k' x
  end.

Definition lookup (store : list (option ds)) (p : nat) : option ds :=
  match nth_error store p with Some (Some d) => Some d | _ => None end.

Definition tree_step (store : list (option ds)) (s : tstep) : list (option ds) * obs :=
  match s with
  | TOp p OMaterialize =>
      match lookup store p with
      | Some d => match materialize d with
                  | Some d' => (set_nth store p (Some d'), observe d')
                  | None => (store, OErr)
                  end
      | None => (store, OErr)
      end
  | TOp p o =>
      match lookup store p with
      | Some d => let r := step d o in
                  (store ++ [r], match r with Some d' => observe d' | None => OErr end)
      | None => (store ++ [None], OErr)
      end
  | TReadTF p =>
      (store, match obind (lookup store p) tensor_frame with Some t => OTF t | None => OErr end)
  | TReadStats p =>
      (store, match obind (lookup store p) col_stats with Some _ => OOk | None => OErr end)
  end.

Fixpoint tree_run (store : list (option ds)) (prog : list tstep) : list (option ds) * list obs :=
  match prog with
  | [] => (store, [])
  | s :: r =>
      let '(store', o) := tree_step store s in
      let '(store'', os) := tree_run store' r in
      (store'', o :: os)
  end.

(* ---- decidable equality of observations (correspondence only) ---- *)
Definition lbl_eqb (a b : lbl) : bool :=
  match a, b with
  | LInt x, LInt y => Z.eqb x y
  | LStr x, LStr y => String.eqb x y
  | _, _ => false
  end.

Fixpoint list_eqb {A} (e : A -> A -> bool) (a b : list A) : bool :=
  match a, b with
  | [], [] => true
  | x :: a', y :: b' => e x y && list_eqb e a' b'
  | _, _ => false
  end.

Definition opt_eqb {A} (e : A -> A -> bool) (a b : option A) : bool :=
  match a, b with
  | None, None => true
  | Some x, Some y => e x y
  | _, _ => false
  end.

Definition orow_eqb (a b : lbl * nat * option Z) : bool :=
  let '(l1, r1, s1) := a in
  let '(l2, r2, s2) := b in
  lbl_eqb l1 l2 && Nat.eqb r1 r2 && opt_eqb Z.eqb s1 s2.

Definition obs_eqb (a b : obs) : bool :=
  match a, b with
  | OErr, OErr => true
  | OOk, OOk => true
  | OTF x, OTF y => list_eqb Nat.eqb x y
  | ONode r1 t1 c1 s1 m1, ONode r2 t2 c2 s2 m2 =>
      list_eqb orow_eqb r1 r2 && opt_eqb (list_eqb Nat.eqb) t1 t2
      && list_eqb String.eqb c1 c2 && list_eqb String.eqb s1 s2 && Bool.eqb m1 m2
  | _, _ => false
  end.

(* a fresh, unmaterialized dataset as the harness builds it *)
Definition fresh (rows : list row) (dfc sc : list string) (target : option string) (splitc : option string) : ds :=
  mkDs rows dfc sc target splitc false None.

Definition run_case (d0 : ds) (prog : list tstep) (expected : list obs) : bool :=
  list_eqb obs_eqb (snd (tree_run [Some d0] prog)) expected.

(* generate_random_split with numpy's arrangement for (seed, n) supplied by the harness *)
Definition split_case (perm : list Z) (n : Z) (seed : Z) (tr vr : float) (include_test : bool)
    (expected : option (list Z)) : bool :=
  opt_eqb (list_eqb Z.eqb)
    (generate_random_split (fun _ _ => map Z.to_nat perm) (Z.to_nat n) seed tr vr include_test) expected.
