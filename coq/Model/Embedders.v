(* C16 — executable model of how user text embedders, image embedders and text
   tokenizers are called (torch_frame/data/mapper.py: EmbeddingTensorMapper.forward
   with an embedder, TextTokenizationTensorMapper.forward, and the per-column
   wiring of DataFrameToTensorFrameConverter._get_mapper).  Definitions only.

   The user callable is a Section variable.  Every model function is written in
   "invocation" style: the list of argument lists it passes to the callable is
   the projection of the very list of invocations whose results it assembles, so
   "what the callable received" and "what was assembled" cannot drift apart. *)
From Coq Require Import List Arith Bool String.
From PF Require Import Lib.ListX Lib.Chunks Lib.PySlice.
Import ListNotations.
Local Open Scope string_scope.

(* a raw cell of a text / image-path column as `ser.tolist()` yields it *)
Inductive cell :=
| CStr (s : string)
| CNone                      (* Python None (object dtype) *)
| CNaN                       (* float NaN (np.nan, float('nan'), or any missing value of pandas' str dtype) *)
| CNA.                       (* pandas.NA (object dtype) *)

(* str(x) *)
Definition render (c : cell) : string :=
  match c with
  | CStr s => s
  | CNone => "None"
  | CNaN => "nan"
  | CNA => "<NA>"
  end.

(* pandas (modelled primitive): what Series.tolist() yields for a raw cell held
   in an `object` column resp. in a column of the native `str` dtype, which
   stores every missing value as NaN, resp. of the `string` dtype, which stores it as pd.NA *)
Inductive pd_dtype := DObject | DStr | DStringNA.   (* object, "str" (NaN-backed), "string" (pd.NA-backed) *)
Definition series_cell (d : pd_dtype) (c : cell) : cell :=
  match d, c with
  | DStr, CStr s => CStr s
  | DStr, _ => CNaN
  | DStringNA, CStr s => CStr s
  | DStringNA, _ => CNA
  | DObject, c => c
  end.
Definition series_tolist (d : pd_dtype) (raw : list cell) : list cell := map (series_cell d) raw.

(* ser_list = [str(x) for x in ser.tolist()] *)
Definition ser_list (cells : list cell) : list string := map render cells.

(* the mini-batch loop of both mappers, as written:
       for i in range(0, len(ser_list), batch_size):  ... ser_list[i:i + batch_size]
   `range_up 0 n k` is Python's range(0, n, k) (Lib/PySlice.v), `tslice` is list slicing.
   batch_size = 0: Python's range() raises ValueError before any call is made; here the
   range is empty, i.e. no call either, and both forward functions below then return None
   (torch_cat0 [] / hd_error []), which is the raise.
   That this loop produces the consecutive chunks of at most batch_size is a THEOREM
   (Proofs/EmbeddersProofs.v batch_slices_chunks), not the definition. *)
Definition batch_slices {A} (k : nat) (l : list A) : list (list A) :=
  map (fun i => tslice l i (i + k)) (range_up 0 (List.length l) k).

(* the argument lists: everything at once when batch_size is None, else the loop above *)
Definition arg_lists (batch_size : option nat) (cells : list cell) : list (list string) :=
  match batch_size with
  | None => [ser_list cells]
  | Some k => batch_slices k (ser_list cells)
  end.

(* torch.cat(list, dim=0): RuntimeError on an empty list *)
Definition torch_cat0 {A} (ts : list (list A)) : option (list A) :=
  match ts with [] => None | _ => Some (List.concat ts) end.

(* ------------------------------------------------------------------ *)
Section Embedding.
  Context {V : Type}.                          (* one row of the 2-D tensor the embedder returns *)
  Variable embedder : list string -> list V.   (* text embedder, or ImageEmbedder.__call__ on paths *)

  (* every call made by forward, as (arguments, result) *)
  Definition emb_invocations (batch_size : option nat) (cells : list cell) : list (list string * list V) :=
    map (fun a => (a, embedder a)) (arg_lists batch_size cells).

  (* what the callable received, call by call *)
  Definition emb_calls (batch_size : option nat) (cells : list cell) : list (list string) :=
    map fst (emb_invocations batch_size cells).

  (* EmbeddingTensorMapper.forward (embedder given):
       values = embedder(ser_list)                       if batch_size is None
              = torch.cat([embedder(chunk) ...], dim=0)  otherwise
       MultiEmbeddingTensor(num_rows=len(ser), num_cols=1, values, offset=[0, len(values[0])])
     `values[0]` raises IndexError on a tensor without rows.  Result: (num_rows, rows of values). *)
  Definition emb_forward (batch_size : option nat) (cells : list cell) : option (nat * list V) :=
    let outs := map snd (emb_invocations batch_size cells) in
    values <- match batch_size with
              | None => hd_error outs
              | Some _ => torch_cat0 outs
              end ;;
    match values with
    | [] => None
    | _ => Some (List.length cells, values)
    end.
End Embedding.

(* ------------------------------------------------------------------ *)
(* config/image_embedder.py: the public ImageEmbedder base class.
     def forward_retrieve(self, path_to_images):
         for path in path_to_images: image = Image.open(path); images.append(image.copy()); image.close()
         return [image.convert('RGB') for image in images]
     def __call__(self, path_to_images): return self.forward_embed(self.forward_retrieve(path_to_images))
   Image.open raises (OSError family) for a path that cannot be opened as an image and nothing
   catches it: one image per path, in order, or the whole call raises. *)
Section ImageRetrieval.
  Context {Img V : Type}.
  Variable open_image : string -> option Img.        (* Image.open(p).copy().convert('RGB'); None = raises *)
  Variable forward_embed : list Img -> list V.       (* the user's part *)

  Definition forward_retrieve (paths : list string) : option (list Img) := mapM open_image paths.

  Definition image_call (paths : list string) : option (list V) :=
    imgs <- forward_retrieve paths ;; Some (forward_embed imgs).
End ImageRetrieval.

(* EmbeddingTensorMapper.forward with a callable that may raise: the loop stops at the first call that
   raises and the exception propagates *)
Section RaisingEmbedder.
  Context {V : Type}.
  Variable f : list string -> option (list V).

  (* the calls actually made: up to and including the first one that raises *)
  Fixpoint calls_until_raise (args : list (list string)) : list (list string) :=
    match args with
    | [] => []
    | a :: r => match f a with Some _ => a :: calls_until_raise r | None => [a] end
    end.

  Definition emb_calls_raising (batch_size : option nat) (cells : list cell) : list (list string) :=
    calls_until_raise (arg_lists batch_size cells).

  Definition emb_forward_raising (batch_size : option nat) (cells : list cell) : option (nat * list V) :=
    outs <- mapM f (arg_lists batch_size cells) ;;
    values <- match batch_size with
              | None => hd_error outs
              | Some _ => torch_cat0 outs
              end ;;
    match values with
    | [] => None
    | _ => Some (List.length cells, values)
    end.
End RaisingEmbedder.

(* ------------------------------------------------------------------ *)
Section Tokenizer.
  Context {K T : Type}.                 (* mapping key; a 1-D token tensor *)
  Variable key_eqb : K -> K -> bool.

  (* TextTokenizationOutputs *)
  Inductive tok_out :=
  | OutMap (m : list (K * list T))          (* one mapping: key -> 2-D tensor, given by its rows *)
  | OutList (l : list (list (K * T))).      (* a list of per-sentence mappings: key -> 1-D tensor *)

  Variable tokenizer : list string -> tok_out.

  (* d[key]: KeyError = None *)
  Fixpoint lookup {X} (k : K) (m : list (K * X)) : option X :=
    match m with
    | [] => None
    | (k', x) :: r => if key_eqb k k' then Some x else lookup k r
    end.

  (* MultiNestedTensor.from_tensor_mat([[t] for t in ts]): a one-column container
     given by its cells; IndexError (tensor_mat[0]) on an empty matrix *)
  Definition mnt_column (ts : list T) : option (list T) :=
    match ts with [] => None | _ => Some ts end.

  Definition tok_invocations (batch_size : option nat) (cells : list cell) : list (list string * tok_out) :=
    map (fun a => (a, tokenizer a)) (arg_lists batch_size cells).

  Definition tok_calls (batch_size : option nat) (cells : list cell) : list (list string) :=
    map fst (tok_invocations batch_size cells).

  (* batch_size is None, the callable returned a Mapping *)
  Definition assemble_unbatched_map (m : list (K * list T)) : option (list (K * list T)) :=
    mapM (fun key => tensors <- lookup key m ;; col <- mnt_column tensors ;; Some (key, col)) (map fst m).

  (* batch_size is None, the callable returned a list of mappings: keys of the first one *)
  Definition assemble_unbatched_list (l : list (list (K * T))) : option (list (K * list T)) :=
    d0 <- hd_error l ;;
    mapM (fun key => xs <- mapM (lookup key) l ;; col <- mnt_column xs ;; Some (key, col)) (map fst d0).

  (* batched, first batch is a Mapping: xs.extend(rows of tokenized_batch[key]) over the batches;
     indexing a list-format batch with a key is a TypeError *)
  Definition assemble_batched_map (outs : list tok_out) (m0 : list (K * list T)) : option (list (K * list T)) :=
    mapM (fun key =>
            xss <- mapM (fun o => match o with OutMap m => lookup key m | OutList _ => None end) outs ;;
            col <- mnt_column (List.concat xss) ;; Some (key, col))
         (map fst m0).

  (* batched, first batch is a list: keys of its first mapping; iterating a Mapping-format batch
     yields keys, which cannot be indexed by a key (TypeError) *)
  Definition assemble_batched_list (outs : list tok_out) (l0 : list (list (K * T))) : option (list (K * list T)) :=
    d0 <- hd_error l0 ;;
    mapM (fun key =>
            xss <- mapM (fun o => match o with OutList l => mapM (lookup key) l | OutMap _ => None end) outs ;;
            col <- mnt_column (List.concat xss) ;; Some (key, col))
         (map fst d0).

  (* TextTokenizationTensorMapper.forward: key -> cells of the n x 1 MultiNestedTensor *)
  Definition tok_forward (batch_size : option nat) (cells : list cell) : option (list (K * list T)) :=
    let outs := map snd (tok_invocations batch_size cells) in
    match batch_size with
    | None =>
        o <- hd_error outs ;;
        match o with
        | OutMap m => assemble_unbatched_map m
        | OutList l => assemble_unbatched_list l
        end
    | Some _ =>
        o0 <- hd_error outs ;;                 (* tokenized_outputs[0]: IndexError when there was no batch *)
        match o0 with
        | OutMap m0 => assemble_batched_map outs m0
        | OutList l0 => assemble_batched_list outs l0
        end
    end.
End Tokenizer.

Arguments tok_out : clear implicits.

(* ------------------------------------------------------------------ *)
(* DataFrameToTensorFrameConverter._get_mapper for text_embedded / image_embedded /
   text_tokenized columns: the configuration (callable, batch_size) is looked up
   by column name (KeyError = None) *)
Section Wiring.
  Context {F : Type}.                              (* a callable *)
  Definition cfg := (F * option nat)%type.         (* TextEmbedderConfig / ImageEmbedderConfig / TextTokenizerConfig *)

  Fixpoint cfg_lookup (col : string) (cfgs : list (string * cfg)) : option cfg :=
    match cfgs with
    | [] => None
    | (c, x) :: r => if String.eqb col c then Some x else cfg_lookup col r
    end.

  (* canonicalize_col_to_pattern: one configuration given for all columns of the stype *)
  Definition cfg_broadcast (cols : list string) (x : cfg) : list (string * cfg) := map (fun c => (c, x)) cols.
End Wiring.

(* ------------------------------------------------------------------ *)
(* Instances used by the correspondence run (harness/c16.py).  The recording
   stubs are deterministic, so on the finitely many argument lists of a case a
   stub is the finite table (arguments -> output) shipped by the harness; an
   argument list outside the table yields the `dflt` marker. *)
From Coq Require Import ZArith.

Fixpoint list_eqb {A} (eqb : A -> A -> bool) (a b : list A) : bool :=
  match a, b with
  | [], [] => true
  | x :: a', y :: b' => eqb x y && list_eqb eqb a' b'
  | _, _ => false
  end.

Fixpoint table_fun {O} (tbl : list (list string * O)) (dflt : O) (xs : list string) : O :=
  match tbl with
  | [] => dflt
  | (a, o) :: r => if list_eqb String.eqb a xs then o else table_fun r dflt xs
  end.

Definition opt_eqb {A} (eqb : A -> A -> bool) (a b : option A) : bool :=
  match a, b with
  | None, None => true
  | Some x, Some y => eqb x y
  | _, _ => false
  end.

Definition vec := list Z.      (* an embedding row / a token tensor, dyadic values shipped as exact integers *)
Definition vec_eqb : vec -> vec -> bool := list_eqb Z.eqb.

Definition emb_table := list (list string * list vec).
Definition tok_table := list (list string * tok_out string vec).

(* one embedded column through the converter wiring: (calls, result) *)
Definition c16_emb_col (cfgs : list (string * (@cfg emb_table))) (col : string) (d : pd_dtype) (raw : list cell)
  : option (list (list string) * option (nat * list vec)) :=
  c <- cfg_lookup col cfgs ;;
  let f := table_fun (fst c) [[(-999)%Z]] in
  let cells := series_tolist d raw in
  Some (emb_calls f (snd c) cells, emb_forward f (snd c) cells).

(* one image column served by a subclass that relies on the default retrieval: `files` maps a path to
   the id its pixels encode (None = cannot be opened); forward_embed maps image id k to the row
   [((k+1)*4 + t) * scale | t < w] *)
Fixpoint file_lookup (files : list (string * option nat)) (p : string) : option nat :=
  match files with
  | [] => None
  | (q, r) :: rest => if String.eqb p q then r else file_lookup rest p
  end.

Definition img_row (w : nat) (scale : Z) (k : nat) : vec :=
  map (fun t => (Z.of_nat ((k + 1) * 4 + t) * scale)%Z) (seq 0 w).

Definition c16_img_col (files : list (string * option nat)) (w : nat) (scale : Z) (bs : option nat)
  (d : pd_dtype) (raw : list cell) : option (list (list string) * option (nat * list vec)) :=
  let f := image_call (file_lookup files) (map (img_row w scale)) in
  let cells := series_tolist d raw in
  Some (emb_calls_raising f bs cells, emb_forward_raising f bs cells).

Definition c16_emb_obs_eqb (a b : option (list (list string) * option (nat * list vec))) : bool :=
  opt_eqb (fun x y =>
             list_eqb (list_eqb String.eqb) (fst x) (fst y) &&
             opt_eqb (fun u v => Nat.eqb (fst u) (fst v) && list_eqb vec_eqb (snd u) (snd v)) (snd x) (snd y)) a b.

(* one tokenized column: (calls, key -> cells) *)
Definition c16_tok_col (cfgs : list (string * (@cfg tok_table))) (col : string) (d : pd_dtype) (raw : list cell)
  : option (list (list string) * option (list (string * list vec))) :=
  c <- cfg_lookup col cfgs ;;
  let f := table_fun (fst c) (OutList [[("?", [(-999)%Z])]]) in
  let cells := series_tolist d raw in
  Some (tok_calls f (snd c) cells, tok_forward String.eqb f (snd c) cells).

(* key order of a Python dict is not part of the observation: compare by lookup *)
Definition dict_eqb (a b : list (string * list vec)) : bool :=
  Nat.eqb (List.length a) (List.length b) &&
  forallb (fun kv => opt_eqb (list_eqb vec_eqb) (lookup String.eqb (fst kv) b) (Some (snd kv))) a.

Definition c16_tok_obs_eqb (a b : option (list (list string) * option (list (string * list vec)))) : bool :=
  opt_eqb (fun x y =>
             list_eqb (list_eqb String.eqb) (fst x) (fst y) &&
             opt_eqb dict_eqb (snd x) (snd y)) a b.
