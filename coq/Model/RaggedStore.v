(* Store-level model of the C06 operations: which tensor storage every container
   object reads and which storage an operation writes.

   The pure models (Model/Ragged.v, Model/RaggedCat.v) say WHAT a result
   contains.  This file adds WHERE it lives: `values` tensors are views into
   numbered storages, so that "clone shares no storage", "cat does not modify its
   arguments" and "fillna_col writes through exactly the window of its object"
   become statements about a store, and aliasing (a step-1 row slice of either
   container, a column slice or a single row/column of a MultiEmbeddingTensor are
   VIEWS; narrow over the whole axis, a one-element MultiEmbeddingTensor.cat and a
   one-element torch_frame.cat return THE SAME object; everything else allocates)
   is part of the model and compared with the real library on every run.

   Offset tensors are never written after creation by any operation in scope
   (cat writes only the offset tensor it has just allocated), so they stay
   values inside the object.  Definitions only. *)
From Coq Require Import ZArith List Bool Arith.
From PF Require Import Lib.ListX Lib.PySlice Model.Ragged Model.RaggedRun Model.RaggedCat.
Import ListNotations.

(* ---------------------------------------------------------------------- *)
(* a store of buffers and objects that view one buffer each *)
Section Generic.
  Variables Buf H T : Type.
  Variable hbuf : H -> nat.                       (* the storage an object's values live in *)
  Variable view : H -> Buf -> option T.           (* what the object reads from that storage *)

  Definition g_read (st : list Buf) (h : H) : option T :=
    b <- nth_error st (hbuf h) ;; view h b.

  (* st[k] := b *)
  Definition g_update (st : list Buf) (k : nat) (b : Buf) : list Buf :=
    firstn k st ++ b :: skipn (S k) st.

  (* a fresh storage *)
  Definition g_alloc (st : list Buf) (b : Buf) : list Buf * nat := (st ++ [b], length st).
End Generic.

Arguments g_read {Buf H T}. Arguments g_update {Buf}. Arguments g_alloc {Buf}.

(* how the result of a selection is stored *)
Inductive placement := PSame | PView (a b : nat) | PFresh.

Section Store.
  Variable A : Type.
  Variable junk_o : nat -> nat.
  Variable junk_v : nat -> A.
  Variable is_na : A -> bool.

  (* ------------------------------------------------------------------ *)
  (* MultiNestedTensor objects: values = storage[vbuf][vstart : vstart + vlen] *)
  Record hmnt := MkHmnt { n_nr : nat; n_nc : nat; n_offs : list nat; n_buf : nat; n_start : nat; n_len : nat }.

  Definition n_view (h : hmnt) (b : list A) : option (mnt A) :=
    if n_start h + n_len h <=? length b
    then Some (MkMnt (n_nr h) (n_nc h) (tslice b (n_start h) (n_start h + n_len h)) (n_offs h)) else None.
  Definition n_read := g_read n_buf n_view.

  (* an object owning a fresh storage with the values of t *)
  Definition n_new (st : list (list A)) (t : mnt A) : list (list A) * hmnt :=
    let '(st', k) := g_alloc st (vals t) in
    (st', MkHmnt (nr t) (nc t) (offs t) k 0 (length (vals t))).

  (* self.values[...] = new : writes the window of the object, nothing else *)
  Definition n_write (st : list (list A)) (h : hmnt) (new : list A) : option (list (list A)) :=
    b <- nth_error st (n_buf h) ;;
    if (length new =? n_len h) && (n_start h + n_len h <=? length b)
    then Some (g_update st (n_buf h)
                 (firstn (n_start h) b ++ new ++ skipn (n_start h + n_len h) b))
    else None.

  (* where _MultiTensor.select puts the values of its result (multi_nested_tensor.py):
     int row            -> values[offset[i*nc] : offset[(i+1)*nc]]            view
     step-1 slice       -> narrow: whole axis -> self ; empty -> _empty (fresh)
                           rows -> values[offset[s*nc] : offset[e*nc]]        view
                           columns -> gather                                   fresh
     everything else    -> gather                                              fresh *)
  Definition n_place (t : mnt A) (ix : index) (dim : nat) : placement :=
    let n := if dim =? 0 then nr t else nc t in
    match ix with
    | IInt i =>
        if dim =? 0 then
          match norm_index n i with
          | Some k => PView (nth (k * nc t) (offs t) 0) (nth ((k + 1) * nc t) (offs t) 0)
          | None => PFresh
          end
        else PFresh
    | ISlice a b s =>
        let st := match s with None => 1%Z | Some v => v end in
        if (1 <? st)%Z then PFresh
        else
          let '(lo, hi) := slice_indices n a b in
          if (lo =? 0) && (Z.of_nat n <=? Z.of_nat lo + (Z.of_nat hi - Z.of_nat lo))%Z then PSame
          else if (Z.of_nat hi - Z.of_nat lo <=? 0)%Z then PFresh
          else if dim =? 0 then PView (nth (lo * nc t) (offs t) 0) (nth (hi * nc t) (offs t) 0)
          else PFresh
    | _ => PFresh
    end.

  Definition n_select (st : list (list A)) (h : hmnt) (ix : index) (dim : nat)
    : option (list (list A) * hmnt) :=
    t <- n_read st h ;;
    r <- select A _ (mnt_kernels A) t ix dim ;;
    match n_place t ix dim with
    | PSame => Some (st, h)
    | PView a b => Some (st, MkHmnt (nr r) (nc r) (offs r) (n_buf h) (n_start h + a) (b - a))
    | PFresh => Some (n_new st r)
    end.

  Definition n_from_mat (st : list (list A)) (m : list (list (list A))) : option (list (list A) * hmnt) :=
    t <- mnt_from_mat A m ;; Some (n_new st t).

  (* clone(): values.clone(), offset.clone() *)
  Definition n_clone (st : list (list A)) (h : hmnt) : option (list (list A) * hmnt) :=
    t <- n_read st h ;; r <- mnt_clone A t ;; Some (n_new st r).

  (* MultiNestedTensor.cat always allocates; torch_frame.cat returns td_list[0] itself for one element *)
  Definition n_cat (st : list (list A)) (hs : list hmnt) (dim : Z) (via_tf : bool)
    : option (list (list A) * hmnt) :=
    ts <- mapM (n_read st) hs ;;
    match hs, via_tf with
    | [h], true => Some (st, h)
    | _, _ =>
        r <- (if via_tf then x <- cat_tensor_data A junk_o junk_v (map TMnt ts) dim ;; as_mnt A x
              else mnt_cat A junk_o junk_v ts dim) ;;
        Some (n_new st r)
    end.

  (* fillna_col: in place *)
  Definition n_fill (st : list (list A)) (h : hmnt) (j : nat) (fill : A) : option (list (list A)) :=
    t <- n_read st h ;;
    r <- mnt_fillna_col A is_na t j fill ;;
    n_write st h (vals r).

  (* ------------------------------------------------------------------ *)
  (* MultiEmbeddingTensor objects: values = storage[ebuf][r0 : r0 + nr, c0 : c0 + w]
     (a storage is a 2-D tensor, kept as its rows) *)
  Record hmet := MkHmet { e_nr : nat; e_nc : nat; e_offs : list nat; e_buf : nat; e_r0 : nat; e_c0 : nat; e_w : nat }.

  Definition e_view (h : hmet) (b : list (list A)) : option (met A) :=
    if (e_r0 h + e_nr h <=? length b)
       && forallb (fun row => e_c0 h + e_w h <=? length row) (tslice b (e_r0 h) (e_r0 h + e_nr h))
    then Some (MkMet (e_nr h) (e_nc h)
                     (MkT2 (map (fun row => tslice row (e_c0 h) (e_c0 h + e_w h))
                                (tslice b (e_r0 h) (e_r0 h + e_nr h))) (e_w h))
                     (e_offs h))
    else None.
  Definition e_read := g_read e_buf e_view.

  Definition e_new (st : list (list (list A))) (t : met A) : list (list (list A)) * hmet :=
    let '(st', k) := g_alloc st (t2rows (evals t)) in
    (st', MkHmet (er t) (ec t) (eoffs t) k 0 0 (t2w (evals t))).

  Definition e_write (st : list (list (list A))) (h : hmet) (new : list (list A))
    : option (list (list (list A))) :=
    b <- nth_error st (e_buf h) ;;
    let old := tslice b (e_r0 h) (e_r0 h + e_nr h) in
    if (length new =? e_nr h) && (e_r0 h + e_nr h <=? length b)
       && forallb (fun row => e_c0 h + e_w h <=? length row) old
       && forallb (fun row => length row =? e_w h) new
    then Some (g_update st (e_buf h)
                 (firstn (e_r0 h) b
                  ++ map (fun p => firstn (e_c0 h) (fst p) ++ snd p ++ skipn (e_c0 h + e_w h) (fst p)) (combine old new)
                  ++ skipn (e_r0 h + e_nr h) b))
    else None.

  (* multi_embedding_tensor.py:
     int row     -> values[i].view(1, -1)            view ;  int column -> values[:, o_j : o_j+1] view
     step-1 slice -> narrow: whole -> self ; empty -> _empty (fresh) ;
                     rows -> values[s : e] view ; columns -> values[:, offset[s] : offset[e]] view
     everything else -> advanced indexing, fresh                                             *)
  Inductive eplacement := ESame | ERows (a b : nat) | ECols (a b : nat) | EFresh.

  Definition e_place (t : met A) (ix : index) (dim : nat) : eplacement :=
    let n := if dim =? 0 then er t else ec t in
    match ix with
    | IInt i =>
        match norm_index n i with
        | Some k => if dim =? 0 then ERows k (k + 1)
                    else ECols (nth k (eoffs t) 0) (nth (k + 1) (eoffs t) 0)
        | None => EFresh
        end
    | ISlice a b s =>
        let st := match s with None => 1%Z | Some v => v end in
        if (1 <? st)%Z then EFresh
        else
          let '(lo, hi) := slice_indices n a b in
          if (lo =? 0) && (Z.of_nat n <=? Z.of_nat lo + (Z.of_nat hi - Z.of_nat lo))%Z then ESame
          else if (Z.of_nat hi - Z.of_nat lo <=? 0)%Z then EFresh
          else if dim =? 0 then ERows lo hi
          else ECols (nth lo (eoffs t) 0) (nth hi (eoffs t) 0)
    | _ => EFresh
    end.

  Definition e_select (st : list (list (list A))) (h : hmet) (ix : index) (dim : nat)
    : option (list (list (list A)) * hmet) :=
    t <- e_read st h ;;
    r <- select A _ (met_kernels A) t ix dim ;;
    match e_place t ix dim with
    | ESame => Some (st, h)
    | ERows a b => Some (st, MkHmet (er r) (ec r) (eoffs r) (e_buf h) (e_r0 h + a) (e_c0 h) (e_w h))
    | ECols a b => Some (st, MkHmet (er r) (ec r) (eoffs r) (e_buf h) (e_r0 h) (e_c0 h + a) (b - a))
    | EFresh => Some (e_new st r)
    end.

  Definition e_from_cells (st : list (list (list A))) (m : list (list (list A)))
    : option (list (list (list A)) * hmet) :=
    t <- met_from_cells A m ;; Some (e_new st t).

  Definition e_clone (st : list (list (list A))) (h : hmet) : option (list (list (list A)) * hmet) :=
    t <- e_read st h ;; r <- met_clone A t ;; Some (e_new st r).

  (* MultiEmbeddingTensor.cat and torch_frame.cat return the only element itself *)
  Definition e_cat (st : list (list (list A))) (hs : list hmet) (dim : Z) (via_tf : bool)
    : option (list (list (list A)) * hmet) :=
    ts <- mapM (e_read st) hs ;;
    match hs with
    | [h] => if via_tf then Some (st, h) else (_ <- met_cat A ts dim ;; Some (st, h))
    | _ =>
        r <- (if via_tf then x <- cat_tensor_data A junk_o junk_v (map TMet ts) dim ;; as_met A x
              else met_cat A ts dim) ;;
        Some (e_new st r)
    end.

  Definition e_fill (st : list (list (list A))) (h : hmet) (j : nat) (fill : A)
    : option (list (list (list A))) :=
    t <- e_read st h ;;
    r <- met_fillna_col A is_na t j fill ;;
    e_write st h (t2rows (evals r)).
End Store.



(* ====================================================================== *)
(* programs over named objects: every statement binds the next variable *)
Inductive stmt :=
| PBase (m : list (list cell))
| PSel (v : nat) (dim : nat) (ix : index)
| PClone (v : nat)
| PCat (vs : list nat) (dim : Z) (via_tf : bool)
| PFill (v : nat) (j : nat) (x : payload).      (* in place; the new variable is the same object *)

Section Programs.
  Variable is_na : payload -> bool.

  Definition n_step (s : list (list payload) * list hmnt) (c : stmt)
    : option (list (list payload) * list hmnt) :=
    let '(st, env) := s in
    match c with
    | PBase m => r <- n_from_mat payload st m ;; Some (fst r, env ++ [snd r])
    | PSel v d ix => h <- nth_error env v ;; r <- n_select payload st h ix d ;; Some (fst r, env ++ [snd r])
    | PClone v => h <- nth_error env v ;; r <- n_clone payload st h ;; Some (fst r, env ++ [snd r])
    | PCat vs d tf => hs <- mapM (nth_error env) vs ;;
                      r <- n_cat payload junk0 junkp st hs d tf ;; Some (fst r, env ++ [snd r])
    | PFill v j x => h <- nth_error env v ;; st' <- n_fill payload is_na st h j x ;; Some (st', env ++ [h])
    end.

  Definition e_step (s : list (list (list payload)) * list hmet) (c : stmt)
    : option (list (list (list payload)) * list hmet) :=
    let '(st, env) := s in
    match c with
    | PBase m => r <- e_from_cells payload st m ;; Some (fst r, env ++ [snd r])
    | PSel v d ix => h <- nth_error env v ;; r <- e_select payload st h ix d ;; Some (fst r, env ++ [snd r])
    | PClone v => h <- nth_error env v ;; r <- e_clone payload st h ;; Some (fst r, env ++ [snd r])
    | PCat vs d tf => hs <- mapM (nth_error env) vs ;;
                      r <- e_cat payload junk0 junkp st hs d tf ;; Some (fst r, env ++ [snd r])
    | PFill v j x => h <- nth_error env v ;; st' <- e_fill payload is_na st h j x ;; Some (st', env ++ [h])
    end.

  Fixpoint run_steps {S} (step : S -> stmt -> option S) (s : S) (p : list stmt) : option S :=
    match p with
    | [] => Some s
    | c :: rest => match step s c with Some s' => run_steps step s' rest | None => None end
    end.

  (* what the harness sees after the whole program: the cells of every variable *)
  Definition n_observe (p : list stmt) : option (list cobs) :=
    s <- run_steps n_step ([], []) p ;;
    Some (map (fun h => cobs_of (mnt_kernels payload) (n_read payload (fst s) h)) (snd s)).
  Definition e_observe (p : list stmt) : option (list cobs) :=
    s <- run_steps e_step ([], []) p ;;
    Some (map (fun h => cobs_of (met_kernels payload) (e_read payload (fst s) h)) (snd s)).
End Programs.

Definition obs_list_eqb (a b : option (list cobs)) : bool :=
  match a, b with
  | None, None => true
  | Some x, Some y => list_eqb cobs_eqb x y
  | _, _ => false
  end.
Definition case_store_mnt (is_na : payload -> bool) (p : list stmt) (seen : option (list cobs)) : bool :=
  obs_list_eqb (n_observe is_na p) seen.
Definition case_store_met (is_na : payload -> bool) (p : list stmt) (seen : option (list cobs)) : bool :=
  obs_list_eqb (e_observe is_na p) seen.
