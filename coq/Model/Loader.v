(* C10 — executable model of torch_frame/data/loader.py (DataLoader), definitions only.

   The repository's own code is 20 lines:

     def __init__(self, dataset, *args, **kwargs):
         kwargs.pop('collate_fn', None)
         if isinstance(dataset, Dataset):
             self.tensor_frame = dataset.materialize().tensor_frame
         else:
             self.tensor_frame = dataset
         super().__init__(range(len(dataset)), *args, collate_fn=self.collate_fn, **kwargs)

     def collate_fn(self, index):
         return self.tensor_frame[index]

   Everything else is torch.utils.data.DataLoader, which appears here as modelled
   primitives: SequentialSampler = seq 0 n, RandomSampler = a caller-supplied
   order (assumed to be a permutation only in the theorems), a user sampler = an
   arbitrary index list, BatchSampler = Chunks.chunks (+ drop_short when
   drop_last), a user batch_sampler = an arbitrary list of index lists.

   A frame is the list of its rows (row type R abstract: C07 is the property
   about what a row of a TensorFrame is); tensor_frame[index] for a list of
   non-negative ints is ListX.tgather (IndexError = None). *)
From Coq Require Import List Arith Bool.
From PF Require Import Lib.ListX Lib.Chunks.
Import ListNotations.

Section Loader.
  Context {R DF : Type}.

  (* DataFrameToTensorFrameConverter (C01): opaque here *)
  Variable convert : DF -> list R.
  (* len(df) *)
  Variable df_len : DF -> nat.

  (* torch_frame.data.Dataset as far as the loader sees it: the frame and the
     cached tensor frame (None = not materialized) *)
  Record dataset := { ds_df : DF; ds_tf : option (list R) }.

  (* Dataset.materialize(): returns self unchanged when already materialized *)
  Definition ds_materialize (ds : dataset) : dataset :=
    match ds_tf ds with
    | Some _ => ds
    | None => {| ds_df := ds_df ds; ds_tf := Some (convert (ds_df ds)) |}
    end.

  (* Dataset.tensor_frame (@requires_post_materialization: raises when not materialized) *)
  Definition ds_tensor_frame (ds : dataset) : option (list R) := ds_tf ds.

  (* Dataset.__len__ = len(self.df) *)
  Definition ds_len (ds : dataset) : nat := df_len (ds_df ds).

  Inductive source :=
  | SrcFrame (tf : list R)          (* a TensorFrame *)
  | SrcDataset (ds : dataset).      (* a Dataset, materialized or not *)

  (* how torch is asked to produce index batches (sampler / shuffle / batch_sampler are
     mutually exclusive by construction; batch_sampler + drop_last is rejected in loader_init) *)
  Inductive sampling :=
  | Sequential                                   (* shuffle=False, no sampler *)
  | Shuffled (order : list nat)                  (* shuffle=True: order drawn by RandomSampler *)
  | Sampler (idx : list nat)                     (* sampler=<iterable of ints> *)
  | BatchSampler (bss : list (list nat)).        (* batch_sampler=<iterable of lists> *)

  (* a collate function: list of row indices -> batch (None = raises) *)
  Definition collate := list nat -> option (list R).

  Record kwargs := {
    kw_batch_size : nat;                 (* >= 1 *)
    kw_sampling : sampling;
    kw_drop_last : bool;
    kw_collate_fn : option collate       (* a user-supplied collate_fn, if any *)
  }.

  (* the loader object after __init__ *)
  Record loader := {
    ld_tensor_frame : list R;            (* self.tensor_frame *)
    ld_n : nat;                          (* len(range(len(dataset))) *)
    ld_batch_size : nat;
    ld_sampling : sampling;
    ld_drop_last : bool
  }.

  (* DataLoader.__init__:
       kwargs.pop('collate_fn', None)            -- the user's collate_fn is popped and never looked at
       isinstance(dataset, Dataset) -> dataset.materialize().tensor_frame
       if len(dataset) == 0:                     -- torch's RandomSampler rejects empty sources
           if kwargs.get('shuffle'): kwargs['shuffle'] = False
           elif len(args) >= 2 and args[1]: args = (args[0], False) + args[2:]
     i.e. a requested shuffle over an empty source becomes no shuffle, whether `shuffle`
     was passed by keyword or positionally (`Shuffled _, 0 => Sequential` below mirrors
     both branches; the harness builds loaders in both forms).
     torch itself (modelled): batch_size <= 0 is a ValueError, and batch_sampler is
     mutually exclusive with drop_last (ValueError). *)
  Definition loader_init (src : source) (kw : kwargs) : option loader :=
    tfn <- match src with
           | SrcFrame tf => Some (tf, length tf)
           | SrcDataset ds =>
               tf <- ds_tensor_frame (ds_materialize ds) ;;
               Some (tf, ds_len ds)
           end ;;
    if (kw_batch_size kw =? 0) then None
    else if (match kw_sampling kw with BatchSampler _ => kw_drop_last kw | _ => false end) then None
    else
      Some {| ld_tensor_frame := fst tfn; ld_n := snd tfn;
              ld_batch_size := kw_batch_size kw;
              ld_sampling := match kw_sampling kw, snd tfn with
                             | Shuffled _, 0 => Sequential
                             | s, _ => s
                             end;
              ld_drop_last := kw_drop_last kw |}.

  (* torch BatchSampler over an index order *)
  Definition loader_batches (n bs : nat) (order : list nat) (drop_last : bool) : list (list nat) :=
    let cs := chunks bs order in
    if drop_last then drop_short bs cs else cs.

  (* the order in which torch's sampler yields row indices *)
  Definition sampling_order (n : nat) (s : sampling) : list nat :=
    match s with
    | Sequential => seq 0 n
    | Shuffled order => order
    | Sampler idx => idx
    | BatchSampler bss => concat bss
    end.

  (* the index lists handed to collate_fn during one epoch *)
  Definition loader_index_batches (ld : loader) : list (list nat) :=
    match ld_sampling ld with
    | BatchSampler bss => bss
    | s => loader_batches (ld_n ld) (ld_batch_size ld) (sampling_order (ld_n ld) s) (ld_drop_last ld)
    end.

  (* DataLoader.collate_fn: self.tensor_frame[index] *)
  Definition loader_collate (ld : loader) (index : list nat) : option (list R) :=
    tgather (ld_tensor_frame ld) index.

  (* list(loader): one epoch; an IndexError in any batch aborts the iteration *)
  Definition loader_epoch (ld : loader) : option (list (list R)) :=
    mapM (loader_collate ld) (loader_index_batches ld).

  (* len(loader) *)
  Definition loader_len (ld : loader) : nat :=
    match ld_sampling ld with
    | BatchSampler bss => length bss
    | s =>
        let m := length (sampling_order (ld_n ld) s) in
        if ld_drop_last ld then m / ld_batch_size ld
        else (m + ld_batch_size ld - 1) / ld_batch_size ld
    end.

  (* DataLoader(src, **kw) followed by list(loader) *)
  Definition run_loader (src : source) (kw : kwargs) : option (list (list R)) :=
    ld <- loader_init src kw ;; loader_epoch ld.
End Loader.

Arguments dataset : clear implicits.
Arguments source : clear implicits.
Arguments kwargs : clear implicits.
Arguments loader : clear implicits.
Arguments collate : clear implicits.

(* ---- instance used by the correspondence run (harness/c10.py): rows are
   content tokens (nat); a DataFrame is the list of the rows its conversion yields *)
Definition c10_run (src : source nat (list nat)) (kw : kwargs nat)
  : option (list (list nat) * nat) :=
  ld <- loader_init (fun df => df) (@length nat) src kw ;;
  bs <- loader_epoch ld ;;
  Some (bs, loader_len ld).

Definition c10_obs_eqb (a b : option (list (list nat) * nat)) : bool :=
  match a, b with
  | None, None => true
  | Some (x, n), Some (y, m) =>
      (n =? m) && (length x =? length y) &&
      forallb (fun p => (length (fst p) =? length (snd p)) &&
                        forallb (fun q => fst q =? snd q) (combine (fst p) (snd p)))
              (combine x y)
  | _, _ => false
  end.
