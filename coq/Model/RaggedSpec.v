(* Spec layer for the ragged containers (C05-C08): a container IS its matrix of
   cells; selections are the Python-list selections of Lib/PySlice.v.
   Definitions only. *)
From Coq Require Import ZArith List Bool Arith.
From PF Require Import Lib.ListX Lib.PySlice Model.Ragged.
Import ListNotations.

Section Spec.
  Variable A : Type.
  Definition cellmat := list (list (list A)).

  (* every row has c cells *)
  Definition rect (c : nat) (m : cellmat) : Prop := Forall (fun r => length r = c) m.
  (* every row has one cell per column, of that column's width *)
  Definition rect_w (ws : list nat) (m : cellmat) : Prop := Forall (fun r => map (@length A) r = ws) m.

  (* canonical representations *)
  Definition mnt_of_cells (c : nat) (m : cellmat) : mnt A :=
    MkMnt (length m) c (concat (concat m)) (0 :: cumsum (map (@length A) (concat m))).
  Definition met_of_cells (ws : list nat) (m : cellmat) : met A :=
    MkMet (length m) (length ws) (MkT2 (map (@concat A) m) (sum ws)) (0 :: cumsum ws).

  (* well-formed = canonical representation of some cell matrix: row/column
     counts, offsets and value storage mutually consistent *)
  Definition mnt_wf (t : mnt A) : Prop := exists m, rect (nc t) m /\ t = mnt_of_cells (nc t) m.
  Definition met_wf (t : met A) : Prop := exists ws m, rect_w ws m /\ t = met_of_cells ws m.

  (* Selection on the plain nested list *)
  Definition pick_rows (pos : list nat) (m : cellmat) : cellmat := map (fun i => nth i m []) pos.
  Definition pick_cols (pos : list nat) (m : cellmat) : cellmat :=
    map (fun r => map (fun j => nth j r []) pos) m.
  Definition pick (dim : nat) (pos : list nat) (m : cellmat) : cellmat :=
    if dim =? 0 then pick_rows pos m else pick_cols pos m.
  Definition pick_ws (dim : nat) (pos : list nat) (ws : list nat) : list nat :=
    if dim =? 0 then ws else map (fun j => nth j ws 0) pos.

  (* the validate()-level facts, for the intrinsic characterisation *)
  Fixpoint sorted (l : list nat) : Prop :=
    match l with
    | [] => True
    | x :: r => match r with [] => True | y :: _ => x <= y end /\ sorted r
    end.
  Definition mnt_valid (t : mnt A) : Prop :=
    length (offs t) = nr t * nc t + 1 /\ hd 1 (offs t) = 0 /\ last (offs t) 0 = length (vals t) /\ sorted (offs t).
End Spec.

Arguments rect {A}. Arguments rect_w {A}. Arguments mnt_of_cells {A}. Arguments met_of_cells {A}.
Arguments mnt_wf {A}. Arguments met_wf {A}. Arguments pick {A}. Arguments pick_rows {A}. Arguments pick_cols {A}.
Arguments mnt_valid {A}.
