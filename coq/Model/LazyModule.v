(* Executable model of torch_frame/nn/base.py (lazily configured Module) and of
   StypeWiseFeatureEncoder.__init__ / forward (torch_frame/nn/encoder/stypewise_encoder.py).
   Definitions only; lemmas live in Proofs/LazyModuleProofs.v.

   Attribute values are opaque (type V); an attribute holding Python `None` is
   `None : option V`.  What `init_modules` builds is a function of the attribute
   values at the moment it runs, so the model records that snapshot. *)
From Coq Require Import List Arith Bool String.
Require Import PF.Lib.ListX PF.Gen.Tables.
Import ListNotations.

Section LazyModule.
  Variable V : Type.

  Definition attrs := list (string * option V).

  (* getattr(self, key) for the attributes the model tracks; an attribute never
     assigned reads as None here (the constructor assigns all of them) *)
  Fixpoint lookup (a : attrs) (k : string) : option V :=
    match a with
    | [] => None
    | (k', v) :: r => if String.eqb k k' then v else lookup r k
    end.

  (* object.__setattr__: the latest binding shadows *)
  Definition bind (a : attrs) (k : string) (v : option V) : attrs := (k, v) :: a.

  Fixpoint remove_key (k : string) (l : list string) : list string :=
    match l with
    | [] => []
    | x :: r => if String.eqb k x then remove_key k r else x :: remove_key k r
    end.

  Definition mem (k : string) (l : list string) : bool := existsb (String.eqb k) l.

  Record mstate := {
    missing : list string;            (* self._missing_attrs (a set) *)
    values : attrs;                   (* instance attributes *)
    in_init : bool;                   (* self._in_init *)
    fired : list (list (string * option V))
       (* one entry per CALL of init_modules: the values of the constructor's
          parameters it saw, in parameter order (whether or not it then raised) *)
  }.

  (* What happened: the statement completed, or an exception propagated to the caller.
     Either way the object exists afterwards in the given state (for the constructor:
     a raise means the caller never gets the object). *)
  Inductive outcome := Done (s : mstate) | Raised (s : mstate).
  Definition state_of (o : outcome) : mstate := match o with Done s => s | Raised s => s end.
  Definition is_raised (o : outcome) : bool := match o with Done _ => false | Raised _ => true end.

  Variable params : list string.      (* signature(self.__init__).parameters *)
  Variable lazy_attrs : list string.  (* cls.LAZY_ATTRS *)
  (* does the subclass's init_modules accept this configuration?  (StypeEncoder.init_modules
     raises ValueError for an inadmissible na_strategy, the encodings for an odd out_size, ...) *)
  Variable init_ok : list (string * option V) -> bool.

  Definition snapshot (a : attrs) : list (string * option V) :=
    map (fun k => (k, lookup a k)) params.

  (* is_fully_specified *)
  Definition is_fully_specified (s : mstate) : bool :=
    match missing s with [] => true | _ => false end.

  (* validate(): ValueError while attributes are missing *)
  Definition validate (s : mstate) : option unit :=
    if is_fully_specified s then Some tt else None.

  (* _init_modules(): validate(); init_modules() -- the latter may raise, after
     _missing_attrs has already been emptied by the caller *)
  Definition init_modules_ (s : mstate) : outcome :=
    match validate s with
    | None => Raised s
    | Some _ =>
        let s' := {| missing := missing s; values := values s; in_init := in_init s;
                     fired := fired s ++ [snapshot (values s)] |} in
        if init_ok (snapshot (values s)) then Done s' else Raised s'
    end.

  (* __setattr__(key, value) *)
  Definition setattr (s : mstate) (k : string) (v : option V) : outcome :=
    let s1 := {| missing := missing s; values := bind (values s) k v; in_init := in_init s;
                 fired := fired s |} in
    match v with
    | None => Done s1
    | Some _ =>
        if mem k (missing s1) then
          let s2 := {| missing := remove_key k (missing s1); values := values s1;
                       in_init := in_init s1; fired := fired s1 |} in
          if negb (in_init s2) && is_fully_specified s2 then init_modules_ s2 else Done s2
        else Done s1
    end.

  (* a caller that catches exceptions and goes on assigning: the object's state *)
  Fixpoint setattrs (s : mstate) (kvs : list (string * option V)) : mstate :=
    match kvs with
    | [] => s
    | (k, v) :: r => setattrs (state_of (setattr s k v)) r
    end.

  (* Module.__init__ with positional args: they are zipped with the parameter names;
     nothing fires inside the loop (_in_init), _init_modules runs at the end if complete *)
  Definition construct (args : list (option V)) : outcome :=
    let s0 := {| missing := lazy_attrs; values := []; in_init := true; fired := [] |} in
    let s1 := setattrs s0 (combine params args) in
    let s2 := {| missing := missing s1; values := values s1; in_init := false; fired := fired s1 |} in
    if is_fully_specified s2 then init_modules_ s2 else Done s2.

  (* every guarded entry point: __call__, named_parameters, named_children,
     named_modules, _apply (hence .to/.eval/.parameters ...): the validate() guard *)
  Definition use (s : mstate) : option unit := validate s.

  (* the configurations init_modules completed with (what the module is built from) *)
  Definition built (s : mstate) : list (list (string * option V)) := filter init_ok (fired s).

  (* later assignments `obj.key = value` *)
  Definition run (s : mstate) (ops : list (string * option V)) : mstate := setattrs s ops.

  (* an assignment of None to a lazy attribute that has already been supplied
     ("clobbering"): the key stays out of the missing set although it reads None *)
  Fixpoint clobber_free (s : mstate) (ops : list (string * option V)) : bool :=
    match ops with
    | [] => true
    | (k, v) :: r =>
        let bad := match v with
                   | None => mem k lazy_attrs && negb (mem k (missing s))
                   | Some _ => false
                   end in
        if bad then false else clobber_free (state_of (setattr s k v)) r
    end.

  (* the statements of C12 about lazily configured modules use these two: *)
  Variable vals : string -> option V.
  (* an assignment agrees with the target configuration, or assigns None to a lazy attribute *)
  Definition consistent (kv : string * option V) : Prop :=
    snd kv = vals (fst kv) \/ (snd kv = None /\ mem (fst kv) lazy_attrs = true).
  (* the configuration init_modules sees when every parameter holds its target value *)
  Definition target : list (string * option V) := map (fun k => (k, vals k)) params.
End LazyModule.

Arguments missing {V}. Arguments values {V}. Arguments in_init {V}. Arguments fired {V}.
Arguments Done {V}. Arguments Raised {V}. Arguments state_of {V}. Arguments is_raised {V}.

(* --------------------------------------------------------------------------
   StypeWiseFeatureEncoder *)

(* __init__: validation of the stype_encoder_dict keys, in dict order.
   `supported e` is the encoder object's supported_stypes. *)
Section StypeWise.
  Variable Enc : Type.
  Variable supported : Enc -> list stype.

  Definition stype_in (s : stype) (l : list stype) : bool := existsb (stype_eqb s) l.

  (* a key of stype_encoder_dict is acceptable: a parent stype the encoder supports *)
  Definition key_ok (p : stype * Enc) : bool :=
    stype_eqb (fst p) (stype_parent (fst p)) && stype_in (fst p) (supported (snd p)).

  (* returns the stypes whose encoder gets wired (stats_list etc. assigned),
     or None for the ValueError *)
  Fixpoint stypewise_init (col_names_keys : list stype) (d : list (stype * Enc)) : option (list (stype * Enc)) :=
    match d with
    | [] => Some []
    | (s, e) :: r =>
        if negb (stype_eqb s (stype_parent s)) then None            (* child stype as key *)
        else if negb (stype_in s (supported e)) then None           (* unsupported pairing *)
        else match stypewise_init col_names_keys r with
             | None => None
             | Some w => Some (if stype_in s col_names_keys then (s, e) :: w else w)
             end
    end.
End StypeWise.

(* forward: per stype in canonical order, encoder output columns are
   concatenated along the column axis and the names extended.
   A is what one output column is (opaque). *)
Section StypeWiseForward.
  Variable A : Type.

  Fixpoint assoc_stype {B} (d : list (stype * B)) (s : stype) : option B :=
    match d with
    | [] => None
    | (s', b) :: r => if stype_eqb s s' then Some b else assoc_stype r s
    end.

  (* tf.stypes: filter(lambda x: x in feat_dict, list(stype)) *)
  Definition tf_stypes {B} (feat_dict : list (stype * B)) : list stype :=
    filter (fun s => match assoc_stype feat_dict s with Some _ => true | None => false end) all_stype.

  (* one stype's share of the output: its names as listed in col_names_dict, and as many
     columns as names, the ones its encoder returned for them *)
  Definition part_ok (cnd : list (stype * list string)) (enc : stype -> list string -> option (list A))
             (s : stype) (p : list A * list string) : Prop :=
    assoc_stype cnd s = Some (snd p) /\ enc s (snd p) = Some (fst p) /\ List.length (fst p) = List.length (snd p).

  (* enc s names = the columns the stype's encoder returns (None: it raised, in
     particular when feat has a different number of columns than col_names) *)
  Definition stypewise_forward (col_names_dict : list (stype * list string))
             (feat_dict : list (stype * nat))        (* stype -> number of columns of its feature tensor *)
             (enc : stype -> list string -> option (list A))
    : option (list A * list string) :=
    let step (acc : option (list A * list string)) (s : stype) :=
        match acc with
        | None => None
        | Some (xs, ns) =>
            match assoc_stype col_names_dict s, assoc_stype feat_dict s with
            | Some names, Some ncols =>
                if negb (Nat.eqb ncols (List.length names)) then None
                else match enc s names with
                     | Some cols => if Nat.eqb (List.length cols) ncols then Some (xs ++ cols, ns ++ names) else None
                     | None => None
                     end
            | _, _ => None                               (* KeyError *)
            end
        end in
    fold_left step (tf_stypes feat_dict) (Some ([], [])).
End StypeWiseForward.

(* the stype each built-in encoder class is documented for (LinearModelEncoder wraps
   user models and is documented for every parent stype with a tensor representation) *)
Definition documented_stypes (e : encoder_class) : list stype :=
  match e with
  | enc_EmbeddingEncoder => [st_categorical]
  | enc_MultiCategoricalEmbeddingEncoder => [st_multicategorical]
  | enc_LinearEncoder | enc_StackEncoder | enc_LinearBucketEncoder | enc_LinearPeriodicEncoder
  | enc_ExcelFormerEncoder => [st_numerical]
  | enc_LinearEmbeddingEncoder => [st_embedding]
  | enc_TimestampEncoder => [st_timestamp]
  | enc_LinearModelEncoder =>
      [st_numerical; st_categorical; st_text_embedded; st_text_tokenized; st_multicategorical; st_timestamp; st_embedding]
  end.
