(* Executable model of torch_frame/nn/base.py (lazily configured Module) and of
   StypeWiseFeatureEncoder.__init__ / forward (torch_frame/nn/encoder/stypewise_encoder.py).
   Definitions only; lemmas live in Proofs/LazyModuleProofs.v.

   Attribute values are opaque (type V); an attribute holding Python `None` is
   `None : option V`.  What `init_modules` builds is a function of the attribute
   values at the moment it runs, so the model records that snapshot. *)
From Coq Require Import List Arith Bool String.
Require Import PF.Lib.ListX PF.Gen.Tables.
Import ListNotations.

Section LazyModule.
  Variable V : Type.

  Definition attrs := list (string * option V).

  (* getattr(self, key) for the attributes the model tracks; an attribute never
     assigned reads as None here (the constructor assigns all of them) *)
  Fixpoint lookup (a : attrs) (k : string) : option V :=
    match a with
    | [] => None
    | (k', v) :: r => if String.eqb k k' then v else lookup r k
    end.

  (* object.__setattr__: the latest binding shadows *)
  Definition bind (a : attrs) (k : string) (v : option V) : attrs := (k, v) :: a.

  Fixpoint remove_key (k : string) (l : list string) : list string :=
    match l with
    | [] => []
    | x :: r => if String.eqb k x then remove_key k r else x :: remove_key k r
    end.

  Definition mem (k : string) (l : list string) : bool := existsb (String.eqb k) l.

  Record mstate := {
    missing : list string;            (* self._missing_attrs (a set) *)
    values : attrs;                   (* instance attributes *)
    in_init : bool;                   (* self._in_init *)
    fired : list (list (string * option V))
       (* one entry per call of init_modules: the values of the constructor's
          parameters it saw, in parameter order *)
  }.

  Variable params : list string.      (* signature(self.__init__).parameters *)
  Variable lazy_attrs : list string.  (* cls.LAZY_ATTRS *)

  Definition snapshot (a : attrs) : list (string * option V) :=
    map (fun k => (k, lookup a k)) params.

  (* is_fully_specified *)
  Definition is_fully_specified (s : mstate) : bool :=
    match missing s with [] => true | _ => false end.

  (* validate(): ValueError while attributes are missing *)
  Definition validate (s : mstate) : option unit :=
    if is_fully_specified s then Some tt else None.

  (* _init_modules(): validate(); init_modules() *)
  Definition init_modules_ (s : mstate) : option mstate :=
    match validate s with
    | None => None
    | Some _ => Some {| missing := missing s; values := values s; in_init := in_init s;
                        fired := fired s ++ [snapshot (values s)] |}
    end.

  (* __setattr__(key, value) *)
  Definition setattr (s : mstate) (k : string) (v : option V) : option mstate :=
    let s1 := {| missing := missing s; values := bind (values s) k v; in_init := in_init s;
                 fired := fired s |} in
    match v with
    | None => Some s1
    | Some _ =>
        if mem k (missing s1) then
          let s2 := {| missing := remove_key k (missing s1); values := values s1;
                       in_init := in_init s1; fired := fired s1 |} in
          if negb (in_init s2) && is_fully_specified s2 then init_modules_ s2 else Some s2
        else Some s1
    end.

  Fixpoint setattrs (s : mstate) (kvs : list (string * option V)) : option mstate :=
    match kvs with
    | [] => Some s
    | (k, v) :: r => match setattr s k v with Some s' => setattrs s' r | None => None end
    end.

  (* Module.__init__ with positional args: they are zipped with the parameter names *)
  Definition construct (args : list (option V)) : option mstate :=
    let s0 := {| missing := lazy_attrs; values := []; in_init := true; fired := [] |} in
    match setattrs s0 (combine params args) with
    | None => None
    | Some s1 =>
        let s2 := {| missing := missing s1; values := values s1; in_init := false; fired := fired s1 |} in
        if is_fully_specified s2 then init_modules_ s2 else Some s2
    end.

  (* every guarded entry point: __call__, named_parameters, named_children,
     named_modules, _apply (hence .to/.eval/.parameters ...) *)
  Definition use (s : mstate) : option unit := validate s.

  (* later assignments `obj.key = value` *)
  Definition run (s : mstate) (ops : list (string * option V)) : option mstate := setattrs s ops.

  (* an assignment of None to a lazy attribute that has already been supplied
     ("clobbering"): the key stays out of the missing set although it reads None *)
  Fixpoint clobber_free (s : mstate) (ops : list (string * option V)) : bool :=
    match ops with
    | [] => true
    | (k, v) :: r =>
        let bad := match v with
                   | None => mem k lazy_attrs && negb (mem k (missing s))
                   | Some _ => false
                   end in
        if bad then false
        else match setattr s k v with Some s' => clobber_free s' r | None => true end
    end.
End LazyModule.

Arguments missing {V}. Arguments values {V}. Arguments in_init {V}. Arguments fired {V}.

(* --------------------------------------------------------------------------
   StypeWiseFeatureEncoder *)

(* __init__: validation of the stype_encoder_dict keys, in dict order.
   `supported e` is the encoder object's supported_stypes. *)
Section StypeWise.
  Variable Enc : Type.
  Variable supported : Enc -> list stype.

  Definition stype_in (s : stype) (l : list stype) : bool := existsb (stype_eqb s) l.

  (* returns the stypes whose encoder gets wired (stats_list etc. assigned),
     or None for the ValueError *)
  Fixpoint stypewise_init (col_names_keys : list stype) (d : list (stype * Enc)) : option (list (stype * Enc)) :=
    match d with
    | [] => Some []
    | (s, e) :: r =>
        if negb (stype_eqb s (stype_parent s)) then None            (* child stype as key *)
        else if negb (stype_in s (supported e)) then None           (* unsupported pairing *)
        else match stypewise_init col_names_keys r with
             | None => None
             | Some w => Some (if stype_in s col_names_keys then (s, e) :: w else w)
             end
    end.
End StypeWise.

(* forward: per stype in canonical order, encoder output columns are
   concatenated along the column axis and the names extended.
   A is what one output column is (opaque). *)
Section StypeWiseForward.
  Variable A : Type.

  Fixpoint assoc_stype {B} (d : list (stype * B)) (s : stype) : option B :=
    match d with
    | [] => None
    | (s', b) :: r => if stype_eqb s s' then Some b else assoc_stype r s
    end.

  (* tf.stypes: filter(lambda x: x in feat_dict, list(stype)) *)
  Definition tf_stypes {B} (feat_dict : list (stype * B)) : list stype :=
    filter (fun s => match assoc_stype feat_dict s with Some _ => true | None => false end) all_stype.

  (* enc s names = the columns the stype's encoder returns (None: it raised, in
     particular when feat has a different number of columns than col_names) *)
  Definition stypewise_forward (col_names_dict : list (stype * list string))
             (feat_dict : list (stype * nat))        (* stype -> number of columns of its feature tensor *)
             (enc : stype -> list string -> option (list A))
    : option (list A * list string) :=
    let step (acc : option (list A * list string)) (s : stype) :=
        match acc with
        | None => None
        | Some (xs, ns) =>
            match assoc_stype col_names_dict s, assoc_stype feat_dict s with
            | Some names, Some ncols =>
                if negb (Nat.eqb ncols (List.length names)) then None
                else match enc s names with
                     | Some cols => if Nat.eqb (List.length cols) ncols then Some (xs ++ cols, ns ++ names) else None
                     | None => None
                     end
            | _, _ => None                               (* KeyError *)
            end
        end in
    fold_left step (tf_stypes feat_dict) (Some ([], [])).
End StypeWiseForward.

(* the stype each built-in encoder class is documented for (LinearModelEncoder wraps
   user models and is documented for every parent stype with a tensor representation) *)
Definition documented_stypes (e : encoder_class) : list stype :=
  match e with
  | enc_EmbeddingEncoder => [st_categorical]
  | enc_MultiCategoricalEmbeddingEncoder => [st_multicategorical]
  | enc_LinearEncoder | enc_StackEncoder | enc_LinearBucketEncoder | enc_LinearPeriodicEncoder
  | enc_ExcelFormerEncoder => [st_numerical]
  | enc_LinearEmbeddingEncoder => [st_embedding]
  | enc_TimestampEncoder => [st_timestamp]
  | enc_LinearModelEncoder =>
      [st_numerical; st_categorical; st_text_embedded; st_text_tokenized; st_multicategorical; st_timestamp; st_embedding]
  end.
