(* Executable observation layer for the correspondence checks of C07 / C08:
   build frames with the public constructors, evaluate frame expressions
   (build / select / cat), read every cell back through single-cell access, and
   compare with what the implementation showed.  Definitions only. *)
From Coq Require Import String ZArith List Bool Arith.
From PF Require Import Lib.ListX Lib.PySlice Model.Ragged Model.RaggedSpec Model.RaggedRun Model.RaggedCat Model.Frame
     Model.FrameSpec Model.FrameStore Model.Allclose Gen.Tables.
Import ListNotations.
Open Scope bool_scope.

(* ------------------------------------------------------------------ *)
(* The ragged containers' own cat: the model of MultiNestedTensor.cat /
   MultiEmbeddingTensor.cat of Model/RaggedCat.v (C06).  torch.empty contents
   (junk) are irrelevant to the results; any instance will do. *)
Definition mnt_cells (t : mnt payload) : option cmat := read_cells _ (mnt_kernels payload) t.
Definition mnt_cat_run (ts : list (mnt payload)) (dim : nat) : option (mnt payload) :=
  mnt_cat payload (fun _ => 0) (fun _ => None) ts (Z.of_nat dim).
Definition met_cat_run (ts : list (met payload)) (dim : nat) : option (met payload) :=
  met_cat payload ts (Z.of_nat dim).

(* ------------------------------------------------------------------ *)
(* frame literals and expressions *)
Inductive fspec :=
| SDense (c k : nat) (m : cmat)
| SNested (m : cmat)
| SEmb (m : cmat)
| SDict (d : list (string * cmat)).

Definition build_feat (s : fspec) : option feat :=
  match s with
  | SDense c k m => Some (FDense (map (@concat payload) m) c k)          (* torch.tensor(...).reshape(n, c, k) *)
  | SNested m => option_map FNested (mnt_from_mat payload m)             (* MultiNestedTensor.from_tensor_mat *)
  | SEmb m => option_map FEmb (met_from_cells payload m)                 (* MultiEmbeddingTensor.from_tensor_list *)
  | SDict d => option_map FDict (mapM (fun km => option_map (pair (fst km)) (mnt_from_mat payload (snd km))) d)
  end.

Inductive fexpr :=
| EBuild (fs : list (stype * fspec)) (nm : list (stype * list string)) (yy : option (list payload)) (ov : option nat)
| ESel (e : fexpr) (ix : index)
| ECat (es : list fexpr) (dim : Z).

Fixpoint eval (e : fexpr) : option tframe :=
  match e with
  | EBuild fs nm yy ov =>
      fs' <- mapM (fun sf => option_map (pair (fst sf)) (build_feat (snd sf))) fs ;; tf_mk fs' nm yy ov
  | ESel e' ix => f <- eval e' ;; tf_getitem f ix
  | ECat es dim =>
      fs <- (fix go (l : list fexpr) : option (list tframe) :=
               match l with
               | [] => Some []
               | x :: r => match eval x, go r with Some a, Some b => Some (a :: b) | _, _ => None end
               end) es ;;
      tf_cat mnt_cat_run met_cat_run fs dim
  end.

(* ------------------------------------------------------------------ *)
(* observations *)
Definition comp := (string * (nat * nat * cmat))%type.
Definition featobs := (nat * nat * list comp)%type.          (* storage kind, inner size, components *)
Inductive fobs :=
| FOErr
| FOFrame (len : nat) (fs : list (stype * featobs)) (nm : list (stype * list string)) (yy : option (list payload))
| FOUnreadable.

Definition observe_feat (f : feat) : option featobs :=
  match f with
  | FDense rows c k => Some (0, k, [(EmptyString, (length rows, c, map (chunk_rows c k) rows))])
  | FNested t => m <- mnt_cells t ;; Some (1, 0, [(EmptyString, (nr t, nc t, m))])
  | FEmb t => m <- read_cells _ (met_kernels payload) t ;; Some (2, 0, [(EmptyString, (er t, ec t, m))])
  | FDict d =>
      cs <- mapM (fun kv => m <- mnt_cells (snd kv) ;; Some (fst kv, (nr (snd kv), nc (snd kv), m))) d ;;
      Some (3, 0, cs)
  end.

Definition observe (f : tframe) : fobs :=
  match tf_num_rows f, mapM (fun sx => option_map (pair (fst sx)) (observe_feat (snd sx))) (feats f) with
  | Some n, Some fs => FOFrame n fs (names f) (y f)
  | _, _ => FOUnreadable
  end.

Definition comp_eqb (a b : nat * nat * cmat) : bool :=
  (fst (fst a) =? fst (fst b)) && (snd (fst a) =? snd (fst b)) && cells_eqb (snd a) (snd b).
Definition featobs_eqb (a b : featobs) : bool :=
  (fst (fst a) =? fst (fst b)) && (snd (fst a) =? snd (fst b))
  && dict_eqb String.eqb comp_eqb (snd a) (snd b).
Definition oy_eqb (a b : option (list payload)) : bool :=
  match a, b with
  | None, None => true
  | Some u, Some v => list_eqb payload_eqb u v
  | _, _ => false
  end.

(* dict insertion order is not compared *)
Definition fobs_eqb (a b : fobs) : bool :=
  match a, b with
  | FOErr, FOErr => true
  | FOFrame n fs nm yy, FOFrame n' fs' nm' yy' =>
      (n =? n') && dict_eqb stype_eqb featobs_eqb fs fs' && names_eqb nm nm' && oy_eqb yy yy'
  | _, _ => false
  end.

Definition observe_opt (o : option tframe) : fobs := match o with Some f => observe f | None => FOErr end.

(* ------------------------------------------------------------------ *)
(* C07: the frame, then every step of the chain *)
Fixpoint run_chain (f : tframe) (p : list index) : list fobs :=
  match p with
  | [] => []
  | ix :: rest =>
      match tf_getitem f ix with
      | Some f' => observe f' :: run_chain f' rest
      | None => [FOErr]
      end
  end.

Definition c07_run (e : fexpr) (p : list index) : list fobs :=
  match eval e with
  | Some f => observe f :: run_chain f p
  | None => [FOErr]
  end.

Definition c07_check (e : fexpr) (p : list index) (o : list fobs) : bool := list_eqb fobs_eqb (c07_run e p) o.

(* ------------------------------------------------------------------ *)
(* structural equality of model frames (for the executable forms of the theorem statements) *)
Definition feat_eqb (a b : feat) : bool :=
  match a, b with
  | FDense ra ca ka, FDense rb cb kb => list_eqb (list_eqb payload_eqb) ra rb && (ca =? cb) && (ka =? kb)
  | FNested ta, FNested tb => mnt_eqb ta tb
  | FEmb ta, FEmb tb => met_eqb ta tb
  | FDict da, FDict db => list_eqb (fun x z => String.eqb (fst x) (fst z) && mnt_eqb (snd x) (snd z)) da db
  | _, _ => false
  end.
Definition onat_eqb (a b : option nat) : bool :=
  match a, b with None, None => true | Some u, Some v => u =? v | _, _ => false end.
Definition tframe_eqb (a b : tframe) : bool :=
  list_eqb (fun x z => stype_eqb (fst x) (fst z) && feat_eqb (snd x) (snd z)) (feats a) (feats b)
  && list_eqb (fun x z => stype_eqb (fst x) (fst z) && list_eqb String.eqb (snd x) (snd z)) (names a) (names b)
  && oy_eqb (y a) (y b) && onat_eqb (num_rows_override a) (num_rows_override b).
Definition otframe_eqb (a b : option tframe) : bool :=
  match a, b with None, None => true | Some u, Some v => tframe_eqb u v | _, _ => false end.

(* the view a literal denotes *)
Definition view_of_spec (s : fspec) : fview :=
  match s with
  | SDense c k m => VDense c k m
  | SNested m => VNested (length (hd [] m)) m
  | SEmb m => VEmb (map (@length payload) (hd [] m)) m
  | SDict d => VDict (map (fun km => (fst km, (length (hd [] (snd km)), snd km))) d)
  end.

(* Executable form of Props/C07.v getitem_coherent / getitem_chain on one case:
   the frame built by the constructors is the canonical frame of its views, and
   every step of the chain returns exactly the frame of the same positions
   picked from every view (or raises exactly when the list selection raises). *)
Fixpoint c07_stmt_chain (n : nat) (vs : list (stype * fview)) (nm : list (stype * list string))
         (yy : option (list payload)) (ov : option nat) (p : list index) : bool :=
  match p with
  | [] => true
  | ix :: rest =>
      match py_positions n (as_list_index ix) with
      | Some pos =>
          otframe_eqb (tf_getitem (frame_of vs nm yy ov) ix) (Some (sel_frame pos vs nm yy ov))
          && c07_stmt_chain (length pos) (map (fun sv => (fst sv, vsel pos (snd sv))) vs) nm
                            (option_map (ysel pos) yy) (option_map (fun _ => length pos) ov) rest
      | None =>
          match vs, yy, ov with
          | [], None, None => true
          | _, _, _ => otframe_eqb (tf_getitem (frame_of vs nm yy ov) ix) None
          end
      end
  end.

Definition c07_stmt (e : fexpr) (p : list index) : bool :=
  match e with
  | EBuild fs nm yy ov =>
      match eval e with
      | Some f =>
          let vs := map (fun sf => (fst sf, view_of_spec (snd sf))) fs in
          match tf_num_rows f with
          | Some n => tframe_eqb f (frame_of vs nm yy ov) && c07_stmt_chain n vs nm yy ov p
          | None => false
          end
      | None => true
      end
  | _ => true
  end.

(* ------------------------------------------------------------------ *)
(* C08: evaluate a (and b), observe the frames, a == b, b == a and column lookups on a *)
Inductive lobs := LErr | LCol (s : stype) (o : featobs) | LUnreadable.

(* 0 = False, 1 = True, 2 = __eq__ raised, 3 = an operand could not be built *)
Definition eq_code (a b : option tframe) : nat :=
  match a, b with
  | Some fa, Some fb =>
      (* scalars are compared with torch.allclose's own formula (Model/Allclose.v) on the 1/8 grid *)
      match tf_eq close_grid fa fb with Some true => 1 | Some false => 0 | None => 2 end
  | _, _ => 3
  end.

Definition lookup_obs (a : option tframe) (name : string) : lobs :=
  match a with
  | None => LErr
  | Some fa =>
      match tf_get_col_feat fa name with
      | None => LErr
      | Some (x, s) => match observe_feat x with Some o => LCol s o | None => LUnreadable end
      end
  end.

Definition lobs_eqb (a b : lobs) : bool :=
  match a, b with
  | LErr, LErr => true
  | LCol s o, LCol s' o' => stype_eqb s s' && featobs_eqb o o'
  | _, _ => false
  end.

Definition c08_check (a : fexpr) (b : option fexpr) (names : list string)
           (oa ob : fobs) (eab eba : nat) (lks : list lobs) : bool :=
  let fa := eval a in
  fobs_eqb (observe_opt fa) oa
  && match b with
     | None => true
     | Some b' =>
         let fb := eval b' in
         fobs_eqb (observe_opt fb) ob && (eq_code fa fb =? eab) && (eq_code fb fa =? eba)
     end
  && list_eqb lobs_eqb (map (lookup_obs fa) names) lks.

(* Executable form of the section hypotheses of Props/C08.v about the ragged
   containers' own cat, on the views of one case: concatenating canonical
   containers gives the canonical container of the concatenated cells. *)
Definition c08_hyp_rows_mnt (c : nat) (ms : list cmat) : bool :=
  match mnt_cat_run (map (mnt_of_cells c) ms) 0 with
  | Some t => mnt_eqb t (mnt_of_cells c (concat ms))
  | None => false
  end.
Definition c08_hyp_rows_met (ws : list nat) (ms : list cmat) : bool :=
  match met_cat_run (map (met_of_cells ws) ms) 0 with
  | Some t => met_eqb t (met_of_cells ws (concat ms))
  | None => false
  end.
Definition c08_hyp_cols_mnt (n : nat) (cms : list (nat * cmat)) : bool :=
  match mnt_cat_run (map (fun cm => mnt_of_cells (fst cm) (snd cm)) cms) 1 with
  | Some t => mnt_eqb t (mnt_of_cells (sum (map fst cms)) (zip_rows n (map snd cms)))
  | None => false
  end.
Definition c08_hyp_cols_met (n : nat) (wms : list (list nat * cmat)) : bool :=
  match met_cat_run (map (fun wm => met_of_cells (fst wm) (snd wm)) wms) 1 with
  | Some t => met_eqb t (met_of_cells (concat (map fst wms)) (zip_rows n (map snd wms)))
  | None => false
  end.

(* ------------------------------------------------------------------ *)
(* Executable forms of the store theorems (Props/C07.v getitem_leaves_caller_index, Props/C08.v
   cat_col_names_inputs_unchanged): the store model run on the names / index of one case, compared with what the
   implementation's objects hold AFTER the call. *)

(* one heap object per (part, stype) name list, in order *)
Definition names_heap (parts : list (list (stype * list string))) : nheap * list ndict :=
  fold_left (fun hd p =>
               (fst hd ++ map snd p, snd hd ++ [combine (map fst p) (seq (length (fst hd)) (length p))]))
            parts ([], []).

Definition c08_store_check (parts after : list (list (stype * list string)))
           (result : option (list (stype * list string))) : bool :=
  let hd := names_heap parts in
  let st := cat_col_names_store (fst hd) (snd hd) in
  let h' := fst (fst st) in
  list_eqb names_eqb (map (read_ndict h') (snd hd)) after                 (* the inputs, read after the call *)
  && forallb (fun a => length (fst hd) <=? a) (snd st)                    (* every write is to a fresh object *)
  && match result with Some r => names_eqb (read_ndict h' (snd (fst st))) r | None => true end.

Definition c07_index_store_check (l : list Z) (containers n : nat) (after : list Z) : bool :=
  let r := getitem_index_store [l] 0 n containers in
  list_eqb Z.eqb (hget [] (fst r) 0) after && forallb (fun a => 1 <=? a) (snd r).

(* Executable form of Props/C08.v allclose_spec: torch.allclose's decision on one pair of scalars (exact dyadic
   rationals num/den) against the rational formula of Model/Allclose.v. *)
Definition c08_allclose_check (an : Z) (ad : positive) (bn : Z) (bd : positive) (decision : bool) : bool :=
  Bool.eqb (allclose_q (QArith_base.Qmake an ad) (QArith_base.Qmake bn bd)) decision.

(* Executable form of Props/C07.v getitem_chain_composes: the frame the implementation returned at the END of a chain
   is the ONE selection of the composed positions (chain_positions) from the original frame; a chain that raised has no
   composed positions. *)
Definition c07_compose_check (e : fexpr) (p : list index) (final : fobs) : bool :=
  match e with
  | EBuild fs nm yy ov =>
      match eval e with
      | Some f =>
          let vs := map (fun sf => (fst sf, view_of_spec (snd sf))) fs in
          match tf_num_rows f with
          | Some n =>
              match chain_positions n p with
              | Some pos => fobs_eqb (observe (sel_frame pos vs nm yy ov)) final
              | None => match vs, yy, ov with
                        | [], None, None => true
                        | _, _, _ => fobs_eqb FOErr final
                        end
              end
          | None => false
          end
      | None => true
      end
  | _ => true
  end.
