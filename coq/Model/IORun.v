(* Concrete instance of Model/IO.v for the correspondence check of C11, and the
   observation readers / comparators the generated case files call.
   Definitions only.

   * tensors: dtype code, shape, row-major data.  Floats are shipped as the
     integer of their IEEE bit pattern (NaN canonicalised by the harness), so
     nothing is ever compared as a decimal;
   * validate() of the two ragged classes, as written in
     multi_nested_tensor.py / multi_embedding_tensor.py;
   * statistics: opaque to io.py, hence a digest (an integer) of their canonical
     rendering;
   * torch.save / torch.load: a TOY codec (the payload followed by an end
     marker).  It satisfies both hypotheses of Props/C11.v, which is all the
     model may assume about torch's real byte format; the real format is
     exercised by the harness (every truncation point), not here;
   * the converter: symbolic, `conv stats rows = (stats, rows)`. *)
From Coq Require Import List Arith Bool String ZArith.
From PF Require Import Lib.ListX Gen.Tables Model.IO.
Import ListNotations.

Record ctensor := CT { ct_dtype : nat; ct_shape : list nat; ct_data : list Z }.
Definition ct_dim (t : ctensor) : nat := List.length (ct_shape t).
(* t.size(d).  Only consulted under a `dim() >= 2` / 1-D guard evaluated in the
   same conjunction, so the default is never the deciding value. *)
Definition ct_size (t : ctensor) (d : nat) : nat := nth d (ct_shape t) 0.

(* MultiNestedTensor.validate: offset[0] == 0, offset[-1] == len(values),
   len(offset) == num_rows * num_cols + 1 *)
Definition c_valid_nested (r c : nat) (v o : ctensor) : bool :=
  match ct_data o with
  | [] => false                                   (* offset[0] of an empty tensor raises *)
  | o0 :: _ =>
      (o0 =? 0)%Z && (last (ct_data o) 0%Z =? Z.of_nat (ct_size v 0))%Z &&
      (List.length (ct_data o) =? r * c + 1)
  end.

(* MultiEmbeddingTensor.validate: offset[0] == 0, len(offset) == num_cols + 1,
   offset.ndim == 1, values.ndim == 2 or values.numel() == 0 *)
Definition c_valid_embed (r c : nat) (v o : ctensor) : bool :=
  match ct_data o with
  | [] => false
  | o0 :: _ =>
      (o0 =? 0)%Z && (List.length (ct_data o) =? c + 1) && (ct_dim o =? 1) &&
      ((ct_dim v =? 2) || (List.length (ct_data v) =? 0))
  end.

Definition cstats : Type := Z.

Inductive cbyte := BPayload (p : payload ctensor cstats) | BEnd.
Definition cenc (p : payload ctensor cstats) : list cbyte := [BPayload p; BEnd].
Definition cdec (b : list cbyte) : option (payload ctensor cstats) :=
  match b with
  | [BPayload p; BEnd] => Some p
  | _ => None
  end.

Definition crows : Type := nat.
Definition ccout : Type := (cstats * nat)%type.
Definition cconv (cs : cstats) (r : crows) : option ccout := Some (cs, r).

Definition c_tframe_wfb := tframe_wfb ct_dim ct_size c_valid_nested c_valid_embed.
Definition c_load := load ct_dim ct_size c_valid_nested c_valid_embed cdec.
Definition c_save := save cenc.
Definition c_run (fresh : tframe ctensor * cstats) (h : list (event crows)) : list (obs ctensor cstats ccout) :=
  snd (run ct_dim ct_size c_valid_nested c_valid_embed cenc cdec cconv fresh (init ctensor cstats cbyte) h).

(* save then load, as one observation *)
Definition c_save_load (t : tframe ctensor) (cs : cstats) : obs ctensor cstats ccout :=
  match c_save t cs with
  | Some b => match c_load b with Some (t', cs') => OMat ccout t' cs' | None => ORaise _ _ _ end
  | None => ORaise _ _ _
  end.

(* ------------------------------------------------------------------ *)
(* what a user sees of a frame: class of each feature, dtype, sizes, every
   cell feat[i, j]; dense tensors whole; names; y; num_rows *)
Definition mobs : Type := (nat * nat * nat * list (list (list Z)))%type.   (* dtype, rows, cols, cells *)
Inductive fobs :=
| ODense (t : ctensor)
| ONested (m : mobs)
| OEmbed (m : mobs)
| ODict (d : list (string * mobs)).
Definition frame_obs : Type :=
  (nat * list (stype * fobs) * list (stype * list string) * option ctensor)%type.

Definition zslice (l : list Z) (a b : Z) : list Z := tslice l (Z.to_nat a) (Z.to_nat b).

(* MultiNestedTensor[i, j] = values[offset[i*nc+j] : offset[i*nc+j+1]] *)
Definition read_nested (m : multi ctensor) : option mobs :=
  let offs := ct_data (m_offset m) in
  let vals := ct_data (m_values m) in
  cells <- mapM (fun i =>
             mapM (fun j =>
               let idx := i * m_cols m + j in
               s <- tget offs idx ;; e <- tget offs (idx + 1) ;; Some (zslice vals s e))
               (seq 0 (m_cols m)))
             (seq 0 (m_rows m)) ;;
  Some (ct_dtype (m_values m), m_rows m, m_cols m, cells).

(* MultiEmbeddingTensor[i, j] = values[i, offset[j] : offset[j+1]] *)
Definition read_embed (m : multi ctensor) : option mobs :=
  let offs := ct_data (m_offset m) in
  let vals := ct_data (m_values m) in
  let D := ct_size (m_values m) 1 in
  cells <- mapM (fun i =>
             let row := tslice vals (i * D) ((i + 1) * D) in
             mapM (fun j => s <- tget offs j ;; e <- tget offs (j + 1) ;; Some (zslice row s e))
               (seq 0 (m_cols m)))
             (seq 0 (m_rows m)) ;;
  Some (ct_dtype (m_values m), m_rows m, m_cols m, cells).

Definition read_feat (f : feat ctensor) : option fobs :=
  match f with
  | FTensor t => Some (ODense t)
  | FNested m => option_map ONested (read_nested m)
  | FEmbed m => option_map OEmbed (read_embed m)
  | FDict d => option_map ODict (mapM (fun p => o <- read_nested (snd p) ;; Some (fst p, o)) d)
  end.

Definition read_frame (t : tframe ctensor) : option frame_obs :=
  n <- num_rows ct_dim ct_size t ;;
  feats <- mapM (fun p => o <- read_feat (snd p) ;; Some (fst p, o)) (tf_feat t) ;;
  Some (n, feats, tf_names t, tf_y t).

(* ------------------------------------------------------------------ *)
(* decidable equality of observations *)
Fixpoint list_eqb {A : Type} (e : A -> A -> bool) (a b : list A) : bool :=
  match a, b with
  | [], [] => true
  | x :: a', y :: b' => e x y && list_eqb e a' b'
  | _, _ => false
  end.
Definition opt_eqb {A : Type} (e : A -> A -> bool) (a b : option A) : bool :=
  match a, b with
  | None, None => true
  | Some x, Some y => e x y
  | _, _ => false
  end.
Definition ct_eqb (a b : ctensor) : bool :=
  (ct_dtype a =? ct_dtype b) && list_eqb Nat.eqb (ct_shape a) (ct_shape b) &&
  list_eqb Z.eqb (ct_data a) (ct_data b).
Definition mobs_eqb (a b : mobs) : bool :=
  match a, b with
  | (d1, r1, c1, x1), (d2, r2, c2, x2) =>
      (d1 =? d2) && (r1 =? r2) && (c1 =? c2) && list_eqb (list_eqb (list_eqb Z.eqb)) x1 x2
  end.
Definition fobs_eqb (a b : fobs) : bool :=
  match a, b with
  | ODense x, ODense y => ct_eqb x y
  | ONested x, ONested y => mobs_eqb x y
  | OEmbed x, OEmbed y => mobs_eqb x y
  | ODict x, ODict y =>
      list_eqb (fun p q => String.eqb (fst p) (fst q) && mobs_eqb (snd p) (snd q)) x y
  | _, _ => false
  end.
Definition frame_obs_eqb (a b : frame_obs) : bool :=
  match a, b with
  | (n1, f1, c1, y1), (n2, f2, c2, y2) =>
      (n1 =? n2) &&
      list_eqb (fun p q => stype_eqb (fst p) (fst q) && fobs_eqb (snd p) (snd q)) f1 f2 &&
      list_eqb (fun p q => stype_eqb (fst p) (fst q) && list_eqb String.eqb (snd p) (snd q)) c1 c2 &&
      opt_eqb ct_eqb y1 y2
  end.

(* what the harness observed of the implementation *)
Inductive iobs :=
| IRaise
| IMat (f : frame_obs) (cs : cstats)     (* frame read cell by cell, digest of the statistics *)
| IConv (same_as_original : bool) (r : nat)
| ICrash.

Definition obs_match (fresh_stats : cstats) (o : obs ctensor cstats ccout) (i : iobs) : bool :=
  match o, i with
  | ORaise _ _ _, IRaise => true
  | OCrash _ _ _, ICrash => true
  | OMat _ t cs, IMat f cs' =>
      match read_frame t with Some f' => frame_obs_eqb f' f | None => false end && (cs =? cs')%Z
  | OConv _ _ (cs, r), IConv same r' => same && (cs =? fresh_stats)%Z && (r =? r')
  | _, _ => false
  end.

(* save/load case: the frame satisfies the hypothesis of the round-trip theorem,
   and model and implementation observe the same *)
Definition check_save_load (t : tframe ctensor) (cs : cstats) (i : iobs) : bool :=
  c_tframe_wfb t && obs_match cs (c_save_load t cs) i.

(* history case *)
Definition check_history (fresh : tframe ctensor * cstats) (h : list (event crows)) (is : list iobs) : bool :=
  c_tframe_wfb (fst fresh) &&
  (List.length (c_run fresh h) =? List.length is) &&
  forallb (fun p => obs_match (snd fresh) (fst p) (snd p)) (combine (c_run fresh h) is).
