(* Executable observation layer for the correspondence check (C05-C08):
   build a container with the public constructor, run a program of selections,
   and read every cell back through single-cell access, exactly as the harness
   observes the implementation. *)
From Coq Require Import ZArith List Bool Arith.
From PF Require Import Lib.ListX Lib.PySlice Model.Ragged.
Import ListNotations.

Definition payload := option Z.   (* None = NaN *)

Definition payload_eqb (a b : payload) : bool :=
  match a, b with
  | None, None => true
  | Some x, Some y => Z.eqb x y
  | _, _ => false
  end.

Fixpoint list_eqb {X} (e : X -> X -> bool) (a b : list X) : bool :=
  match a, b with
  | [], [] => true
  | x :: a', y :: b' => e x y && list_eqb e a' b'
  | _, _ => false
  end.

Definition cell := list payload.
Definition cells_eqb : list (list cell) -> list (list cell) -> bool :=
  list_eqb (list_eqb (list_eqb payload_eqb)).

(* _MultiTensor._normalize_dim: dims -3..-1 wrap to 0..2; dim 2 (the ragged axis) and anything else raise *)
Definition normalize_dim_z (d : Z) : option nat :=
  let d' := if (d <? 0)%Z then (d + 3)%Z else d in
  if (d' =? 0)%Z then Some 0 else if (d' =? 1)%Z then Some 1 else None.

Inductive step := SSel (dim : nat) (ix : index) | SSelZ (dim : Z) (ix : index) | SPair (i j : index)
  | SNarrow (dim start len : Z).   (* t.narrow(dim, start, length) called directly *)
Inductive obs := OErr | OVal (v : cell) | OCells (r c : nat) (m : list (list cell)) | OUnreadable.

Definition obs_step_eqb (a b : obs) : bool :=
  match a, b with
  | OErr, OErr => true
  | OVal x, OVal y => list_eqb payload_eqb x y
  | OCells r c m, OCells r' c' m' => Nat.eqb r r' && Nat.eqb c c' && cells_eqb m m'
  | _, _ => false
  end.
Definition obs_eqb : list obs -> list obs -> bool := list_eqb obs_step_eqb.

Section Run.
  Variable T : Type.
  Variable K : kernels payload T.

  Definition read_cells (t : T) : option (list (list cell)) :=
    mapM (fun i => mapM (fun j => k_get_value _ _ K t i j) (seq 0 (k_cols _ _ K t))) (seq 0 (k_rows _ _ K t)).

  Definition observe (t : T) : obs :=
    match read_cells t with
    | Some m => OCells (k_rows _ _ K t) (k_cols _ _ K t) m
    | None => OUnreadable
    end.

  (* narrow(dim, start, length) as a public method: `assert start >= 0`, then _normalize_dim *)
  Definition narrow_z (t : T) (dz start len : Z) : option T :=
    if (start <? 0)%Z then None
    else match normalize_dim_z dz with
         | Some d => narrow _ _ K t d (Z.to_nat start) len
         | None => None
         end.

  Fixpoint run_prog (t : T) (p : list step) : list obs :=
    match p with
    | [] => []
    | SSel d ix :: rest =>
        match select _ _ K t ix d with
        | Some t' => observe t' :: run_prog t' rest
        | None => [OErr]
        end
    | SSelZ dz ix :: rest =>
        match normalize_dim_z dz with
        | Some d =>
            match select _ _ K t ix d with
            | Some t' => observe t' :: run_prog t' rest
            | None => [OErr]
            end
        | None => [OErr]
        end
    | SNarrow dz start len :: rest =>
        match narrow_z t dz start len with
        | Some t' => observe t' :: run_prog t' rest
        | None => [OErr]
        end
    | SPair i j :: rest =>
        match getitem_pair _ _ K t i j with
        | Some (ItemValue _ _ v) => [OVal v]
        | Some (ItemTensor _ _ t') => observe t' :: run_prog t' rest
        | None => [OErr]
        end
    end.
End Run.

Definition run_mnt (m : list (list cell)) (p : list step) : list obs :=
  match mnt_from_mat payload m with
  | Some t => run_prog _ (mnt_kernels payload) t p
  | None => [OErr]
  end.

Definition run_met (m : list (list cell)) (p : list step) : list obs :=
  match met_from_cells payload m with
  | Some t => run_prog _ (met_kernels payload) t p
  | None => [OErr]
  end.

(* ------------------------------------------------------------------------ *)
(* Executable form of the C05 refinement statement (Props/C05.v), evaluated on
   every correspondence case as a test of the statement itself: after every
   selection the model's container is exactly the canonical representation of
   the nested-list selection. *)
From PF Require Import Model.RaggedSpec.

Definition mnt_eqb (a b : mnt payload) : bool :=
  Nat.eqb (nr a) (nr b) && Nat.eqb (nc a) (nc b) && list_eqb payload_eqb (vals a) (vals b)
  && list_eqb Nat.eqb (offs a) (offs b).
Definition met_eqb (a b : met payload) : bool :=
  Nat.eqb (er a) (er b) && Nat.eqb (ec a) (ec b)
  && list_eqb (list_eqb payload_eqb) (t2rows (evals a)) (t2rows (evals b))
  && Nat.eqb (t2w (evals a)) (t2w (evals b)) && list_eqb Nat.eqb (eoffs a) (eoffs b).

Fixpoint mnt_canon_prog (t : mnt payload) (m : cellmat payload) (p : list (nat * index)) : bool :=
  match p with
  | [] => true
  | (d, ix) :: rest =>
      match select _ _ (mnt_kernels payload) t ix d,
            py_positions (if d =? 0 then length m else nc t) ix with
      | Some t', Some pos =>
          let m' := pick d pos m in
          mnt_eqb t' (mnt_of_cells (if d =? 0 then nc t else length pos) m') && mnt_canon_prog t' m' rest
      | None, None => true
      | _, _ => false
      end
  end.

Fixpoint met_canon_prog (t : met payload) (ws : list nat) (m : cellmat payload) (p : list (nat * index)) : bool :=
  match p with
  | [] => true
  | (d, ix) :: rest =>
      match select _ _ (met_kernels payload) t ix d,
            py_positions (if d =? 0 then length m else length ws) ix with
      | Some t', Some pos =>
          let m' := pick d pos m in
          let ws' := pick_ws d pos ws in
          met_eqb t' (met_of_cells ws' m') && met_canon_prog t' ws' m' rest
      | None, None => true
      | _, _ => false
      end
  end.

Definition canon_mnt (m : cellmat payload) (p : list (nat * index)) : bool :=
  match mnt_from_mat payload m with
  | Some t => mnt_eqb t (mnt_of_cells (nc t) m) && mnt_canon_prog t m p
  | None => true
  end.
Definition canon_met (m : cellmat payload) (p : list (nat * index)) : bool :=
  match met_from_cells payload m with
  | Some t => let ws := map (@length payload) (hd [] m) in
              met_eqb t (met_of_cells ws m) && met_canon_prog t ws m p
  | None => true
  end.
