(* Executable model of torch_frame/nn/models/excelformer.py : feature_mixup
   (definitions only; lemmas live in Proofs/MixupProofs.v).

   The three random draws of the function are EXPLICIT inputs:
     rates : shuffle_rates = Beta(beta, beta).sample((B, 1))      [B]
     perm  : shuffled_idx  = torch.randperm(B)                     [B]
     unif  : torch.rand((B, F)) (feature) / torch.rand((B, D)) (hidden); not drawn when mixup is off
   Feature entries are integers (the code only multiplies them by a 0/1 mask and
   adds), targets and rates are rationals.  A raise / failed assert is None. *)
From Coq Require Import List ZArith QArith Qabs Bool Arith.
From PF Require Import Lib.ListX.
Import ListNotations.
Open Scope Q_scope.

Inductive mixup_type := MixNone | MixFeature | MixHidden.

(* the target tensor: LongTensor of class indices / labels, or float tensor *)
Inductive ytensor := YIdx (ys : list nat) | YVal (ys : list Q).

(* y_mixedup: [B, num_classes] for num_classes > 1, [B] for num_classes = 1 *)
Inductive ymixed := YMClass (rows : list (list Q)) | YMScalar (vals : list Q)
                | YMNaN.     (* every entry of y_mixedup is nan (see lam_is_nan); no exception is raised *)

Record draws := { rates : list Q; perm : list nat; unif : list (list Q) }.

(* elementwise binary / ternary tensor operations on equal shapes *)
Fixpoint map2 {A B C} (f : A -> B -> C) (l1 : list A) (l2 : list B) : list C :=
  match l1, l2 with
  | a :: r1, b :: r2 => f a b :: map2 f r1 r2
  | _, _ => []
  end.
Fixpoint map3 {A B C D} (f : A -> B -> C -> D) (l1 : list A) (l2 : list B) (l3 : list C) : list D :=
  match l1, l2, l3 with
  | a :: r1, b :: r2, c :: r3 => f a b c :: map3 f r1 r2 r3
  | _, _, _ => []
  end.

Definition qsum (l : list Q) : Q := fold_right Qplus 0 l.
Definition Qltb (a b : Q) : bool := negb (Qle_bool b a).
Definition bz (b : bool) : Z := if b then 1%Z else 0%Z.     (* bool tensor used in arithmetic *)
Definition bq (b : bool) : Q := if b then 1 else 0.

(* x.shape of a rank-3 tensor given as nested lists: (b, f, d); None when the
   nesting is ragged (not a tensor) or b = 0 / f = 0 (shape not representable) *)
Definition all_len {A} (n : nat) (l : list (list A)) : bool := forallb (fun r => length r =? n)%nat l.
Definition shape3 (x : list (list (list Z))) : option (nat * nat * nat) :=
  match x with
  | (c0 :: r0) :: _ =>
      let f := length (c0 :: r0) in
      let d := length c0 in
      if all_len f x && forallb (all_len d) x then Some (length x, f, d) else None
  | _ => None
  end.
Definition shape2 {A} (b n : nat) (u : list (list A)) : bool := (length u =? b)%nat && all_len n u.

(* torch.rand(b, n) < shuffle_rates    ([b, n] < [b, 1]: the rate of row i against every entry of row i) *)
Definition draw_mask (rs : list Q) (u : list (list Q)) : list (list bool) :=
  map2 (fun r urow => map (fun v => Qltb v r) urow) rs u.

(* norm_mi_scores = mi_scores / mi_scores.sum() *)
Definition norm_mi (mi : list Q) : list Q := let s := qsum mi in map (fun m => m / s) mi.
(* lam = sum(norm_mi_scores.unsqueeze(0) * mixup_mask, dim=1) for one row of the mask *)
Definition lam_feature (mi : list Q) (mrow : list bool) : Q :=
  qsum (map2 (fun w m => w * bq m) (norm_mi mi) mrow).

(* mixup_mask * x + ~mixup_mask * x[shuffled_idx], one scalar *)
Definition mix1 (m : bool) (a b : Z) : Z := (bz m * a + bz (negb m) * b)%Z.

(* the mask broadcast to [B][F][D]:
     feature: mask [B,F] .unsqueeze(2)  -> entry (i,j,k) is mask[i][j]
     hidden : mask [B,D] .unsqueeze(1)  -> entry (i,j,k) is mask[i][k]
     off    : ones_like(x)                                                      *)
Definition mask3_feature (d : nat) (m : list (list bool)) : list (list (list bool)) :=
  map (fun mrow => map (fun b => repeat b d) mrow) m.
Definition mask3_hidden (f : nat) (m : list (list bool)) : list (list (list bool)) :=
  map (fun mrow => repeat mrow f) m.
Definition mask3_ones (b f d : nat) : list (list (list bool)) := repeat (repeat (repeat true d) f) b.

Definition mix_features (m3 : list (list (list bool))) (x xp : list (list (list Z))) : list (list (list Z)) :=
  map3 (map3 (map3 mix1)) m3 x xp.

(* F.one_hot(y, num_classes): RuntimeError when a class value is out of range *)
Definition onehot_row (c : nat) (y : nat) : list Q := map (fun k => bq (k =? y)%nat) (seq 0 c).
Definition one_hot (c : nat) (y : nat) : option (list Q) :=
  if (y <? c)%nat then Some (onehot_row c y) else None.

(* lam * a + (1 - lam) * b *)
Definition cvx (lam a b : Q) : Q := lam * a + (1 - lam) * b.

(* the values the scalar branch mixes: a float target as is, an index target converted by type promotion *)
Definition scalar_values (y : ytensor) : list Q :=
  match y with YVal ys => ys | YIdx ys => map (fun n => inject_Z (Z.of_nat n)) ys end.

Definition mix_targets (nc : nat) (y : ytensor) (pm : list nat) (lams : list Q) : option ymixed :=
  if (nc =? 1)%nat then
    (* regression / binary: lam.squeeze(1) * y + (1 - lam) * y[shuffled_idx] *)
    let ys := scalar_values y in
    ysh <- tgather ys pm ;;
    if (length lams =? length ys)%nat then Some (YMScalar (map3 cvx lams ys ysh)) else None
  else
    match y with
    | YVal _ => None                       (* one_hot needs an index tensor *)
    | YIdx ys =>
        ysh <- tgather ys pm ;;
        oh <- mapM (one_hot nc) ys ;;
        ohs <- mapM (one_hot nc) ysh ;;
        if (length lams =? length ys)%nat
        then Some (YMClass (map3 (fun lam a b => map2 (cvx lam) a b) lams oh ohs))
        else None
    end.

(* the if / elif / else block: (mask broadcast to x's shape, lam per row) *)
Definition mask_and_lam (mt : mixup_type) (mi_scores : option (list Q)) (dr : draws) (b f d : nat)
  : option (list (list (list bool)) * list Q) :=
  match mt with
  | MixFeature =>
      mi <- mi_scores ;;                              (* assert mi_scores is not None *)
      if negb (shape2 b f (unif dr) && (length mi =? f)%nat) then None else
      let m := draw_mask (rates dr) (unif dr) in
      Some (mask3_feature d m, map (lam_feature mi) m)
  | MixHidden =>
      if negb (shape2 b d (unif dr)) then None else
      let m := draw_mask (rates dr) (unif dr) in
      Some (mask3_hidden f m, rates dr)               (* lam = shuffle_rates *)
  | MixNone =>
      Some (mask3_ones b f d, map (fun _ => 1) (rates dr))   (* ones_like(x), ones_like(shuffle_rates) *)
  end.

(* mi_scores / mi_scores.sum() with a ZERO sum is nan (0/0) or +-inf in every position; bool * inf = nan for a False
   mask entry and +inf + -inf = nan, so every lam -- and with it every entry of the mixed target -- is nan.  The
   code does not raise and the mixed FEATURE tensor is unaffected.  (The property quantifies over non-negative
   scores with a positive sum; this outcome is modelled so that it is not mistaken for a raise.  A non-zero sum of
   any sign is plain arithmetic.) *)
Definition lam_is_nan (mt : mixup_type) (mi_scores : option (list Q)) : bool :=
  match mt, mi_scores with
  | MixFeature, Some mi => Qeq_bool (qsum mi) 0
  | _, _ => false
  end.

Definition feature_mixup (x : list (list (list Z))) (y : ytensor) (num_classes : nat)
           (mt : mixup_type) (mi_scores : option (list Q)) (dr : draws)
  : option (list (list (list Z)) * ymixed) :=
  if (num_classes =? 0)%nat then None else                  (* assert num_classes > 0 *)
  bfd <- shape3 x ;;                                        (* assert x.ndim == 3; b, f, d = x.shape *)
  let '(b, f, d) := bfd in
  (* the draws have the shapes the code samples them with *)
  if negb ((length (rates dr) =? b)%nat && (length (perm dr) =? b)%nat) then None else
  xp <- tgather x (perm dr) ;;                              (* x[shuffled_idx] *)
  ml <- mask_and_lam mt mi_scores dr b f d ;;
  ym <- mix_targets num_classes y (perm dr) (snd ml) ;;         (* its raises (one_hot range, shapes) come first *)
  Some (mix_features (fst ml) x xp, if lam_is_nan mt mi_scores then YMNaN else ym).

(* entry (i, j, k) of a rank-3 tensor / (i, j) of a matrix; None = out of range *)
Definition ent {A} (x : list (list (list A))) (i j k : nat) : option A :=
  r <- nth_error x i ;; c <- nth_error r j ;; nth_error c k.
Definition ent2 {A} (m : list (list A)) (i j : nat) : option A :=
  r <- nth_error m i ;; nth_error r j.

(* the mask entry that decides position (i, j, k): per (row, column) in feature mode, per (row, channel) in
   hidden mode, constantly "keep" when mixup is off *)
Definition mask_at (mt : mixup_type) (dr : draws) (i j k : nat) : option bool :=
  match mt with
  | MixNone => Some true
  | MixFeature => ent2 (draw_mask (rates dr) (unif dr)) i j
  | MixHidden => ent2 (draw_mask (rates dr) (unif dr)) i k
  end.

(* lam of every row, as the code computes it in the three modes *)
Definition mixup_lams (mt : mixup_type) (mi_scores : option (list Q)) (dr : draws) : list Q :=
  match mt with
  | MixNone => map (fun _ => 1) (rates dr)
  | MixHidden => rates dr
  | MixFeature => match mi_scores with
                  | Some mi => map (lam_feature mi) (draw_mask (rates dr) (unif dr))
                  | None => []
                  end
  end.

(* mutual-information mass of the columns whose mask entry is "keep" *)
Definition kept_mass (mi : list Q) (mrow : list bool) : Q := qsum (map2 (fun w m => w * bq m) mi mrow).

(* ---------------------------------------------------------------------------
   Observation helpers for the correspondence check (harness/c19.py). *)
Fixpoint list_eqb {X} (e : X -> X -> bool) (a b : list X) : bool :=
  match a, b with
  | [], [] => true
  | x :: a', y :: b' => e x y && list_eqb e a' b'
  | _, _ => false
  end.
Definition qclose (tol a b : Q) : bool := Qle_bool (Qabs (a - b)) tol.
Definition ym_close (tol : Q) (a b : ymixed) : bool :=
  match a, b with
  | YMClass r, YMClass r' => list_eqb (list_eqb (qclose tol)) r r'
  | YMScalar v, YMScalar v' => list_eqb (qclose tol) v v'
  | YMNaN, YMNaN => true
  | _, _ => false
  end.
(* the lambda read off the implementation's target of a row is the SHARE kept_mass / total mass of that row's mask
   (within tol) and lies in [0,1] (within tol): executable right-hand side of feature_mode_lambda_is_mi_share *)
Definition share_agrees (tol : Q) (mi : list Q) (rows : list (list bool * Q)) : bool :=
  forallb (fun r => let share := kept_mass mi (fst r) / qsum mi in
                    Qle_bool (Qabs (snd r - share)) tol && Qle_bool (- tol) (snd r) && Qle_bool (snd r) (1 + tol)) rows.

(* the implementation's output (x as integers, y as exact rationals of the float32 values) against the model run
   on the recovered draws *)
Definition mixup_agrees (x : list (list (list Z))) (y : ytensor) (nc : nat) (mt : mixup_type)
           (mi : option (list Q)) (dr : draws) (tol : Q)
           (x_obs : list (list (list Z))) (y_obs : ymixed) : bool :=
  match feature_mixup x y nc mt mi dr with
  | Some (xm, ym) => list_eqb (list_eqb (list_eqb Z.eqb)) xm x_obs && ym_close tol ym y_obs
  | None => false
  end.
Definition mixup_raises (x : list (list (list Z))) (y : ytensor) (nc : nat) (mt : mixup_type)
           (mi : option (list Q)) (dr : draws) : bool :=
  match feature_mixup x y nc mt mi dr with Some _ => false | None => true end.
