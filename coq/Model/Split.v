(* Executable model of torch_frame/utils/split.py : generate_random_split (C09).
   Definitions only; lemmas are in Proofs/SplitProofs.v.

   Ratios are IEEE doubles (Coq primitive floats): the comparisons
   `train_ratio > 0`, `train_ratio + val_ratio < 1`, `... == 1` and the products
   `length * ratio` are computed exactly as CPython computes them; `int(.)`
   truncates the exact value of the rounded product (Lib/FloatInt.v).

   numpy's seeded shuffle is a parameter: `np_perm seed n` is the arrangement
   `np.random.seed(seed); np.random.shuffle(a)` applies to an array of length n
   (a[i] receives the old a[np_perm seed n [i]]).  That it is a function of
   (seed, n) only - not of the array's values nor of the prior global RNG state -
   and that it is a permutation is validated by harness/c09.py on every case. *)
From Coq Require Import ZArith List Bool String PrimFloat.
From PF Require Import Lib.ListX Lib.FloatInt Gen.Tables Model.Dataset.
Import ListNotations.
Local Open Scope Z_scope.

(* np.full(count, v): ValueError for a negative count *)
Definition np_full (count : Z) (v : Z) : option (list Z) :=
  if count <? 0 then None else Some (repeat v (Z.to_nat count)).

(* arr[perm] *)
Definition apply_perm {A} (perm : list nat) (l : list A) : option (list A) := tgather l perm.

Definition generate_random_split (np_perm : Z -> nat -> list nat)
    (length : nat) (seed : Z) (train_ratio val_ratio : float) (include_test : bool)
  : option (list Z) :=
  if negb (PrimFloat.ltb 0 train_ratio) then None            (* assert train_ratio > 0 *)
  else if negb (PrimFloat.ltb 0 val_ratio) then None          (* assert val_ratio > 0 *)
  else
    l_train <- assoc_str "train" split_to_num ;;
    l_val <- assoc_str "val" split_to_num ;;
    l_test <- assoc_str "test" split_to_num ;;
    arr <-
      (if include_test then
         if negb (PrimFloat.ltb (PrimFloat.add train_ratio val_ratio) 1) then None   (* assert tr + vr < 1 *)
         else
           train_num <- py_int (PrimFloat.mul (float_of_nat length) train_ratio) ;;
           val_num <- py_int (PrimFloat.mul (float_of_nat length) val_ratio) ;;
           let test_num := Z.of_nat length - train_num - val_num in
           a <- np_full train_num l_train ;;
           b <- np_full val_num l_val ;;
           c <- np_full test_num l_test ;;
           Some (a ++ b ++ c)
       else
         if negb (PrimFloat.eqb (PrimFloat.add train_ratio val_ratio) 1) then None   (* assert tr + vr == 1 *)
         else
           train_num <- py_int (PrimFloat.mul (float_of_nat length) train_ratio) ;;
           let val_num := Z.of_nat length - train_num in
           a <- np_full train_num l_train ;;
           b <- np_full val_num l_val ;;
           Some (a ++ b)) ;;
    (* np.random.seed(seed); np.random.shuffle(arr) *)
    apply_perm (np_perm seed (List.length arr)) arr.
